//@unit diag
//@property C03,C17
// "Compiling ... returns either a runnable function or a compile error with at least one located message; it never ...
// returns a function after having reported an error" (yarel/src/compiler.rs Parser::parse, Parser::error_at and its two
// wrappers). Reported messages are only ever appended to `errors`; error_at drops a report only while in panic mode,
// and panic mode is only ever entered together with recording a message — so `errors` is non-empty from the first
// report on, and parse() answers Err exactly when it is non-empty.
use vstd::prelude::*;
verus! {

global size_of usize == 8;

#[verifier::external_body]
#[verifier::accept_recursive_types(T)]
pub struct Gc<T> { p: core::marker::PhantomData<T> }
#[verifier::external_body]
#[verifier::accept_recursive_types(T)]
pub struct Root<T> { p: core::marker::PhantomData<T> }
pub struct ObjString { }
pub struct ObjFunction { }
pub struct Upvalue { }
//@enum file=yarel/src/scanner.rs name=TokenKind eq=1
//@enum file=yarel/src/error.rs name=ErrorKind
//@struct file=yarel/src/scanner.rs name=Token clone=1
// host-side error: its kind and how many message lines it carries
pub struct Error { pub kind: ErrorKind, pub ghost n_messages: nat }
// error.rs Error::with_messages over `errors.iter().map(String::as_str).collect()`: one message line per recorded report
#[verifier::external_body]
fn compile_error_from(errors: &Vec<Msg>) -> (e: Error) ensures e.kind is CompileError, e.n_messages == errors@.len() { unimplemented!() }
// one diagnostic message under construction: which source line its head names (the text itself is not modelled)
pub struct Msg { pub ghost line: Option<usize> }
impl Msg { #[verifier::external_body] fn new() -> (r: Msg) ensures r.line is None { unimplemented!() } }
// R35: the head of the message, `[module "…", line N] Error`
#[verifier::external_body]
fn verif_write_line(buf: &mut Msg, line: usize) ensures final(buf).line == Some(line) { unimplemented!() }
// R22: formatting further text into the message buffer
#[verifier::external_body]
fn verif_write(buf: &mut Msg) ensures final(buf).line == old(buf).line { unimplemented!() }
#[verifier::external_body]
fn token_clone(t: &Token) -> (r: Token) ensures r == *t { unimplemented!() }

//@struct file=yarel/src/compiler.rs name=Parser keepfields=current,previous,panic_mode,errors map "Parser<'a>" => "Parser" map "Cell<bool>" => "bool" map "RefCell<Vec<String>>" => "Vec<Msg>"

pub open spec fn is_prefix(a: Seq<Msg>, b: Seq<Msg>) -> bool { a.len() <= b.len() && forall|i: int| 0 <= i < a.len() ==> #[trigger] b[i] == a[i] }

impl Parser {
    // panic mode is only ever on when a message has been recorded
    pub open spec fn inv(&self) -> bool { self.panic_mode ==> self.errors@.len() > 0 }
    // what the rest of the parser may do to the diagnostics: report (append), leave panic mode
    pub open spec fn reports_only(&self, o: &Parser) -> bool { is_prefix(self.errors@, o.errors@) && o.inv() }

    // A report is recorded unless one was already recorded since the last synchronisation point; either way an error is
    // on record afterwards, and earlier messages are kept.
    //@fn file=yarel/src/compiler.rs path=Parser::error_at props=C03,C17
    //@  rewrite R9 R35 R22
    //@  subst "String::new()" => "Msg::new()"
    //@  sig "&self" => "&mut self"
    //@  subst "self.panic_mode.get()" => "self.panic_mode"
    //@  subst "self.panic_mode.set(true);" => "self.panic_mode = true;"
    //@  requires old(self).inv()
    //@  ensures final(self).errors@.len() > 0, final(self).inv(), final(self).panic_mode
    //@  ensures is_prefix(old(self).errors@, final(self).errors@)
    //@  ensures final(self).current == old(self).current, final(self).previous == old(self).previous
    //@  ensures @a_recorded_report_names_the_line_of_the_offending_token !old(self).panic_mode ==> final(self).errors@.len() == old(self).errors@.len() + 1 && final(self).errors@.last().line == Some(token.line)
    //@  ensures @a_suppressed_report_changes_nothing old(self).panic_mode ==> final(self).errors@ == old(self).errors@
    //@end
    //@fn file=yarel/src/compiler.rs path=Parser::error props=C03,C17
    //@  sig "&self" => "&mut self"
    //@  subst "self.previous.clone()" => "token_clone(&self.previous)"
    //@  requires old(self).inv()
    //@  ensures final(self).errors@.len() > 0, old(self).reports_only(final(self))
    //@  ensures @an_error_is_located_at_the_token_just_consumed !old(self).panic_mode ==> final(self).errors@.last().line == Some(old(self).previous.line)
    //@end
    //@fn file=yarel/src/compiler.rs path=Parser::error_at_current props=C03,C17
    //@  sig "&self" => "&mut self"
    //@  subst "self.current.clone()" => "token_clone(&self.current)"
    //@  requires old(self).inv()
    //@  ensures final(self).errors@.len() > 0, old(self).reports_only(final(self))
    //@  ensures @an_error_at_the_current_token_is_located_there !old(self).panic_mode ==> final(self).errors@.last().line == Some(old(self).current.line)
    //@end

    // the rest of the parser, as far as diagnostics go
    #[verifier::external_body]
    fn advance(&mut self) requires old(self).inv() ensures old(self).reports_only(final(self)) { unimplemented!() }
    #[verifier::external_body]
    fn match_token(&mut self, kind: TokenKind) -> bool requires old(self).inv() ensures old(self).reports_only(final(self)) { unimplemented!() }
    #[verifier::external_body]
    fn declaration(&mut self) requires old(self).inv() ensures old(self).reports_only(final(self)) { unimplemented!() }
    #[verifier::external_body]
    fn check_no_attributes(&mut self) requires old(self).inv() ensures old(self).reports_only(final(self)) { unimplemented!() }
    // finalise_compiler emits the implicit return (Parser::emit_return: no report, proved in unit `compiler`) and
    // allocates the function object; it contains no report site (assumed from its text)
    #[verifier::external_body]
    fn finalise_compiler(&mut self) -> (Root<ObjFunction>, Vec<Upvalue>) requires old(self).inv() ensures final(self).errors@ == old(self).errors@, final(self).inv() { unimplemented!() }

    // parse: Ok only if no report was ever recorded (reports are never removed), Err carries every recorded message
    // and there is at least one. (Termination of the token loop is not claimed: it needs scanner progress.)
    //@fn file=yarel/src/compiler.rs path=Parser::parse ret=r
    //@  rewrite R9
    //@  attr #[verifier::exec_allows_no_decreases_clause]
    //@  subst "Error::with_messages( ErrorKind::CompileError, &self .errors .iter() .map(String::as_str) .collect::<Vec<_>>(), )" => "compile_error_from(&self.errors)"
    //@  requires old(self).inv()
    //@  ensures @no_function_after_a_reported_error r is Ok ==> final(self).errors@.len() == 0 && old(self).errors@.len() == 0
    //@  ensures @compile_error_has_a_message r matches Err(e) ==> e.kind is CompileError && e.n_messages >= 1 && e.n_messages == final(self).errors@.len()
    //@  ensures is_prefix(old(self).errors@, final(self).errors@)
    //@  loop 0 invariant self.inv(), is_prefix(old(self).errors@, self.errors@)
    //@end
}

} // verus!
fn main() {}
