//@unit compiler
//@property C04 C06
// Contracts for the single-pass compiler's encoders and name resolution (yarel/src/compiler.rs, chunk.rs).
// Everything between `//@fn … //@end` is replaced by the function text extracted from /repo on every run.
use vstd::prelude::*;
verus! {

global size_of usize == 8;

// ------------------------------------------------------------------ environment stand-ins (assumed, listed in evidence)
#[verifier::external_body]
#[verifier::accept_recursive_types(T)]
pub struct Gc<T> { p: core::marker::PhantomData<T> }
impl<T> Clone for Gc<T> { #[verifier::external_body] fn clone(&self) -> (r: Self) ensures r == *self { Gc { p: core::marker::PhantomData } } }
impl<T> Copy for Gc<T> {}

// `Value` is opaque here: the compiler only stores values into the constant table.
#[verifier::external_body]
pub struct Value { _p: u8 }
impl Clone for Value { #[verifier::external_body] fn clone(&self) -> (r: Self) ensures r == *self { Value { _p: 0 } } }
impl Copy for Value {}

pub struct ObjString { pub hash: u64 }

// std::collections::HashMap<Value, usize> of Chunk: opaque; only `Chunk::add_constant` touches it (assumed contract below).
#[verifier::external_body]
pub struct ConstMap { _p: u8 }

// R2: `String == String` is std's byte comparison (trusted).
#[verifier::external_body]
fn string_eq(a: &String, b: &String) -> (r: bool) ensures r == (a@ == b@) { a == b }

#[verifier::external_body]
fn string_clone(a: &String) -> (r: String) ensures r@ == a@ { a.clone() }

// R6: the writer (`to_ne_bytes`) and the VM's reader (`u16::from_ne_bytes`, vm.rs read_short!) are inverse.
// `u16_of` is the reader's view of two code bytes; endianness itself is not modelled.
pub uninterp spec fn u16_of(b0: u8, b1: u8) -> int;
#[verifier::external_body]
fn u16_to_ne_bytes(x: u16) -> (r: [u8; 2]) ensures u16_of(r[0], r[1]) == x as int { x.to_ne_bytes() }

//@const file=yarel/src/common.rs name=LOCALS_MAX
//@const file=yarel/src/common.rs name=UPVALUES_MAX
//@const file=yarel/src/common.rs name=JUMP_SIZE_MAX

//@struct file=yarel/src/scanner.rs name=Token
//@enum file=yarel/src/scanner.rs name=TokenKind
//@struct file=yarel/src/compiler.rs name=Local
//@struct file=yarel/src/compiler.rs name=Upvalue
//@enum file=yarel/src/compiler.rs name=CompilerError
//@enum file=yarel/src/compiler.rs name=FunctionKind
//@struct file=yarel/src/object.rs name=ObjFunction
//@struct file=yarel/src/chunk.rs name=Chunk map "HashMap<Value, usize>" => "ConstMap"
//@struct file=yarel/src/compiler.rs name=Compiler

// ------------------------------------------------------------------ specification vocabulary (ours)
spec fn upvalue_pair(u: Upvalue) -> (u8, bool) { (u.index, u.is_local) }

impl Compiler {
    // Representation invariant carried by every contract below. The numeric limits are the ones the
    // *property* gives (a local / captured-variable operand is one byte), not the constants of common.rs.
    spec fn wf(&self) -> bool {
        &&& self.locals.len() <= 256
        &&& self.upvalues.len() <= 256
        &&& self.function.upvalue_count == self.upvalues.len()
        &&& self.chunk.code.len() == self.chunk.lines.len()
        &&& forall|i: int, j: int| 0 <= i < j < self.upvalues.len() ==>
                upvalue_pair(#[trigger] self.upvalues[i]) != upvalue_pair(#[trigger] self.upvalues[j])
    }

    // the local a use of `name` denotes: the last declared local of that name (innermost, textually preceding)
    spec fn is_last_match(&self, i: int, name: Seq<char>) -> bool {
        &&& 0 <= i < self.locals.len()
        &&& self.locals[i].name@ == name
        &&& forall|j: int| i < j < self.locals.len() ==> (#[trigger] self.locals[j]).name@ != name
    }
    spec fn no_match(&self, name: Seq<char>) -> bool {
        forall|j: int| 0 <= j < self.locals.len() ==> (#[trigger] self.locals[j]).name@ != name
    }

    //@fn file=yarel/src/compiler.rs path=Compiler::add_local ret=r
    //@  rewrite R11
    //@  subst "name.source.clone()" => "string_clone(&name.source)" count=1
    //@  requires old(self).wf()
    //@  ensures final(self).wf()
    //@  ensures r ==> final(self).locals@.len() == old(self).locals@.len() + 1 && final(self).locals@.len() <= 256
    //@  ensures r ==> final(self).locals@.subrange(0, old(self).locals@.len() as int) == old(self).locals@
    //@  ensures r ==> final(self).locals@.last().name@ == name.source@ && final(self).locals@.last().depth.is_none() && !final(self).locals@.last().is_captured
    //@  ensures !r ==> old(self).locals@.len() == 256 && final(self).locals@ == old(self).locals@
    //@  ensures final(self).upvalues@ == old(self).upvalues@ && final(self).chunk == old(self).chunk && final(self).scope_depth == old(self).scope_depth
    //@end

    //@fn file=yarel/src/compiler.rs path=Compiler::mark_initialised
    //@  requires (local as int) < old(self).locals.len()
    //@  ensures final(self).locals@.len() == old(self).locals@.len()
    //@  ensures final(self).locals@[local as int].depth == Some(old(self).scope_depth)
    //@  ensures final(self).locals@[local as int].name == old(self).locals@[local as int].name
    //@  ensures forall|j: int| 0 <= j < old(self).locals@.len() && j != local ==> final(self).locals@[j] == old(self).locals@[j]
    //@end

    //@fn file=yarel/src/compiler.rs path=Compiler::resolve_local ret=r
    //@  rewrite R5
    //@  subst "local.name == name.source" => "string_eq(&local.name, &name.source)" count=1
    //@  requires self.locals.len() <= 256
    //@  ensures r matches Ok(i) ==> self.is_last_match(i as int, name.source@) && self.locals[i as int].depth.is_some()
    //@  ensures r matches Err(CompilerError::ReadVarInInitialiser) ==> exists|i: int| self.is_last_match(i, name.source@) && self.locals[i].depth.is_none()
    //@  ensures r matches Err(CompilerError::LocalNotFound) ==> self.no_match(name.source@)
    //@  ensures r is Err ==> (r matches Err(CompilerError::ReadVarInInitialiser)) || (r matches Err(CompilerError::LocalNotFound))
    //@  loop 0 invariant __k0 <= self.locals.len() <= 256
    //@  loop 0 invariant forall|j: int| __k0 <= j < self.locals.len() ==> (#[trigger] self.locals[j]).name@ != name.source@
    //@  loop 0 decreases __k0
    //@  before "return Err(CompilerError::ReadVarInInitialiser);" proof { assert(self.is_last_match(i as int, name.source@)); }
    //@end

    //@fn file=yarel/src/compiler.rs path=Compiler::add_upvalue ret=r
    //@  rewrite R5 R11
    //@  requires old(self).wf()
    //@  ensures final(self).wf()
    //@  ensures final(self).locals@ == old(self).locals@ && final(self).chunk == old(self).chunk
    //@  ensures old(self).upvalues@.len() <= final(self).upvalues@.len() && final(self).upvalues@.subrange(0, old(self).upvalues@.len() as int) == old(self).upvalues@
    //@  ensures r matches Ok(j) ==> (j as int) < final(self).upvalues@.len() && upvalue_pair(final(self).upvalues@[j as int]) == (index, is_local)
    //@  ensures r matches Ok(j) ==> final(self).upvalues@.len() <= old(self).upvalues@.len() + 1
    //@  ensures r is Err ==> final(self).upvalues@ == old(self).upvalues@ && old(self).upvalues@.len() == 256
    //@  ensures r is Err ==> forall|j: int| 0 <= j < old(self).upvalues@.len() ==> upvalue_pair(#[trigger] old(self).upvalues@[j]) != (index, is_local)
    //@  loop 0 invariant __k0 <= self.upvalues.len(), upvalue_count == self.upvalues.len(), *self == *old(self), old(self).wf()
    //@  loop 0 invariant forall|j: int| 0 <= j < __k0 ==> upvalue_pair(#[trigger] self.upvalues[j]) != (index, is_local)
    //@  loop 0 decreases self.upvalues.len() - __k0
    //@end

    //@fn file=yarel/src/compiler.rs path=Compiler::patch_jump ret=r
    //@  rewrite R6 R11
    //@  requires old(self).wf(), offset + 2 <= old(self).chunk.code.len()
    //@  ensures final(self).wf()
    //@  ensures final(self).chunk.code@.len() == old(self).chunk.code@.len()
    //@  ensures r is Ok ==> u16_of(final(self).chunk.code@[offset as int], final(self).chunk.code@[offset + 1]) == old(self).chunk.code@.len() - offset - 2
    //@  ensures forall|j: int| 0 <= j < old(self).chunk.code@.len() && j != offset && j != offset + 1 ==> final(self).chunk.code@[j] == old(self).chunk.code@[j]
    //@  ensures final(self).locals@ == old(self).locals@ && final(self).upvalues@ == old(self).upvalues@
    //@end
}

} // verus!
fn main() {}
