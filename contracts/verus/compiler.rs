//@unit compiler
//@property C04
// Contracts for the single-pass compiler's encoders and name resolution (yarel/src/compiler.rs, chunk.rs).
// Everything between `//@fn … //@end` is replaced by the function text extracted from /repo on every run.
use vstd::prelude::*;
#[allow(unused_imports)]
use std::mem;
verus! {

global size_of usize == 8;

// ------------------------------------------------------------------ environment stand-ins (assumed, listed in evidence)
#[verifier::external_body]
#[verifier::accept_recursive_types(T)]
pub struct Gc<T> { p: core::marker::PhantomData<T> }
impl<T> Clone for Gc<T> { #[verifier::external_body] fn clone(&self) -> (r: Self) ensures r == *self { Gc { p: core::marker::PhantomData } } }
impl<T> Copy for Gc<T> {}

// `Value` is opaque here: the compiler only stores values into the constant table.
#[verifier::external_body]
pub struct Value { _p: u8 }
impl Clone for Value { #[verifier::external_body] fn clone(&self) -> (r: Self) ensures r == *self { Value { _p: 0 } } }
impl Copy for Value {}

pub struct ObjString { pub hash: u64 }

// std::collections::HashMap<Value, usize> of Chunk: opaque; only `Chunk::add_constant` touches it (assumed contract below).
#[verifier::external_body]
pub struct ConstMap { _p: u8 }

// R2: `String == String` is std's byte comparison (trusted).
#[verifier::external_body]
fn string_eq(a: &String, b: &String) -> (r: bool) ensures r == (a@ == b@) { a == b }

#[verifier::external_body]
fn string_is_empty(a: &String) -> (r: bool) ensures r == (a@.len() == 0) { a.is_empty() }

// R13 / R14 stand-ins
#[verifier::external_body]
fn verif_format() -> String { String::new() }
#[verifier::external_body]
fn verif_intern(s: &str) -> Gc<ObjString> { unimplemented!() }
impl Value {
    // stand-in for the enum constructor `Value::ObjString(..)`: Value is opaque in this unit
    #[verifier::external_body]
    #[allow(non_snake_case)]
    fn ObjString(g: Gc<ObjString>) -> Value { unimplemented!() }
}

impl Token {
    #[verifier::external_body]
    pub fn from_string(source: &str) -> (r: Token) ensures r.source@ == source@ { unimplemented!() }
}

#[verifier::external_body]
fn string_clone(a: &String) -> (r: String) ensures r@ == a@ { a.clone() }

// R6: the writer (`to_ne_bytes`) and the VM's reader (`u16::from_ne_bytes`, vm.rs read_short!) are inverse.
// `u16_of` is the reader's view of two code bytes; endianness itself is not modelled.
pub uninterp spec fn u16_of(b0: u8, b1: u8) -> int;
#[verifier::external_body]
fn u16_to_ne_bytes(x: u16) -> (r: [u8; 2]) ensures u16_of(r[0], r[1]) == x as int { x.to_ne_bytes() }

//@const file=yarel/src/common.rs name=LOCALS_MAX
//@const file=yarel/src/common.rs name=UPVALUES_MAX
//@const file=yarel/src/common.rs name=JUMP_SIZE_MAX

//@struct file=yarel/src/scanner.rs name=Token
//@enum file=yarel/src/scanner.rs name=TokenKind eq=1
//@struct file=yarel/src/compiler.rs name=Local
//@struct file=yarel/src/compiler.rs name=Upvalue
// Root<ObjFunction>: the finished function object (opaque here)
#[verifier::external_body]
pub struct FnRoot { _p: u8 }
//@enum file=yarel/src/compiler.rs name=CompilerError
//@enum file=yarel/src/compiler.rs name=FunctionKind eq=1
//@struct file=yarel/src/object.rs name=ObjFunction
//@struct file=yarel/src/chunk.rs name=Chunk map "HashMap<Value, usize>" => "ConstMap"
//@struct file=yarel/src/compiler.rs name=Compiler

// ------------------------------------------------------------------ specification vocabulary (ours)
spec fn upvalue_pair(u: Upvalue) -> (u8, bool) { (u.index, u.is_local) }

impl Compiler {
    // Representation invariant carried by every contract below. The numeric limits are the ones the
    // *property* gives (a local / captured-variable operand is one byte), not the constants of common.rs.
    spec fn wf(&self) -> bool {
        &&& self.locals.len() <= 256
        &&& self.upvalues.len() <= 256
        &&& self.function.upvalue_count == self.upvalues.len()
        &&& self.chunk.code.len() == self.chunk.lines.len()
        &&& forall|i: int, j: int| 0 <= i < j < self.upvalues.len() ==>
                upvalue_pair(#[trigger] self.upvalues[i]) != upvalue_pair(#[trigger] self.upvalues[j])
    }

    // the local a use of `name` denotes: the last declared local of that name (innermost, textually preceding)
    spec fn is_last_match(&self, i: int, name: Seq<char>) -> bool {
        &&& 0 <= i < self.locals.len()
        &&& self.locals[i].name@ == name
        &&& forall|j: int| i < j < self.locals.len() ==> (#[trigger] self.locals[j]).name@ != name
    }
    spec fn no_match(&self, name: Seq<char>) -> bool {
        forall|j: int| 0 <= j < self.locals.len() ==> (#[trigger] self.locals[j]).name@ != name
    }

    //@fn file=yarel/src/compiler.rs path=Compiler::add_local ret=r props=C04,C06
    //@  rewrite R11
    //@  subst "name.source.clone()" => "string_clone(&name.source)" count=1
    //@  requires old(self).wf()
    //@  ensures final(self).wf()
    //@  ensures r ==> final(self).locals@.len() == old(self).locals@.len() + 1 && final(self).locals@.len() <= 256
    //@  ensures r ==> final(self).locals@.subrange(0, old(self).locals@.len() as int) == old(self).locals@
    //@  ensures r ==> final(self).locals@.last().name@ == name.source@ && final(self).locals@.last().depth.is_none() && !final(self).locals@.last().is_captured
    //@  ensures !r ==> old(self).locals@.len() == 256 && final(self).locals@ == old(self).locals@
    //@  ensures final(self).upvalues@ == old(self).upvalues@ && final(self).chunk == old(self).chunk && final(self).scope_depth == old(self).scope_depth
    //@  ensures same_compiler_but_locals(*old(self), *final(self))
    //@end

    //@fn file=yarel/src/compiler.rs path=Compiler::mark_initialised props=C04,C06
    //@  requires (local as int) < old(self).locals.len(), old(self).wf()
    //@  ensures final(self).wf(), same_compiler_but_locals(*old(self), *final(self))
    //@  ensures final(self).locals@.len() == old(self).locals@.len()
    //@  ensures final(self).locals@[local as int].depth == Some(old(self).scope_depth)
    //@  ensures final(self).locals@[local as int].name == old(self).locals@[local as int].name
    //@  ensures forall|j: int| 0 <= j < old(self).locals@.len() && j != local ==> final(self).locals@[j] == old(self).locals@[j]
    //@end


    //@fn file=yarel/src/compiler.rs path=Compiler::mark_last_initialised props=C04,C06
    //@  requires old(self).locals@.len() > 0, old(self).wf()
    //@  ensures final(self).wf(), final(self).locals@.len() == old(self).locals@.len()
    //@  ensures final(self).locals@.last().depth == Some(old(self).scope_depth) && final(self).locals@.last().name == old(self).locals@.last().name
    //@  ensures forall|j: int| 0 <= j < old(self).locals@.len() - 1 ==> final(self).locals@[j] == old(self).locals@[j]
    //@  ensures same_compiler_but_locals(*old(self), *final(self))
    //@end

    //@fn file=yarel/src/compiler.rs path=Compiler::resolve_local ret=r props=C04,C06
    //@  rewrite R5
    //@  subst "local.name == name.source" => "string_eq(&local.name, &name.source)" count=1
    //@  requires self.locals.len() <= 256
    //@  ensures r matches Ok(i) ==> self.is_last_match(i as int, name.source@) && self.locals[i as int].depth.is_some()
    //@  ensures r matches Err(CompilerError::ReadVarInInitialiser) ==> exists|i: int| self.is_last_match(i, name.source@) && self.locals[i].depth.is_none()
    //@  ensures r matches Err(CompilerError::LocalNotFound) ==> self.no_match(name.source@)
    //@  ensures r is Err ==> (r matches Err(CompilerError::ReadVarInInitialiser)) || (r matches Err(CompilerError::LocalNotFound))
    //@  loop 0 invariant __k0 <= self.locals.len() <= 256
    //@  loop 0 invariant forall|j: int| __k0 <= j < self.locals.len() ==> (#[trigger] self.locals[j]).name@ != name.source@
    //@  loop 0 decreases __k0
    //@  before_stmt "return Err(CompilerError::ReadVarInInitialiser)" proof { assert(self.is_last_match(i as int, name.source@)); }
    //@end

    //@fn file=yarel/src/compiler.rs path=Compiler::add_upvalue ret=r props=C04,C06
    //@  rewrite R5 R11
    //@  requires old(self).wf()
    //@  ensures final(self).wf()
    //@  ensures final(self).locals@ == old(self).locals@ && final(self).chunk == old(self).chunk
    //@  ensures old(self).upvalues@.len() <= final(self).upvalues@.len() && final(self).upvalues@.subrange(0, old(self).upvalues@.len() as int) == old(self).upvalues@
    //@  ensures r matches Ok(j) ==> (j as int) < final(self).upvalues@.len() && upvalue_pair(final(self).upvalues@[j as int]) == (index, is_local)
    //@  ensures r matches Ok(j) ==> final(self).upvalues@.len() <= old(self).upvalues@.len() + 1
    //@  ensures r is Err ==> final(self).upvalues@ == old(self).upvalues@ && old(self).upvalues@.len() == 256
    //@  ensures r is Err ==> forall|j: int| 0 <= j < old(self).upvalues@.len() ==> upvalue_pair(#[trigger] old(self).upvalues@[j]) != (index, is_local)
    //@  ensures r matches Err(e) ==> e is TooManyClosureVars
    //@  ensures final(self).scope_depth == old(self).scope_depth && final(self).kind == old(self).kind
    //@  loop 0 invariant __k0 <= self.upvalues.len(), *self == *old(self), old(self).wf()
    //@  loop 0 invariant if_before "let upvalue_count = self.upvalues.len();" upvalue_count == self.upvalues.len()
    //@  loop 0 invariant forall|j: int| 0 <= j < __k0 ==> upvalue_pair(#[trigger] self.upvalues[j]) != (index, is_local)
    //@  loop 0 decreases self.upvalues.len() - __k0
    //@end


    //@fn file=yarel/src/compiler.rs path=Compiler::push_loop
    //@  requires old(self).wf()
    //@  ensures final(self).wf(), final(self).loop_stack@ == old(self).loop_stack@.push((old(self).chunk.code@.len() as usize, old(self).scope_depth, old(self).try_depth))
    //@  ensures final(self).break_stack@.len() == old(self).break_stack@.len() + 1 && final(self).break_stack@.last()@.len() == 0
    //@  ensures final(self).break_stack@.subrange(0, old(self).break_stack@.len() as int) == old(self).break_stack@
    //@  ensures same_compiler_but_loops(*old(self), *final(self))
    //@  ensures breaks_ok(*old(self)) ==> breaks_ok(*final(self))
    //@  at body.end proof { assert(forall|i: int| 0 <= i < old(self).break_stack@.len() ==> self.break_stack@[i] == self.break_stack@.subrange(0, old(self).break_stack@.len() as int)[i]); }
    //@end

    //@fn file=yarel/src/compiler.rs path=Compiler::push_break ret=r
    //@  requires old(self).wf()
    //@  ensures final(self).wf(), same_compiler_but_loops(*old(self), *final(self)), final(self).loop_stack == old(self).loop_stack
    //@  ensures r is Ok ==> old(self).break_stack@.len() > 0 && final(self).break_stack@.len() == old(self).break_stack@.len() && final(self).break_stack@.last()@ == old(self).break_stack@.last()@.push(pos)
    //@  ensures r matches Err(e) ==> e is InvalidControlStatement && old(self).break_stack@.len() == 0 && final(self).break_stack@ == old(self).break_stack@
    //@end

    //@fn file=yarel/src/compiler.rs path=Compiler::current_loop_header ret=r
    //@  subst "self.loop_stack.last().copied()" => "option_copied(self.loop_stack.last())" count=1
    //@  ensures self.loop_stack@.len() == 0 ==> r is None
    //@  ensures self.loop_stack@.len() > 0 ==> r == Some(self.loop_stack@.last())
    //@end


    //@fn file=yarel/src/compiler.rs path=Compiler::pop_loop ret=r props=C04
    //@  rewrite R15
    //@  subst ".expect(\"Expected Vec.\")" => ".unwrap()"
    //@  requires old(self).wf(), old(self).break_stack@.len() > 0, breaks_ok(*old(self))
    //@  ensures final(self).wf(), final(self).chunk.code@.len() == old(self).chunk.code@.len()
    //@  ensures final(self).locals@ == old(self).locals@ && final(self).upvalues@ == old(self).upvalues@ && final(self).scope_depth == old(self).scope_depth
    //@  ensures final(self).break_stack@ == old(self).break_stack@.drop_last()
    //@  ensures old(self).loop_stack@.len() > 0 ==> final(self).loop_stack@ == old(self).loop_stack@.drop_last()
    //@  ensures r matches Err(e) ==> e is JumpTooLarge
    //@  at body.start let ghost bps = self.break_stack@.last()@; let ghost n0 = self.chunk.code@.len();
    //@  loop 0 iter it
    //@  loop 0 invariant self.wf(), self.chunk.code@.len() == n0, n0 == old(self).chunk.code@.len(), break_points@ == bps, forall|j: int| 0 <= j < bps.len() ==> #[trigger] bps[j] + 2 <= n0
    //@  loop 0 invariant self.locals@ == old(self).locals@ && self.upvalues@ == old(self).upvalues@ && self.scope_depth == old(self).scope_depth
    //@  loop 0 invariant self.break_stack@ == old(self).break_stack@.drop_last(), old(self).loop_stack@.len() > 0 ==> self.loop_stack@ == old(self).loop_stack@.drop_last()
    //@  loop 0 invariant it.seq().len() == bps.len(), forall|j: int| 0 <= j < bps.len() ==> *it.seq()[j] == bps[j]
    //@end

    //@fn file=yarel/src/compiler.rs path=Compiler::patch_jump ret=r
    //@  rewrite R6 R11
    //@  requires old(self).wf(), offset + 2 <= old(self).chunk.code.len()
    //@  ensures final(self).wf()
    //@  ensures final(self).chunk.code@.len() == old(self).chunk.code@.len()
    //@  ensures r is Ok ==> u16_of(final(self).chunk.code@[offset as int], final(self).chunk.code@[offset + 1]) == old(self).chunk.code@.len() - offset - 2
    //@  ensures forall|j: int| 0 <= j < old(self).chunk.code@.len() && j != offset && j != offset + 1 ==> final(self).chunk.code@[j] == old(self).chunk.code@[j]
    //@  ensures same_compiler_but_code(*old(self), *final(self)) && final(self).chunk.lines == old(self).chunk.lines
    //@  ensures r matches Err(e) ==> e is JumpTooLarge
    //@end
}


// ------------------------------------------------------------------ scope-exit vocabulary (C06)
spec fn all_initialised(locals: Seq<Local>) -> bool { forall|i: int| 0 <= i < locals.len() ==> (#[trigger] locals[i]).depth.is_some() }
spec fn close_op(l: Local) -> u8 { if l.is_captured { opcode_byte(OpCode::CloseUpvalue) } else { opcode_byte(OpCode::Pop) } }
// number of innermost locals declared deeper than scope depth d
spec fn drop_count(locals: Seq<Local>, d: usize) -> nat
    decreases locals.len()
{
    if locals.len() == 0 || locals.last().depth.unwrap() <= d { 0 } else { 1 + drop_count(locals.drop_last(), d) }
}
// the instructions that discard them, innermost first; a captured one is closed, not popped
spec fn scope_end_code(locals: Seq<Local>, d: usize) -> Seq<u8>
    decreases locals.len()
{
    if locals.len() == 0 || locals.last().depth.unwrap() <= d { Seq::empty() } else { seq![close_op(locals.last())] + scope_end_code(locals.drop_last(), d) }
}
proof fn lemma_drop_count_le(locals: Seq<Local>, d: usize)
    ensures drop_count(locals, d) <= locals.len(), scope_end_code(locals, d).len() == drop_count(locals, d)
    decreases locals.len()
{
    if locals.len() == 0 || locals.last().depth.unwrap() <= d { } else { lemma_drop_count_le(locals.drop_last(), d); }
}


// a local of the same name declared in the scope being compiled (the trailing run of locals that are
// uninitialised or at depth >= d)
spec fn same_scope_duplicate(locals: Seq<Local>, d: usize, name: Seq<char>) -> bool
    decreases locals.len()
{
    if locals.len() == 0 { false }
    else if locals.last().depth.is_some() && locals.last().depth.unwrap() < d { false }
    else { locals.last().name@ == name || same_scope_duplicate(locals.drop_last(), d, name) }
}


// ------------------------------------------------------------------ capture chains (C06)
// a use of `name` inside compiler c can be resolved to an initialised local of c
spec fn resolvable(c: Compiler, name: Seq<char>) -> bool {
    exists|i: int| #[trigger] c.is_last_match(i, name) && c.locals[i].depth.is_some()
}
// following capture descriptor j of compiler c outwards ends at local i of compiler e
spec fn chain(cs: Seq<Compiler>, c: int, j: int, e: int, i: int) -> bool
    decreases c
{
    if e < 0 || c <= e || c >= cs.len() || !(0 <= j < cs[c].upvalues@.len()) { false }
    else if c == e + 1 { cs[c].upvalues@[j].is_local && cs[c].upvalues@[j].index as int == i }
    else { !cs[c].upvalues@[j].is_local && chain(cs, c - 1, cs[c].upvalues@[j].index as int, e, i) }
}
// chain only looks at compilers e+1..=c and at descriptors that exist
proof fn lemma_chain_frame(a: Seq<Compiler>, b: Seq<Compiler>, c: int, j: int, e: int, i: int)
    requires a.len() == b.len(), chain(a, c, j, e, i),
        forall|k: int| e < k <= c ==> #[trigger] a[k].upvalues@.len() <= b[k].upvalues@.len() && b[k].upvalues@.subrange(0, a[k].upvalues@.len() as int) =~= a[k].upvalues@,
    ensures chain(b, c, j, e, i)
    decreases c
{
    assert(b[c].upvalues@.subrange(0, a[c].upvalues@.len() as int)[j] == a[c].upvalues@[j]);
    if c > e + 1 {
        lemma_chain_frame(a, b, c - 1, a[c].upvalues@[j].index as int, e, i);
    }
}
spec fn capture_ok(old_cs: Seq<Compiler>, new_cs: Seq<Compiler>, e: int, i: int, j: int, name: Seq<char>) -> bool {
    &&& 0 <= e < old_cs.len() - 1
    &&& old_cs[e].is_last_match(i, name) && old_cs[e].locals[i].depth.is_some()
    &&& forall|k: int| e < k < old_cs.len() - 1 ==> (#[trigger] old_cs[k]).no_match(name)
    &&& new_cs[e].locals[i].is_captured
    &&& chain(new_cs, old_cs.len() - 1, j, e, i)
}
spec fn captured_somewhere(old_cs: Seq<Compiler>, new_cs: Seq<Compiler>, j: int, name: Seq<char>) -> bool {
    exists|e: int, i: int| capture_ok(old_cs, new_cs, e, i, j, name)
}
// what resolve_upvalue may change: `is_captured` flags and appended capture descriptors
spec fn capture_frame(a: Compiler, b: Compiler) -> bool {
    &&& locals_same_shape(a.locals@, b.locals@)
    &&& a.upvalues@.len() <= b.upvalues@.len() && b.upvalues@.subrange(0, a.upvalues@.len() as int) =~= a.upvalues@
    &&& a.chunk == b.chunk && a.scope_depth == b.scope_depth && a.kind == b.kind
}

// ================================================================== Parser (emitters, resolution across compilers)
//@struct file=yarel/src/compiler.rs name=ClassCompiler
//@enum file=yarel/src/chunk.rs name=OpCode
//@struct file=yarel/src/compiler.rs name=Parser map "Parser<'a>" => "Parser" map "Cell<bool>" => "bool" map "RefCell<Vec<String>>" => "Vec<String>" dropfield scanner dropfield vm dropfield attributes dropfield compiled_functions addfield "pub ghost pushed: int"

// The real enum is #[repr(u8)] and cast with `as u8`; only injectivity matters to the encoder contracts.
pub uninterp spec fn opcode_byte(op: OpCode) -> u8;
// OpCode::arg_sizes() == &[1] (chunk.rs): the opcodes whose single operand is one byte
pub uninterp spec fn byte_operand(op: OpCode) -> bool;
#[verifier::external_body]
fn function_kind_is_initialiser(k: &FunctionKind) -> (r: bool) ensures r == (*k is Initialiser) { unimplemented!() }
#[verifier::external_body]
fn opcode_u8(op: OpCode) -> (r: u8) ensures r == opcode_byte(op) { op as u8 }

// n copies of one byte
pub open spec fn repeat_byte(b: u8, n: int) -> Seq<u8> { Seq::new(if n > 0 { n as nat } else { 0 }, |i: int| b) }
pub proof fn lemma_repeat_byte_push(b: u8, n: int)
    requires n >= 0
    ensures repeat_byte(b, n).push(b) =~= repeat_byte(b, n + 1)
{}

spec fn locals_same_shape(a: Seq<Local>, b: Seq<Local>) -> bool {
    a.len() == b.len() && forall|i: int| #![trigger a[i]] #![trigger b[i]] 0 <= i < a.len() ==> a[i].name == b[i].name && a[i].depth == b[i].depth
}

spec fn same_compiler_but_locals(a: Compiler, b: Compiler) -> bool {
    &&& a.function == b.function && a.kind == b.kind && a.upvalues == b.upvalues
    &&& a.scope_depth == b.scope_depth && a.lambda_count == b.lambda_count && a.try_depth == b.try_depth
    &&& a.loop_stack == b.loop_stack && a.break_stack == b.break_stack && a.chunk == b.chunk
}

// every recorded break position is the operand of a jump inside the code
spec fn breaks_ok(c: Compiler) -> bool {
    forall|i: int, j: int| 0 <= i < c.break_stack@.len() && 0 <= j < c.break_stack@[i]@.len() ==> (#[trigger] c.break_stack@[i]@[j]) + 2 <= c.chunk.code@.len()
}

spec fn same_compiler_but_loops(a: Compiler, b: Compiler) -> bool {
    &&& a.function == b.function && a.kind == b.kind && a.locals == b.locals && a.upvalues == b.upvalues
    &&& a.scope_depth == b.scope_depth && a.lambda_count == b.lambda_count && a.try_depth == b.try_depth
    &&& a.chunk == b.chunk
}

#[verifier::external_body]
fn option_copied(o: Option<&(usize, usize, usize)>) -> (r: Option<(usize, usize, usize)>)
    ensures o is None ==> r is None, o matches Some(p) ==> r == Some(*p),
{ o.copied() }

spec fn same_compiler_but_code_locals(a: Compiler, b: Compiler) -> bool {
    &&& a.function == b.function && a.kind == b.kind && a.upvalues == b.upvalues
    &&& a.scope_depth == b.scope_depth && a.lambda_count == b.lambda_count && a.try_depth == b.try_depth
    &&& a.loop_stack == b.loop_stack && a.break_stack == b.break_stack
    &&& a.chunk.constants == b.chunk.constants && a.chunk.constant_map == b.chunk.constant_map
}

spec fn same_compiler_but_code(a: Compiler, b: Compiler) -> bool {
    &&& a.function == b.function && a.kind == b.kind && a.locals == b.locals && a.upvalues == b.upvalues
    &&& a.scope_depth == b.scope_depth && a.lambda_count == b.lambda_count && a.try_depth == b.try_depth
    &&& a.loop_stack == b.loop_stack && a.break_stack == b.break_stack
    &&& a.chunk.constants == b.chunk.constants && a.chunk.constant_map == b.chunk.constant_map
}

impl Chunk {
    //@fn file=yarel/src/chunk.rs path=Chunk::write props=C04,C06,C17
    //@  ensures final(self).code@ == old(self).code@.push(byte) && final(self).lines@.len() == old(self).lines@.len() + 1 && final(self).lines@.subrange(0, old(self).lines@.len() as int) == old(self).lines@
    //@  ensures @the_line_table_records_the_line_it_is_given final(self).lines@.last() as int == line as int
    //@  ensures final(self).constants == old(self).constants && final(self).constant_map == old(self).constant_map
    //@end

    // std HashMap entry API: assumed contract (HashMap is outside both back ends' reach).
    #[verifier::external_body]
    pub fn add_constant(&mut self, value: Value) -> (r: usize)
        ensures
            r < final(self).constants@.len(), final(self).constants@[r as int] == value,
            old(self).constants@.len() <= final(self).constants@.len() <= old(self).constants@.len() + 1,
            final(self).constants@.subrange(0, old(self).constants@.len() as int) == old(self).constants@,
            final(self).code == old(self).code, final(self).lines == old(self).lines,
    { unimplemented!() }
}

impl Parser {
    spec fn pwf(&self) -> bool {
        &&& self.compilers.len() > 0
        &&& forall|i: int| 0 <= i < self.compilers.len() ==> (#[trigger] self.compilers[i]).wf()
    }
    spec fn cur(&self) -> Compiler { self.compilers[self.compilers.len() - 1] }
    spec fn code(&self) -> Seq<u8> { self.cur().chunk.code@ }
    spec fn has_error(&self) -> bool { self.errors.len() > 0 }

    // everything but the current chunk's code/lines is unchanged
    spec fn same_but_code(&self, b: &Parser) -> bool {
        &&& self.compilers.len() == b.compilers.len() && self.compilers.len() > 0
        &&& forall|i: int| 0 <= i < self.compilers.len() - 1 ==> self.compilers[i] == b.compilers[i]
        &&& same_compiler_but_code(self.cur(), b.cur())
        &&& self.errors == b.errors && self.panic_mode == b.panic_mode && self.previous == b.previous && self.current == b.current
        &&& self.class_compilers == b.class_compilers && self.pushed == b.pushed && self.single_target_mode == b.single_target_mode
    }
    // only the error log may have changed (and it can only grow into "has_error")
    spec fn same_but_errors(&self, b: &Parser) -> bool {
        &&& self.compilers@ =~= b.compilers@ && self.previous == b.previous && self.current == b.current
        &&& self.class_compilers == b.class_compilers && self.pushed == b.pushed && self.single_target_mode == b.single_target_mode
        &&& (self.has_error() ==> b.has_error())
    }
    // code/lines of the current chunk and the error log may have changed
    spec fn same_but_code_errors(&self, b: &Parser) -> bool {
        &&& self.compilers.len() == b.compilers.len() && self.compilers.len() > 0
        &&& forall|i: int| 0 <= i < self.compilers.len() - 1 ==> self.compilers[i] == b.compilers[i]
        &&& same_compiler_but_code(self.cur(), b.cur())
        &&& self.previous == b.previous && self.current == b.current
        &&& self.class_compilers == b.class_compilers && self.pushed == b.pushed && self.single_target_mode == b.single_target_mode
        &&& (self.has_error() ==> b.has_error())
    }

    // Parser::error / error_at (compiler.rs) write through Cell/RefCell and `write!`; assumed contract:
    // afterwards an error is on record (panic_mode ==> errors non-empty is the invariant that makes the
    // early return of error_at sound), nothing else changes. `&self` becomes `&mut self` in the stand-in.
    #[verifier::external_body]
    fn error(&mut self, message: &str)
        ensures old(self).same_but_errors(final(self)), final(self).has_error(),
    { unimplemented!() }

    // what the compiler's own failure codes become: each of the four that mean "this program is wrong" is a reported
    // compile error; LocalNotFound / InvalidCompilerKind only mean "look further out" (resolve_variable falls through to
    // the next kind of variable) and report nothing
    //@fn file=yarel/src/compiler.rs path=Parser::compiler_error props=C04,C03
    //@  rewrite R13
    //@  ensures old(self).same_but_errors(final(self))
    //@  ensures @a_failure_code_that_means_the_program_is_wrong_is_a_reported_compile_error (error is JumpTooLarge || error is ReadVarInInitialiser || error is TooManyClosureVars || error is InvalidControlStatement) ==> final(self).has_error()
    //@end

    //@fn file=yarel/src/compiler.rs path=Parser::compiler ret=r
    //@  requires old(self).compilers.len() > 0
    //@  ensures *r == old(self).cur(), *final(self) == *old(self)
    //@end

    //@fn file=yarel/src/compiler.rs path=Parser::compiler_mut ret=r
    //@  requires old(self).compilers.len() > 0
    //@  ensures *r == old(self).cur()
    //@  ensures final(self).compilers@ == old(self).compilers@.update(old(self).compilers.len() - 1, *final(r))
    //@  ensures final(self).errors == old(self).errors && final(self).panic_mode == old(self).panic_mode && final(self).previous == old(self).previous && final(self).current == old(self).current
    //@  ensures final(self).class_compilers == old(self).class_compilers && final(self).pushed == old(self).pushed && final(self).single_target_mode == old(self).single_target_mode
    //@end

    //@fn file=yarel/src/compiler.rs path=Parser::chunk ret=r
    //@  requires old(self).compilers.len() > 0
    //@  ensures *r == old(self).cur().chunk
    //@  ensures final(self).compilers.len() == old(self).compilers.len()
    //@  ensures forall|i: int| 0 <= i < old(self).compilers.len() - 1 ==> final(self).compilers[i] == old(self).compilers[i]
    //@  ensures final(self).cur().chunk == *final(r)
    //@  ensures final(self).cur().function == old(self).cur().function && final(self).cur().kind == old(self).cur().kind && final(self).cur().locals == old(self).cur().locals && final(self).cur().upvalues == old(self).cur().upvalues
    //@  ensures final(self).cur().scope_depth == old(self).cur().scope_depth && final(self).cur().lambda_count == old(self).cur().lambda_count && final(self).cur().try_depth == old(self).cur().try_depth
    //@  ensures final(self).cur().loop_stack == old(self).cur().loop_stack && final(self).cur().break_stack == old(self).cur().break_stack
    //@  ensures final(self).errors == old(self).errors && final(self).panic_mode == old(self).panic_mode && final(self).previous == old(self).previous && final(self).current == old(self).current
    //@  ensures final(self).class_compilers == old(self).class_compilers && final(self).pushed == old(self).pushed && final(self).single_target_mode == old(self).single_target_mode
    //@end

    //@fn file=yarel/src/compiler.rs path=Parser::emit_byte props=C04,C06,C17
    //@  requires old(self).pwf()
    //@  ensures final(self).pwf(), old(self).same_but_code(final(self))
    //@  ensures final(self).code() == old(self).code().push(byte)
    //@  ensures @an_emitted_byte_is_attributed_to_the_line_of_the_token_just_consumed final(self).cur().chunk.lines@.len() == old(self).cur().chunk.lines@.len() + 1 && final(self).cur().chunk.lines@.subrange(0, old(self).cur().chunk.lines@.len() as int) == old(self).cur().chunk.lines@ && (old(self).previous.line <= 0x7fff_ffff ==> final(self).cur().chunk.lines@.last() as int == old(self).previous.line as int)
    //@end

    // the one instruction attributed to another token than the one just consumed: Inherit, to the superclass name
    //@fn file=yarel/src/compiler.rs path=Parser::emit_byte_for_token props=C04,C17
    //@  requires old(self).pwf()
    //@  ensures final(self).pwf(), old(self).same_but_code(final(self))
    //@  ensures final(self).code() == old(self).code().push(byte)
    //@  ensures @a_byte_emitted_for_a_token_is_attributed_to_the_line_of_that_token final(self).cur().chunk.lines@.len() == old(self).cur().chunk.lines@.len() + 1 && final(self).cur().chunk.lines@.subrange(0, old(self).cur().chunk.lines@.len() as int) == old(self).cur().chunk.lines@ && (token.line <= 0x7fff_ffff ==> final(self).cur().chunk.lines@.last() as int == token.line as int)
    //@end

    //@fn file=yarel/src/compiler.rs path=Parser::emit_bytes
    //@  requires old(self).pwf()
    //@  ensures final(self).pwf(), old(self).same_but_code(final(self))
    //@  ensures final(self).code() == old(self).code().push(bytes[0]).push(bytes[1])
    //@end

    //@fn file=yarel/src/compiler.rs path=Parser::emit_jump ret=r
    //@  subst "instruction as u8" => "opcode_u8(instruction)" count=1
    //@  requires old(self).pwf()
    //@  ensures final(self).pwf(), old(self).same_but_code(final(self))
    //@  ensures final(self).code() == old(self).code().push(opcode_byte(instruction)).push(0xff).push(0xff)
    //@  ensures r == old(self).code().len() + 1
    //@end

    //@fn file=yarel/src/compiler.rs path=Parser::emit_loop
    //@  rewrite R6 R11
    //@  subst "OpCode::Loop as u8" => "opcode_u8(OpCode::Loop)" count=1
    //@  requires old(self).pwf(), loop_start <= old(self).code().len(), old(self).code().len() < 0x4000_0000_0000_0000
    //@  ensures final(self).pwf(), old(self).same_but_code_errors(final(self))
    //@  ensures final(self).code().len() == old(self).code().len() + 3
    //@  ensures final(self).code().subrange(0, old(self).code().len() as int) == old(self).code()
    //@  ensures final(self).code()[old(self).code().len() as int] == opcode_byte(OpCode::Loop)
    //@  ensures final(self).has_error() || old(self).code().len() + 3 - u16_of(final(self).code()[old(self).code().len() as int + 1], final(self).code()[old(self).code().len() as int + 2]) == loop_start
    //@end

    //@fn file=yarel/src/compiler.rs path=Parser::patch_jump
    //@  requires old(self).pwf(), offset + 2 <= old(self).code().len()
    //@  ensures final(self).pwf(), old(self).same_but_code_errors(final(self))
    //@  ensures final(self).code().len() == old(self).code().len()
    //@  ensures forall|j: int| 0 <= j < old(self).code().len() && j != offset && j != offset + 1 ==> final(self).code()[j] == old(self).code()[j]
    //@  ensures final(self).has_error() || u16_of(final(self).code()[offset as int], final(self).code()[offset + 1]) == old(self).code().len() - offset - 2
    //@end

    //@fn file=yarel/src/compiler.rs path=Parser::patch_offset_at
    //@  rewrite R6 R11
    //@  requires old(self).pwf(), offset <= old(self).code().len(), pos + 2 <= old(self).code().len()
    //@  ensures final(self).pwf(), old(self).same_but_code_errors(final(self))
    //@  ensures final(self).code().len() == old(self).code().len()
    //@  ensures forall|j: int| 0 <= j < old(self).code().len() && j != pos && j != pos + 1 ==> final(self).code()[j] == old(self).code()[j]
    //@  ensures final(self).has_error() || u16_of(final(self).code()[pos as int], final(self).code()[pos + 1]) == old(self).code().len() - offset
    //@end

    //@fn file=yarel/src/compiler.rs path=Parser::make_constant ret=r
    //@  subst "value::Value" => "Value" count=1
    //@  requires old(self).pwf()
    //@  ensures final(self).pwf()
    //@  ensures final(self).has_error() || ((r as int) < final(self).cur().chunk.constants@.len() && final(self).cur().chunk.constants@[r as int] == value)
    //@  ensures final(self).cur().chunk.constants@.subrange(0, old(self).cur().chunk.constants@.len() as int) == old(self).cur().chunk.constants@
    //@  ensures final(self).code() == old(self).code() && final(self).cur().chunk.lines == old(self).cur().chunk.lines
    //@  ensures old(self).has_error() ==> final(self).has_error()
    //@  ensures final(self).compilers.len() == old(self).compilers.len() && final(self).pushed == old(self).pushed
    //@  ensures forall|i: int| 0 <= i < old(self).compilers.len() - 1 ==> final(self).compilers[i] == old(self).compilers[i]
    //@  ensures final(self).cur().locals == old(self).cur().locals && final(self).cur().upvalues == old(self).cur().upvalues && final(self).cur().scope_depth == old(self).cur().scope_depth
    //@end
    // ---------------------------------------------------------------- token-level stubs (scanner side; C03 is not claimed)
    #[verifier::external_body]
    fn check(&self, kind: TokenKind) -> (r: bool) { unimplemented!() }

    #[verifier::external_body]
    fn match_token(&mut self, kind: TokenKind) -> (r: bool)
        ensures old(self).same_but_tokens_errors(final(self)),
    { unimplemented!() }

    #[verifier::external_body]
    fn consume(&mut self, kind: TokenKind, message: &str)
        ensures old(self).same_but_tokens_errors(final(self)),
    { unimplemented!() }

    #[verifier::external_body]
    fn advance(&mut self)
        ensures old(self).same_but_tokens_errors(final(self)),
    { unimplemented!() }

    // Pratt parser entry: emits arbitrary code into the current chunk, may open/close nested compilers (net zero),
    // leaves exactly one more operand on the (abstract) operand stack. Assumed; the parser as a whole is out of reach.
    #[verifier::external_body]
    fn expression(&mut self)
        requires old(self).pwf(), 0 <= old(self).pushed,
        ensures final(self).pwf(), final(self).compilers.len() == old(self).compilers.len(),
            final(self).pushed == old(self).pushed + 1, final(self).pushed < 0x3000_0000,
            old(self).has_error() ==> final(self).has_error(),
            old(self).code().len() <= final(self).code().len() < 0x2000_0000_0000_0000,
            // an expression declares no locals in the function being compiled (a nested lambda may flag captures)
            locals_same_shape(old(self).cur().locals@, final(self).cur().locals@),
            final(self).cur().scope_depth == old(self).cur().scope_depth,
            final(self).cur().loop_stack@ == old(self).cur().loop_stack@, final(self).cur().break_stack@ == old(self).cur().break_stack@,
    { unimplemented!() }

    // A block body: statements and declarations up to the closing brace. Locals it declares stay registered (the
    // caller's end_scope discards them); loops inside are balanced. Assumed (the statement parser is out of reach).
    #[verifier::external_body]
    fn block(&mut self)
        requires old(self).pwf(), 0 <= old(self).pushed,
        ensures final(self).pwf(), final(self).compilers.len() == old(self).compilers.len(),
            old(self).has_error() ==> final(self).has_error(), 0 <= final(self).pushed,
            old(self).code().len() <= final(self).code().len() < 0x2000_0000_0000_0000,
            final(self).cur().locals@.len() >= old(self).cur().locals@.len(),
            locals_same_shape(old(self).cur().locals@, final(self).cur().locals@.subrange(0, old(self).cur().locals@.len() as int)),
            all_initialised(old(self).cur().locals@) ==> all_initialised(final(self).cur().locals@),
            breaks_ok(old(self).cur()) ==> breaks_ok(final(self).cur()),
            final(self).cur().scope_depth == old(self).cur().scope_depth,
            final(self).cur().loop_stack@ == old(self).cur().loop_stack@, final(self).cur().break_stack@ == old(self).cur().break_stack@,
    { unimplemented!() }

    #[verifier::external_body]
    fn error_at_current(&mut self, message: &str)
        ensures old(self).same_but_errors(final(self)), final(self).has_error(),
    { unimplemented!() }

    #[verifier::external_body]
    fn identifier_constant(&mut self, token: &Token) -> (r: u16)
        requires old(self).pwf()
        ensures final(self).pwf(), old(self).has_error() ==> final(self).has_error(),
            final(self).compilers.len() == old(self).compilers.len() && final(self).pushed == old(self).pushed,
            final(self).code() == old(self).code(),
            final(self).cur().locals@ == old(self).cur().locals@ && final(self).cur().scope_depth == old(self).cur().scope_depth,
            final(self).cur().loop_stack@ == old(self).cur().loop_stack@, final(self).cur().break_stack@ == old(self).cur().break_stack@,
    { unimplemented!() }

    spec fn same_but_tokens_errors(&self, b: &Parser) -> bool {
        &&& self.compilers@ =~= b.compilers@ && self.class_compilers == b.class_compilers && self.pushed == b.pushed
        &&& self.single_target_mode == b.single_target_mode
        &&& (self.has_error() ==> b.has_error())
    }

    //@fn file=yarel/src/compiler.rs path=Parser::emit_constant_op
    //@  rewrite R6
    //@  subst "opcode as u8" => "opcode_u8(opcode)" count=1
    //@  requires old(self).pwf()
    //@  ensures final(self).pwf(), old(self).same_but_code(final(self))
    //@  ensures final(self).code().len() == old(self).code().len() + 3 && final(self).code().subrange(0, old(self).code().len() as int) == old(self).code()
    //@  ensures final(self).code()[old(self).code().len() as int] == opcode_byte(opcode)
    //@  ensures u16_of(final(self).code()[old(self).code().len() as int + 1], final(self).code()[old(self).code().len() as int + 2]) == constant
    //@end

    //@fn file=yarel/src/compiler.rs path=Parser::emit_constant
    //@  rewrite R6
    //@  subst "value::Value" => "Value" count=1
    //@  subst "OpCode::Constant as u8" => "opcode_u8(OpCode::Constant)" count=1
    //@  requires old(self).pwf()
    //@  ensures final(self).pwf(), old(self).has_error() ==> final(self).has_error()
    //@  ensures final(self).compilers.len() == old(self).compilers.len()
    //@  ensures final(self).pushed == old(self).pushed + 1
    //@  ensures final(self).code().len() == old(self).code().len() + 3 && final(self).code().subrange(0, old(self).code().len() as int) == old(self).code()
    //@  ensures final(self).code()[old(self).code().len() as int] == opcode_byte(OpCode::Constant)
    //@  ensures final(self).has_error() || ({ let c = u16_of(final(self).code()[old(self).code().len() as int + 1], final(self).code()[old(self).code().len() as int + 2]); 0 <= c < final(self).cur().chunk.constants@.len() && final(self).cur().chunk.constants@[c] == value })
    //@  at body.end proof { self.pushed = self.pushed + 1; }
    //@end

    //@fn file=yarel/src/compiler.rs path=Parser::argument_list ret=r
    //@  requires old(self).pwf(), 0 <= old(self).pushed
    //@  ensures final(self).pwf(), old(self).has_error() ==> final(self).has_error()
    //@  ensures final(self).compilers.len() == old(self).compilers.len()
    //@  ensures final(self).has_error() || r as int == final(self).pushed - old(self).pushed
    //@  ensures old(self).pushed <= final(self).pushed < 0x3000_0000 || final(self).pushed == old(self).pushed
    //@  loop 0 invariant self.pwf(), old(self).has_error() ==> self.has_error(), self.compilers.len() == old(self).compilers.len()
    //@  loop 0 invariant 0 <= old(self).pushed, arg_count as int == self.pushed - old(self).pushed, arg_count == 0 || self.pushed < 0x3000_0000
    //@  loop 0 invariant arg_count <= 255 || self.has_error()
    //@  loop 0 ensures self.pwf(), old(self).has_error() ==> self.has_error(), self.compilers.len() == old(self).compilers.len()
    //@  loop 0 ensures arg_count as int == self.pushed - old(self).pushed, self.pushed < 0x3000_0000, arg_count <= 255 || self.has_error()
    //@  loop 0 decreases 0x3000_0000 - self.pushed
    //@end
    spec fn last2(&self, op: OpCode, old_pushed: int) -> bool {
        let c = self.code();
        &&& c.len() >= 2 && c[c.len() - 2] == opcode_byte(op)
        &&& (self.has_error() || c[c.len() - 1] as int == self.pushed - old_pushed)
    }

    //@fn file=yarel/src/compiler.rs path=Parser::call
    //@  subst "OpCode::Call as u8" => "opcode_u8(OpCode::Call)" count=1
    //@  requires old(s).pwf(), 0 <= old(s).pushed
    //@  ensures final(s).pwf(), old(s).has_error() ==> final(s).has_error()
    //@  ensures final(s).last2(OpCode::Call, old(s).pushed)
    //@end

    //@fn file=yarel/src/compiler.rs path=Parser::vector
    //@  subst "OpCode::BuildVec as u8" => "opcode_u8(OpCode::BuildVec)" count=1
    //@  requires old(s).pwf(), 0 <= old(s).pushed
    //@  ensures final(s).pwf(), old(s).has_error() ==> final(s).has_error()
    //@  ensures final(s).last2(OpCode::BuildVec, old(s).pushed)
    //@end

    //@fn file=yarel/src/compiler.rs path=Parser::hash_map
    //@  subst "OpCode::BuildHashMap as u8" => "opcode_u8(OpCode::BuildHashMap)" count=1
    //@  requires old(s).pwf(), 0 <= old(s).pushed
    //@  ensures final(s).pwf(), old(s).has_error() ==> final(s).has_error()
    //@  ensures ({ let c = final(s).code(); c.len() >= 2 && c[c.len() - 2] == opcode_byte(OpCode::BuildHashMap) && (final(s).has_error() || 2 * (c[c.len() - 1] as int) == final(s).pushed - old(s).pushed) })
    //@  loop 0 invariant s.pwf(), old(s).has_error() ==> s.has_error(), s.compilers.len() == old(s).compilers.len()
    //@  loop 0 invariant 0 <= old(s).pushed, 2 * (num_entries as int) == s.pushed - old(s).pushed, num_entries == 0 || s.pushed < 0x3000_0000
    //@  loop 0 invariant num_entries <= 255 || s.has_error()
    //@  loop 0 ensures s.pwf(), old(s).has_error() ==> s.has_error(), s.compilers.len() == old(s).compilers.len()
    //@  loop 0 ensures 2 * (num_entries as int) == s.pushed - old(s).pushed, num_entries <= 255 || s.has_error()
    //@  loop 0 decreases 0x3000_0000 - s.pushed
    //@end

    //@fn file=yarel/src/compiler.rs path=Parser::grouping
    //@  rewrite R13
    //@  subst "OpCode::BuildTuple as u8" => "opcode_u8(OpCode::BuildTuple)" count=1
    //@  requires old(s).pwf(), 0 <= old(s).pushed
    //@  ensures final(s).pwf(), old(s).has_error() ==> final(s).has_error()
    //@  ensures final(s).pushed - old(s).pushed != 1 ==> final(s).last2(OpCode::BuildTuple, old(s).pushed)
    //@  loop 0 invariant s.pwf(), old(s).has_error() ==> s.has_error(), s.compilers.len() == old(s).compilers.len()
    //@  loop 0 invariant 0 <= old(s).pushed, num_elems as int == s.pushed - old(s).pushed, num_elems == 0 || s.pushed < 0x3000_0000
    //@  loop 0 invariant num_elems <= 255 || s.has_error()
    //@  loop 0 invariant_except_break !single_elem_tuple
    //@  loop 0 ensures s.pwf(), old(s).has_error() ==> s.has_error(), s.compilers.len() == old(s).compilers.len()
    //@  loop 0 ensures num_elems as int == s.pushed - old(s).pushed, num_elems <= 255 || s.has_error()
    //@  loop 0 decreases 0x3000_0000 - s.pushed
    //@end

    //@fn file=yarel/src/compiler.rs path=Parser::interpolation
    //@  rewrite R14
    //@  subst "OpCode::BuildString as u8" => "opcode_u8(OpCode::BuildString)" count=1
    //@  subst "OpCode::FormatString as u8" => "opcode_u8(OpCode::FormatString)" count=1
    //@  subst "s.previous.source.is_empty()" => "string_is_empty(&s.previous.source)" count=2
    //@  requires old(s).pwf(), 0 <= old(s).pushed < 0x3000_0000
    //@  ensures final(s).pwf(), old(s).has_error() ==> final(s).has_error()
    //@  ensures final(s).last2(OpCode::BuildString, old(s).pushed)
    //@  loop 0 invariant s.pwf(), old(s).has_error() ==> s.has_error(), s.compilers.len() == old(s).compilers.len()
    //@  loop 0 invariant 0 <= old(s).pushed <= s.pushed, arg_count as int == s.pushed - old(s).pushed, s.pushed < 0x3000_0000
    //@  loop 0 ensures s.pwf(), old(s).has_error() ==> s.has_error(), s.compilers.len() == old(s).compilers.len()
    //@  loop 0 ensures arg_count as int == s.pushed - old(s).pushed, s.pushed < 0x3000_0000
    //@  loop 0 decreases 0x3000_0000 - s.pushed
    //@end
    // ---------------------------------------------------------------- C06: scope exit
    //@fn file=yarel/src/compiler.rs path=Parser::begin_scope props=C06
    //@  requires old(self).pwf(), old(self).cur().scope_depth < usize::MAX
    //@  ensures final(self).pwf(), final(self).cur().scope_depth == old(self).cur().scope_depth + 1
    //@  ensures final(self).cur().locals == old(self).cur().locals && final(self).code() == old(self).code() && final(self).compilers.len() == old(self).compilers.len()
    //@  ensures final(self).pushed == old(self).pushed && final(self).errors == old(self).errors
    //@  ensures final(self).cur().loop_stack@ == old(self).cur().loop_stack@ && final(self).cur().break_stack@ == old(self).cur().break_stack@
    //@end

    //@fn file=yarel/src/compiler.rs path=Parser::emit_scope_end props=C06,C04
    //@  rewrite R5 R15
    //@  subst "opcodes.push(opcode as u8)" => "opcodes.push(opcode_u8(opcode))" count=1
    //@  requires old(self).pwf(), all_initialised(old(self).cur().locals@)
    //@  ensures final(self).pwf(), final(self).compilers.len() == old(self).compilers.len()
    //@  ensures final(self).code() == old(self).code() + scope_end_code(old(self).cur().locals@, scope_depth)
    //@  ensures pop_locals ==> final(self).cur().locals@ == old(self).cur().locals@.subrange(0, old(self).cur().locals@.len() - drop_count(old(self).cur().locals@, scope_depth))
    //@  ensures !pop_locals ==> final(self).cur().locals@ == old(self).cur().locals@
    //@  ensures same_compiler_but_code_locals(old(self).cur(), final(self).cur()) && final(self).errors == old(self).errors && final(self).pushed == old(self).pushed
    //@  ensures forall|i: int| 0 <= i < old(self).compilers.len() - 1 ==> final(self).compilers[i] == old(self).compilers[i]
    //@  at body.start let ghost locs = self.cur().locals@;
    //@  loop 0 invariant_except_break scope_end_code(locs, scope_depth) == opcodes@ + scope_end_code(locs.subrange(0, __k0 as int), scope_depth)
    //@  loop 0 invariant_except_break drop_count(locs, scope_depth) == opcodes@.len() + drop_count(locs.subrange(0, __k0 as int), scope_depth)
    //@  loop 0 invariant *self == *old(self), locs == self.cur().locals@, __k0 <= locs.len(), self.pwf(), all_initialised(locs)
    //@  loop 0 ensures scope_end_code(locs, scope_depth) == opcodes@, drop_count(locs, scope_depth) == opcodes@.len()
    //@  loop 0 decreases __k0
    //@  before_stmt "while __k0 > 0" proof { assert(locs.subrange(0, locs.len() as int) =~= locs); assert(opcodes@ + scope_end_code(locs, scope_depth) =~= scope_end_code(locs, scope_depth)); }
    //@  after_stmt "__k0 -= 1" proof { assert(locs.subrange(0, __k0 as int + 1).drop_last() =~= locs.subrange(0, __k0 as int)); assert(locs.subrange(0, __k0 as int + 1).last() == locs[__k0 as int]); }
    //@  at loop0.end proof { assert(seq![close_op(locs[__k0 as int])] + scope_end_code(locs.subrange(0, __k0 as int), scope_depth) == scope_end_code(locs.subrange(0, __k0 as int + 1), scope_depth)); }
    //@  loop 1 iter it
    //@  loop 1 invariant self.pwf(), self.compilers.len() == old(self).compilers.len()
    //@  loop 1 invariant self.code() == old(self).code() + opcodes@.subrange(0, it.index@ as int)
    //@  loop 1 invariant pop_locals ==> self.cur().locals@ == locs.subrange(0, locs.len() - it.index@)
    //@  loop 1 invariant !pop_locals ==> self.cur().locals@ == locs
    //@  loop 1 invariant same_compiler_but_code_locals(old(self).cur(), self.cur()) && self.errors == old(self).errors && self.pushed == old(self).pushed
    //@  loop 1 invariant forall|i: int| 0 <= i < old(self).compilers.len() - 1 ==> self.compilers[i] == old(self).compilers[i]
    //@  loop 1 invariant opcodes@.len() == drop_count(locs, scope_depth) <= locs.len(), locs == old(self).cur().locals@
    //@  before_stmt "for __r0 in" proof { lemma_drop_count_le(locs, scope_depth); }
    //@end
    //@fn file=yarel/src/compiler.rs path=Parser::end_scope props=C06
    //@  requires old(self).pwf(), all_initialised(old(self).cur().locals@), old(self).cur().scope_depth > 0
    //@  ensures final(self).pwf(), final(self).cur().scope_depth == old(self).cur().scope_depth - 1
    //@  ensures final(self).code() == old(self).code() + scope_end_code(old(self).cur().locals@, (old(self).cur().scope_depth - 1) as usize)
    //@  ensures final(self).cur().locals@ == old(self).cur().locals@.subrange(0, old(self).cur().locals@.len() - drop_count(old(self).cur().locals@, (old(self).cur().scope_depth - 1) as usize))
    //@  ensures final(self).compilers.len() == old(self).compilers.len()
    //@  ensures final(self).pushed == old(self).pushed && final(self).errors == old(self).errors
    //@  ensures final(self).cur().loop_stack@ == old(self).cur().loop_stack@ && final(self).cur().break_stack@ == old(self).cur().break_stack@
    //@end

    // break: the locals of the scopes being left must be discarded BEFORE control leaves the loop body, so that the
    // instruction after the loop is reached with the same operand-stack height as on the normal exit path.
    //@fn file=yarel/src/compiler.rs path=Parser::emit_try_exits props=C04
    //@  requires old(self).pwf(), outer_try_depth <= old(self).cur().try_depth
    //@  ensures final(self).pwf(), old(self).same_but_code(final(self))
    //@  ensures final(self).code() == old(self).code() + repeat_byte(opcode, old(self).cur().try_depth - outer_try_depth)
    //@  loop 0 iter it
    //@  loop 0 invariant it.snapshot.start == outer_try_depth, it.snapshot.end == old(self).cur().try_depth
    //@  loop 0 invariant self.pwf(), old(self).same_but_code(self), self.code() == old(self).code() + repeat_byte(opcode, it.index@ as int)
    //@  at loop0.end proof { lemma_repeat_byte_push(opcode, it.index@ as int); assert(self.code() =~= old(self).code() + repeat_byte(opcode, it.index@ + 1)); }
    //@  at body.start proof { assert(old(self).code() + repeat_byte(opcode, 0) =~= old(self).code()); }
    //@end

    //@fn file=yarel/src/compiler.rs path=Parser::break_statement props=C04,C06
    //@  subst "OpCode::PopExcHandler as u8" => "opcode_u8(OpCode::PopExcHandler)"
    //@  requires old(self).pwf(), all_initialised(old(self).cur().locals@), old(self).code().len() < 0x4000_0000_0000_0000
    //@  requires old(self).cur().loop_stack@.len() == old(self).cur().break_stack@.len()
    //@  requires old(self).cur().loop_stack@.len() > 0 ==> old(self).cur().loop_stack@.last().2 <= old(self).cur().try_depth && old(self).cur().try_depth < 0x1000_0000
    //@  ensures final(self).pwf(), old(self).has_error() ==> final(self).has_error()
    //@  ensures old(self).cur().loop_stack@.len() == 0 ==> final(self).has_error()
    //@  ensures old(self).cur().loop_stack@.len() > 0 ==> final(self).code() == old(self).code() + repeat_byte(opcode_byte(OpCode::PopExcHandler), old(self).cur().try_depth - old(self).cur().loop_stack@.last().2) + scope_end_code(old(self).cur().locals@, old(self).cur().loop_stack@.last().1) + seq![opcode_byte(OpCode::Jump), 0xffu8, 0xffu8]
    //@  ensures old(self).cur().loop_stack@.len() > 0 ==> final(self).cur().break_stack@.len() == old(self).cur().break_stack@.len() && final(self).cur().break_stack@.last()@ == old(self).cur().break_stack@.last()@.push((final(self).code().len() - 2) as usize)
    //@  ensures final(self).cur().locals@ == old(self).cur().locals@
    //@  at body.start proof { if old(self).cur().loop_stack@.len() > 0 { lemma_drop_count_le(old(self).cur().locals@, old(self).cur().loop_stack@.last().1); } }
    //@end

    //@fn file=yarel/src/compiler.rs path=Parser::continue_statement props=C04,C06
    //@  subst "OpCode::PopExcHandler as u8" => "opcode_u8(OpCode::PopExcHandler)"
    //@  requires old(self).pwf(), all_initialised(old(self).cur().locals@), old(self).code().len() < 0x2000_0000_0000_0000
    //@  requires forall|i: int| 0 <= i < old(self).cur().loop_stack@.len() ==> (#[trigger] old(self).cur().loop_stack@[i]).0 <= old(self).code().len()
    //@  requires old(self).cur().loop_stack@.len() > 0 ==> old(self).cur().loop_stack@.last().2 <= old(self).cur().try_depth && old(self).cur().try_depth < 0x1000_0000
    //@  ensures final(self).pwf(), old(self).has_error() ==> final(self).has_error()
    //@  ensures old(self).cur().loop_stack@.len() == 0 ==> final(self).has_error()
    //@  ensures old(self).cur().loop_stack@.len() > 0 ==> ({ let pops = repeat_byte(opcode_byte(OpCode::PopExcHandler), old(self).cur().try_depth - old(self).cur().loop_stack@.last().2) + scope_end_code(old(self).cur().locals@, old(self).cur().loop_stack@.last().1); let n = old(self).code().len() + pops.len(); final(self).code().len() == n + 3 && final(self).code().subrange(0, n as int) == old(self).code() + pops && final(self).code()[n as int] == opcode_byte(OpCode::Loop) && (final(self).has_error() || n + 3 - u16_of(final(self).code()[n as int + 1], final(self).code()[n as int + 2]) == old(self).cur().loop_stack@.last().0) })
    //@  ensures final(self).cur().locals@ == old(self).cur().locals@
    //@  before_stmt "self.emit_loop(" proof { lemma_drop_count_le(old(self).cur().locals@, scope_depth); }
    //@end
    // ---------------------------------------------------------------- C06: declaration and resolution
    //@fn file=yarel/src/compiler.rs path=Parser::resolve_local ret=r props=C06,C04
    //@  requires old(self).pwf()
    //@  ensures final(self).pwf(), old(self).same_but_errors(final(self))
    //@  ensures r matches Some(i) ==> old(self).cur().is_last_match(i as int, name.source@) && old(self).cur().locals[i as int].depth.is_some()
    //@  ensures r is None ==> old(self).cur().no_match(name.source@) || final(self).has_error()
    //@end

    //@fn file=yarel/src/compiler.rs path=Parser::declare_variable props=C06,C04
    //@  rewrite R5
    //@  subst "self.previous.source == local.name" => "string_eq(&self.previous.source, &local.name)" count=1
    //@  requires old(self).pwf()
    //@  ensures final(self).pwf(), old(self).has_error() ==> final(self).has_error(), final(self).compilers.len() == old(self).compilers.len()
    //@  ensures old(self).cur().scope_depth == 0 ==> *final(self) == *old(self)
    //@  ensures final(self).pushed == old(self).pushed && final(self).cur().locals@.len() >= old(self).cur().locals@.len()
    //@  ensures final(self).cur().locals@.subrange(0, old(self).cur().locals@.len() as int) == old(self).cur().locals@ && final(self).cur().locals@.len() <= old(self).cur().locals@.len() + 1
    //@  ensures final(self).cur().loop_stack@ == old(self).cur().loop_stack@ && final(self).cur().break_stack@ == old(self).cur().break_stack@
    //@  ensures old(self).cur().scope_depth > 0 && !final(self).has_error() ==> final(self).cur().locals@.len() == old(self).cur().locals@.len() + 1 && final(self).cur().locals@.subrange(0, old(self).cur().locals@.len() as int) == old(self).cur().locals@ && final(self).cur().locals@.last().name@ == old(self).previous.source@ && final(self).cur().locals@.last().depth.is_none() && !final(self).cur().locals@.last().is_captured
    //@  ensures old(self).cur().scope_depth > 0 && !final(self).has_error() ==> !same_scope_duplicate(old(self).cur().locals@, old(self).cur().scope_depth, old(self).previous.source@)
    //@  ensures final(self).code() == old(self).code() && final(self).cur().upvalues@ == old(self).cur().upvalues@ && final(self).cur().scope_depth == old(self).cur().scope_depth
    //@  ensures forall|i: int| 0 <= i < old(self).compilers.len() - 1 ==> final(self).compilers[i] == old(self).compilers[i]
    //@  at body.start let ghost locs = self.cur().locals@; let ghost nm = self.previous.source@; let ghost sd = self.cur().scope_depth;
    //@  loop 0 invariant self.compilers@ == old(self).compilers@, self.previous == old(self).previous, self.pushed == old(self).pushed, old(self).has_error() ==> self.has_error(), self.pwf()
    //@  loop 0 invariant locs == self.cur().locals@, nm == self.previous.source@, sd == self.cur().scope_depth, scope_depth == sd, __k0 <= locs.len()
    //@  loop 0 invariant_except_break !self.has_error() ==> !same_scope_duplicate(locs, sd, nm) || same_scope_duplicate(locs.subrange(0, __k0 as int), sd, nm)
    //@  loop 0 ensures !self.has_error() ==> !same_scope_duplicate(locs, sd, nm)
    //@  loop 0 decreases __k0
    //@  after_stmt "__k0 -= 1" proof { assert(locs.subrange(0, __k0 as int + 1).drop_last() =~= locs.subrange(0, __k0 as int)); assert(locs.subrange(0, __k0 as int + 1).last() == locs[__k0 as int]); }
    //@  before_stmt "while __k0 > 0" proof { assert(locs.subrange(0, locs.len() as int) =~= locs); }
    //@end
    //@fn file=yarel/src/compiler.rs path=Parser::mark_initialised props=C04,C06
    //@  requires old(self).pwf(), old(self).cur().locals@.len() > 0
    //@  ensures final(self).pwf(), final(self).compilers.len() == old(self).compilers.len(), final(self).errors == old(self).errors, final(self).pushed == old(self).pushed
    //@  ensures final(self).cur().locals@.len() == old(self).cur().locals@.len() && same_compiler_but_locals(old(self).cur(), final(self).cur())
    //@  ensures old(self).cur().scope_depth > 0 ==> final(self).cur().locals@.last().depth == Some(old(self).cur().scope_depth)
    //@  ensures forall|j: int| 0 <= j < old(self).cur().locals@.len() - 1 ==> final(self).cur().locals@[j] == old(self).cur().locals@[j]
    //@end

    //@fn file=yarel/src/compiler.rs path=Parser::resolve_upvalue ret=r props=C06,C04
    //@  rewrite R5
    //@  requires old(self).pwf()
    //@  ensures final(self).pwf(), final(self).compilers.len() == old(self).compilers.len(), old(self).has_error() ==> final(self).has_error()
    //@  ensures forall|k: int| 0 <= k < old(self).compilers.len() ==> capture_frame(#[trigger] old(self).compilers@[k], final(self).compilers@[k])
    //@  ensures r matches Some(j) ==> captured_somewhere(old(self).compilers@, final(self).compilers@, j as int, name.source@)
    //@  ensures r is None ==> final(self).has_error() || forall|k: int| 0 <= k < old(self).compilers.len() - 1 ==> (#[trigger] old(self).compilers@[k]).no_match(name.source@)
    //@  at body.start let ghost cs0 = self.compilers@; let ghost n = self.compilers@.len() as int; let ghost nm = name.source@;
    //@  loop 0 invariant self.pwf(), self.compilers@ == cs0, cs0 == old(self).compilers@, n == cs0.len(), n >= 2, nm == name.source@, __k0 <= n - 1
    //@  loop 0 invariant old(self).has_error() ==> self.has_error(), self.errors == old(self).errors
    //@  loop 0 invariant forall|k: int| __k0 <= k < n - 1 ==> (#[trigger] cs0[k]).no_match(nm)
    //@  loop 0 decreases __k0
    //@  loop 1 iter it
    //@  loop 1 invariant self.pwf(), self.compilers@.len() == n, cs0 == old(self).compilers@, n == cs0.len(), nm == name.source@, 0 <= enclosing < n - 1, current == enclosing + 1
    //@  loop 1 invariant old(self).has_error() ==> self.has_error(), it.snapshot.start == current, it.snapshot.end == n
    //@  loop 1 invariant forall|k: int| 0 <= k < n ==> capture_frame(#[trigger] cs0[k], self.compilers@[k])
    //@  loop 1 invariant cs0[enclosing as int].is_last_match(i0 as int, nm) && cs0[enclosing as int].locals[i0 as int].depth.is_some() && self.compilers@[enclosing as int].locals[i0 as int].is_captured
    //@  loop 1 invariant forall|k: int| enclosing < k < n - 1 ==> (#[trigger] cs0[k]).no_match(nm)
    //@  loop 1 invariant it.index@ == 0 ==> index == i0
    //@  loop 1 invariant it.index@ > 0 ==> chain(self.compilers@, current + it.index@ - 1, index as int, enclosing as int, i0 as int)
    //@  before_stmt "let mut index = index" let ghost i0 = index;
    //@  at loop1.start let ghost before = self.compilers@; let ghost cidx = current + it.index@; let ghost idx_in = index;
    //@  at loop1.end proof { let after = self.compilers@; assert(cidx == compiler); if it.index@ > 0 { lemma_chain_frame(before, after, cidx - 1, idx_in as int, enclosing as int, i0 as int); } }
    //@  before_stmt "return Some(index)" proof { assert(capture_ok(cs0, self.compilers@, enclosing as int, i0 as int, index as int, nm)); assert(cs0 == old(self).compilers@ && nm == name.source@); assert(captured_somewhere(old(self).compilers@, self.compilers@, index as int, name.source@)); }
    //@end
    // for: both hidden values the loop header leaves on the operand stack (loop variable, iterator) must own a local
    // slot, otherwise every later local of the function is addressed one slot off (or the program must be rejected).
    //@fn file=yarel/src/compiler.rs path=Parser::for_statement props=C04
    //@  subst "OpCode::Nil as u8" => "opcode_u8(OpCode::Nil)"
    //@  subst "OpCode::IterNext as u8" => "opcode_u8(OpCode::IterNext)"
    //@  subst "OpCode::SetLocal as u8" => "opcode_u8(OpCode::SetLocal)"
    //@  subst "OpCode::Pop as u8" => "opcode_u8(OpCode::Pop)"
    //@  subst ".expect(\"Expected usize.\")" => ".unwrap()"
    //@  requires old(self).pwf(), 0 <= old(self).pushed, old(self).cur().locals@.len() >= 1, all_initialised(old(self).cur().locals@)
    //@  requires old(self).cur().scope_depth < 0x7fff_ffff, old(self).code().len() < 0x1000_0000_0000_0000
    //@  requires old(self).cur().loop_stack@.len() == old(self).cur().break_stack@.len(), breaks_ok(old(self).cur())
    //@  ensures final(self).pwf(), old(self).has_error() ==> final(self).has_error()
    //@  assert @hidden_values_own_slots before_stmt "self.compiler_mut().push_loop()" self.has_error() || self.cur().locals@.len() == old(self).cur().locals@.len() + 2
    //@  before_stmt "let (loop_start," proof { assert(all_initialised(self.cur().locals@)); assert(breaks_ok(self.cur())); }
    //@  at body.start let ghost l0 = self.cur().locals@; let ghost n0 = self.cur().locals@.len() as int;
    //@  after_stmt "self.declare_variable()" let ghost l1 = self.cur().locals@; proof { assert(forall|j: int| 0 <= j < n0 ==> l1[j] == l1.subrange(0, n0)[j]); assert(forall|j: int| 0 <= j < n0 ==> (#[trigger] l1[j]).depth.is_some()); }
    //@  after_stmt "self.expression()" let ghost l2 = self.cur().locals@; proof { assert(forall|j: int| 0 <= j < n0 ==> (#[trigger] l2[j]).depth.is_some()); }
    //@  after_stmt "self.compiler_mut().mark_initialised(" let ghost l3 = self.cur().locals@; proof { assert(all_initialised(l3)); }
    //@  before_stmt "let iter_method_name" let ghost l4 = self.cur().locals@; proof { assert(forall|j: int| 0 <= j < l3.len() ==> l4[j] == l4.subrange(0, l3.len() as int)[j]); assert(forall|j: int| 0 <= j < l4.len() - 1 ==> (#[trigger] l4[j]).depth.is_some()); assert(l4.len() >= 1); }
    //@  before_stmt "self.emit_loop(loop_start)" proof { assert(all_initialised(self.cur().locals@)); assert(breaks_ok(self.cur())); }
    //@  after_stmt "self.compiler_mut().push_loop()" proof { assert(breaks_ok(self.cur())); }
    //@  before_stmt "self.block()" proof { assert(breaks_ok(self.cur())); }
    //@  before_stmt "self.patch_jump(exit_jump)" proof { assert(breaks_ok(self.cur())); }
    //@  before_stmt "match self.compiler_mut().pop_loop()" proof { assert(breaks_ok(self.cur())); }
    //@  after_stmt "self.block()" proof { lemma_drop_count_le(self.cur().locals@, (self.cur().scope_depth - 1) as usize); }
    //@end
    // ---------------------------------------------------------------- variable access: the operand names what resolution found
    //@fn file=yarel/src/compiler.rs path=Parser::resolve_variable ret=r props=C04,C06
    //@  subst "self.resolve_local(&name)" => "self.resolve_local(name)"
    //@  subst "self.resolve_upvalue(&name)" => "self.resolve_upvalue(name)"
    //@  subst "self.identifier_constant(&name)" => "self.identifier_constant(name)"
    //@  requires old(self).pwf()
    //@  ensures final(self).pwf(), final(self).compilers.len() == old(self).compilers.len(), old(self).has_error() ==> final(self).has_error()
    //@  ensures final(self).code() == old(self).code()
    //@  ensures (r.0 is GetLocal) ==> (r.1 is SetLocal) && old(self).cur().is_last_match(r.2 as int, name.source@) && old(self).cur().locals[r.2 as int].depth.is_some()
    //@  ensures (r.0 is GetUpvalue) ==> (r.1 is SetUpvalue) && captured_somewhere(old(self).compilers@, final(self).compilers@, r.2 as int, name.source@) && (old(self).cur().no_match(name.source@) || final(self).has_error())
    //@  ensures (r.0 is GetGlobal) ==> (r.1 is SetGlobal) && (final(self).has_error() || (old(self).cur().no_match(name.source@) && forall|k: int| 0 <= k < old(self).compilers.len() - 1 ==> (#[trigger] old(self).compilers@[k]).no_match(name.source@)))
    //@  ensures (r.0 is GetLocal) || (r.0 is GetUpvalue) || (r.0 is GetGlobal)
    //@end

    // one-byte operands (locals, captures) versus two-byte constant operands: chunk.rs OpCode::arg_sizes
    #[verifier::external_body]
    fn verif_has_byte_operand(opcode: &OpCode) -> (r: bool) ensures r == byte_operand(*opcode) { unimplemented!() }

    //@fn file=yarel/src/compiler.rs path=Parser::emit_variable_op props=C04,C06
    //@  subst "opcode.arg_sizes() == &[1]" => "Parser::verif_has_byte_operand(&opcode)"
    //@  subst "opcode as u8" => "opcode_u8(opcode)"
    //@  requires old(self).pwf(), byte_operand(opcode) ==> variable < 256
    //@  ensures final(self).pwf(), old(self).same_but_code(final(self))
    //@  ensures byte_operand(opcode) ==> final(self).code() == old(self).code().push(opcode_byte(opcode)).push(variable as u8)
    //@  ensures !byte_operand(opcode) ==> final(self).code().len() == old(self).code().len() + 3 && final(self).code().subrange(0, old(self).code().len() as int) == old(self).code() && final(self).code()[old(self).code().len() as int] == opcode_byte(opcode) && u16_of(final(self).code()[old(self).code().len() as int + 1], final(self).code()[old(self).code().len() as int + 2]) == variable
    //@end

    // finalise_compiler: every function's code ENDS with the implicit return — whatever the body ends in (a byte equal to
    // the Return opcode may be an operand, and a trailing `return` may be jumped over by the branch before it), so no
    // path of a finished function runs past the end of its code. Only the statements before the compiler is popped are
    // verified (the allocation of the function object is a stub).
    #[verifier::external_body]
    fn finish_function(&mut self) -> (r: (FnRoot, Vec<Upvalue>)) { unimplemented!() }
    //@fn file=yarel/src/compiler.rs path=Parser::finalise_compiler ret=r props=C04
    //@  sig "(Root<ObjFunction>, Vec<Upvalue>)" => "(FnRoot, Vec<Upvalue>)"
    //@  truncate_at "let mut compiler = self.compilers.pop()" => "self.finish_function()"
    //@  requires old(self).pwf()
    //@  assert @a_finished_function_ends_in_the_implicit_return_whatever_its_body_ends_in before_stmt "self.finish_function()" self.code().len() >= old(self).code().len() + 2 && self.code().subrange(0, old(self).code().len() as int) == old(self).code() && self.code().last() == opcode_byte(OpCode::Return) && (self.code()[old(self).code().len() as int] == opcode_byte(OpCode::Nil) || self.code()[old(self).code().len() as int] == opcode_byte(OpCode::GetLocal))
    //@end

    //@fn file=yarel/src/compiler.rs path=Parser::emit_return props=C04
    //@  subst "OpCode::GetLocal as u8" => "opcode_u8(OpCode::GetLocal)"
    //@  subst "OpCode::Nil as u8" => "opcode_u8(OpCode::Nil)"
    //@  subst "OpCode::JumpFinally as u8" => "opcode_u8(OpCode::JumpFinally)"
    //@  subst "OpCode::Return as u8" => "opcode_u8(OpCode::Return)"
    //@  requires old(self).pwf()
    //@  ensures final(self).pwf(), old(self).same_but_code(final(self))
    //@  ensures final(self).code().len() >= old(self).code().len() + 2 && final(self).code().subrange(0, old(self).code().len() as int) == old(self).code()
    //@  ensures final(self).code().last() == opcode_byte(OpCode::Return)
    //@  ensures (old(self).cur().kind is Initialiser) ==> final(self).code()[old(self).code().len() as int] == opcode_byte(OpCode::GetLocal) && final(self).code()[old(self).code().len() as int + 1] == 0
    //@  ensures !(old(self).cur().kind is Initialiser) ==> final(self).code()[old(self).code().len() as int] == opcode_byte(OpCode::Nil)
    //@end
}

} // verus!
fn main() {}
