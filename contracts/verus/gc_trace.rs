//@unit gc_trace
//@property C01
// Trace completeness: every GcManaged impl enumerates every managed reference its type holds.
// The requirement per type is GENERATED from the real struct/enum definition (each field or variant whose
// type mentions Gc<_>, Value or a container of them), minus the reviewed exemptions listed below.
use vstd::prelude::*;
verus! {

global size_of usize == 8;

// ------------------------------------------------------------------ collector interface (assumed)
pub trait GcManaged {
    spec fn traced(&self) -> bool;   // every outgoing managed reference has been marked (is grey)
    spec fn shaded(&self) -> bool;   // every outgoing managed reference is non-white (grey or black)
    fn mark(&self) ensures self.traced();
    fn blacken(&self) ensures self.shaded();
}

#[verifier::external_body]
#[verifier::accept_recursive_types(T)]
pub struct Gc<T> { p: core::marker::PhantomData<T> }
impl<T> Clone for Gc<T> { #[verifier::external_body] fn clone(&self) -> (r: Self) ensures r == *self { Gc { p: core::marker::PhantomData } } }
impl<T> Copy for Gc<T> {}

// "grey"/"black" are monotone facts about a managed pointer; Gc<T>::mark/blacken forward to GcBox::mark/blacken
// (memory.rs), whose colour logic is checked by Kani (unit gcbox) and whose traversal is the collector core (trusted).
pub uninterp spec fn gc_marked<T>(g: Gc<T>) -> bool;
pub uninterp spec fn gc_black<T>(g: Gc<T>) -> bool;
impl<T> GcManaged for Gc<T> {
    open spec fn traced(&self) -> bool { gc_marked(*self) }
    open spec fn shaded(&self) -> bool { gc_marked(*self) || gc_black(*self) }
    #[verifier::external_body] fn mark(&self) {}
    #[verifier::external_body] fn blacken(&self) {}
}

// std::cell::RefCell stand-in: dynamic borrow flags are not modelled (a double borrow panics; C02 residual)
pub struct RefCell<T> { pub v: T }
impl<T> RefCell<T> {
    #[verifier::external_body]
    pub fn borrow(&self) -> (r: &T) ensures *r == self.v { &self.v }
}
pub struct Cell<T> { pub v: T }

// Option<T>: `if let Some(x) = o.as_ref() { x.mark() }` is how the real impls visit optional references
pub open spec fn opt_traced<T: GcManaged>(o: Option<T>) -> bool { match o { Some(x) => x.traced(), None => true } }
pub open spec fn opt_shaded<T: GcManaged>(o: Option<T>) -> bool { match o { Some(x) => x.shaded(), None => true } }

// std HashMap stand-in. Assumed contract of std: values()/keys() enumerate every value/key of the map.
#[verifier::external_body]
#[verifier::accept_recursive_types(K)]
#[verifier::accept_recursive_types(V)]
#[verifier::accept_recursive_types(S)]
pub struct HashMap<K, V, S> { p: core::marker::PhantomData<(K, V, S)> }
impl<K, V, S> HashMap<K, V, S> {
    pub uninterp spec fn view(&self) -> Map<K, V>;
    pub uninterp spec fn vals(&self) -> Seq<V>;   // the sequence std's `values()` iterator yields
    pub uninterp spec fn ks(&self) -> Seq<K>;     // the sequence std's `keys()` iterator yields
    #[verifier::external_body]
    pub fn values(&self) -> (r: &Vec<V>)
        ensures r@ == self.vals(), forall|k: K| #[trigger] self@.contains_key(k) ==> exists|j: int| 0 <= j < r@.len() && r@[j] == self@[k]
    { unimplemented!() }
    #[verifier::external_body]
    pub fn keys(&self) -> (r: &Vec<K>)
        ensures r@ == self.ks(), forall|k: K| #[trigger] self@.contains_key(k) ==> exists|j: int| 0 <= j < r@.len() && r@[j] == k
    { unimplemented!() }
}
pub struct BuildPassThroughHasher { }

// Stack<T, N>: boxed array + raw top pointer; its mark/blacken are checked by Kani (unit stack, bounded) — assumed here.
#[verifier::external_body]
#[verifier::accept_recursive_types(T)]
pub struct Stack<T, const N: usize> { p: core::marker::PhantomData<T> }
impl<T: GcManaged, const N: usize> Stack<T, N> {
    pub uninterp spec fn live(&self) -> Seq<T>;
}
impl<T: GcManaged, const N: usize> GcManaged for Stack<T, N> {
    open spec fn traced(&self) -> bool { forall|i: int| 0 <= i < self.live().len() ==> (#[trigger] self.live()[i]).traced() }
    open spec fn shaded(&self) -> bool { forall|i: int| 0 <= i < self.live().len() ==> (#[trigger] self.live()[i]).shaded() }
    #[verifier::external_body] fn mark(&self) {}
    #[verifier::external_body] fn blacken(&self) {}
}
pub const STACK_MAX: usize = 16384;

#[derive(Clone, Copy)]
pub struct ObjNativeFnPtr { }   // stand-in for `fn(&mut Vm, usize) -> Result<Value, Error>`
#[verifier::external_body]
pub struct Chunk2 { _p: u8 }

// ------------------------------------------------------------------ container impls (memory.rs), bodies extracted verbatim
impl<T: GcManaged> GcManaged for RefCell<T> {
    open spec fn traced(&self) -> bool { self.v.traced() }
    open spec fn shaded(&self) -> bool { self.v.shaded() }
    //@fn file=yarel/src/memory.rs path="<GcManaged for RefCell>::mark"
    //@end
    //@fn file=yarel/src/memory.rs path="<GcManaged for RefCell>::blacken"
    //@end
}

impl<T: GcManaged> GcManaged for Vec<T> {
    open spec fn traced(&self) -> bool { forall|i: int| 0 <= i < self@.len() ==> (#[trigger] self@[i]).traced() }
    open spec fn shaded(&self) -> bool { forall|i: int| 0 <= i < self@.len() ==> (#[trigger] self@[i]).shaded() }
    //@fn file=yarel/src/memory.rs path="<GcManaged for Vec>::mark"
    //@  loop 0 iter it
    //@  loop 0 invariant forall|j: int| 0 <= j < it.index@ ==> (#[trigger] self@[j]).traced()
    //@  loop 0 invariant it.seq().len() == self@.len(), forall|j: int| 0 <= j < self@.len() ==> *it.seq()[j] == self@[j]
    //@end
    //@fn file=yarel/src/memory.rs path="<GcManaged for Vec>::blacken"
    //@  loop 0 iter it
    //@  loop 0 invariant forall|j: int| 0 <= j < it.index@ ==> (#[trigger] self@[j]).shaded()
    //@  loop 0 invariant it.seq().len() == self@.len(), forall|j: int| 0 <= j < self@.len() ==> *it.seq()[j] == self@[j]
    //@end
}

impl<K, V: GcManaged, S> GcManaged for HashMap<K, V, S> {
    // what the generic impl promises: all VALUES are visited (keys are the owner's business)
    open spec fn traced(&self) -> bool { forall|k: K| #[trigger] self@.contains_key(k) ==> self@[k].traced() }
    open spec fn shaded(&self) -> bool { forall|k: K| #[trigger] self@.contains_key(k) ==> self@[k].shaded() }
    //@fn file=yarel/src/memory.rs path="<GcManaged for HashMap>::mark"
    //@  at body.start let ghost vals = self.vals();
    //@  loop 0 iter it
    //@  loop 0 invariant forall|j: int| 0 <= j < it.index@ ==> (#[trigger] vals[j]).traced()
    //@  loop 0 invariant it.seq().len() == vals.len(), forall|j: int| 0 <= j < vals.len() ==> *it.seq()[j] == vals[j]
    //@end
    //@fn file=yarel/src/memory.rs path="<GcManaged for HashMap>::blacken"
    //@  at body.start let ghost vals = self.vals();
    //@  loop 0 iter it
    //@  loop 0 invariant forall|j: int| 0 <= j < it.index@ ==> (#[trigger] vals[j]).shaded()
    //@  loop 0 invariant it.seq().len() == vals.len(), forall|j: int| 0 <= j < vals.len() ==> *it.seq()[j] == vals[j]
    //@end
}

// ------------------------------------------------------------------ object kinds (object.rs, value.rs, chunk.rs)
pub open spec fn upvalue_state_traced(d: ObjUpvalueState) -> bool { match d { ObjUpvalueState::Closed(v) => v.traced(), ObjUpvalueState::Open(_) => true } }
pub open spec fn upvalue_state_shaded(d: ObjUpvalueState) -> bool { match d { ObjUpvalueState::Closed(v) => v.shaded(), ObjUpvalueState::Open(_) => true } }
//@enum file=yarel/src/object.rs name=ObjUpvalueState map "*mut Value" => "usize"
//@struct file=yarel/src/object.rs name=ExcHandler map "*const u8" => "usize"

//@trace file=yarel/src/value.rs type=Value kind=enum
//@end

//@trace file=yarel/src/object.rs type=ObjString
//@  exempt class core class object: rooted in CoreClassStore for the interpreter's lifetime
//@end

//@trace file=yarel/src/object.rs type=ObjStringIter
//@  exempt class core class object: rooted in CoreClassStore for the interpreter's lifetime
//@end

//@trace file=yarel/src/object.rs type=ObjUpvalue
//@  spec data upvalue_state_{m}(self.data)
//@end

//@trace file=yarel/src/object.rs type=ObjFunction
//@end

//@trace file=yarel/src/object.rs type=ObjNative
//@  map "NativeFn" => "ObjNativeFnPtr"
//@end

//@trace file=yarel/src/object.rs type=ObjClosure
//@  exempt module the module object is rooted in Vm.modules (until reset)
//@end
// The exemption above rests on a frame condition: outside Vm::reset nothing ever takes an entry out of Vm.modules (a
// module object is rooted there for as long as code of it can run). Decided from the code as it stands on this run:
//@callsites file=yarel/src/vm.rs impl=Vm name=module_registry_shrink pattern="modules\s*\.\s*(remove|retain|clear|drain|remove_entry)\s*\(" allowed=reset
//@lemma name=modules_stay_registered_for_as_long_as_their_code_can_run props=C01
pub proof fn modules_stay_registered_for_as_long_as_their_code_can_run() ensures UNEXPECTED_CALLERS_OF_MODULE_REGISTRY_SHRINK == 0 {}


//@trace file=yarel/src/object.rs type=ObjClass
//@end

//@trace file=yarel/src/object.rs type=ObjInstance
//@end

//@trace file=yarel/src/object.rs type=ObjBoundMethod
//@end

//@trace file=yarel/src/object.rs type=ObjVec
//@end

//@trace file=yarel/src/object.rs type=ObjVecIter
//@  exempt class core class object: rooted in CoreClassStore for the interpreter's lifetime
//@end

//@trace file=yarel/src/object.rs type=ObjRange
//@end

//@trace file=yarel/src/object.rs type=ObjRangeIter
//@  exempt class core class object: rooted in CoreClassStore for the interpreter's lifetime
//@end

//@trace file=yarel/src/object.rs type=ObjHashMap props=C01,C12
//@  also elements.keys keys_{m}(self.elements)
//@  both: at body.start let ghost ks = self.elements.ks();
//@  both: loop 0 iter it
//@  both: loop 0 invariant forall|j: int| 0 <= j < it.index@ ==> (#[trigger] ks[j]).{m}()
//@  both: loop 0 invariant it.seq().len() == ks.len(), forall|j: int| 0 <= j < ks.len() ==> *it.seq()[j] == ks[j], self.class.{m}()
//@end

//@trace file=yarel/src/object.rs type=ObjTuple
//@end

//@trace file=yarel/src/object.rs type=ObjTupleIter
//@  exempt class core class object: rooted in CoreClassStore for the interpreter's lifetime
//@end

//@trace file=yarel/src/object.rs type=ObjModule
//@  exempt class core class object: rooted in CoreClassStore for the interpreter's lifetime
//@end

//@trace file=yarel/src/object.rs type=CallFrame
//@  map "*const u8" => "usize"
//@end

//@trace file=yarel/src/object.rs type=ObjFiber
//@  exempt class core class object: rooted in CoreClassStore for the interpreter's lifetime
//@  map "*const u8" => "usize"
//@  rewrite R15
//@end

//@trace file=yarel/src/chunk.rs type=Chunk
//@  exempt constant_map every key of constant_map is also an element of `constants` (Chunk::add_constant), which is traced
//@  map "HashMap<Value, usize>" => "HashMap<Value, usize, BuildPassThroughHasher>"
//@end

// keys of a HashMap<Value, Value> are managed references too (a tuple/string/class/range used as a key)
pub open spec fn keys_traced<V, S>(m: HashMap<Value, V, S>) -> bool { forall|k: Value| #[trigger] m@.contains_key(k) ==> k.traced() }
pub open spec fn keys_shaded<V, S>(m: HashMap<Value, V, S>) -> bool { forall|k: Value| #[trigger] m@.contains_key(k) ==> k.shaded() }

} // verus!
fn main() {}
