//@unit iternat
//@property C18,C02
// The native halves of the iteration protocol (yarel/src/core.rs vec_iter / tuple_iter / range_iter / string_iter and
// the four *_iter_next natives; yarel/src/vm.rs new_root_obj_*_iter, new_root_obj_stop_iter; object.rs Obj*Iter::new):
// `iter()` makes a FRESH iterator cell positioned at the first element of exactly the receiver — so nested and
// interleaved loops over the same iterable are independent —, `next()` advances THAT cell only, returns the element the
// cursor contract (unit `index`: Obj*Iter::next) yields, and at the end returns an instance of exactly the StopIter
// class (what JumpIfStopIter tests: unit flowvm) without moving the cursor: the loop "ends cleanly", and asking again
// ends again. A wrong argument count is a TypeError that moves nothing.
use vstd::prelude::*;
verus! {

global size_of usize == 8;

#[verifier::external_body]
#[verifier::accept_recursive_types(T)]
pub struct Gc<T> { p: core::marker::PhantomData<T> }
impl<T> Clone for Gc<T> { #[verifier::external_body] fn clone(&self) -> (r: Self) ensures r == *self { Gc { p: core::marker::PhantomData } } }
impl<T> Copy for Gc<T> {}
impl<T> Gc<T> { pub uninterp spec fn id(&self) -> int; pub uninterp spec fn obj(&self) -> T; }
impl<T> std::ops::Deref for Gc<T> { type Target = T; #[verifier::external_body] fn deref(&self) -> (r: &T) ensures *r == self.obj() { unimplemented!() } }
#[verifier::external_body]
#[verifier::accept_recursive_types(T)]
pub struct Root<T> { p: core::marker::PhantomData<T> }
impl<T> Root<T> { pub uninterp spec fn gc(&self) -> Gc<T>; #[verifier::external_body] pub fn as_gc(&self) -> (g: Gc<T>) ensures g == self.gc() { unimplemented!() } }
pub struct RefCell<T> { pub v: T }
//@enum file=yarel/src/error.rs name=ErrorKind
pub struct Error { pub kind: ErrorKind }
#[verifier::external_body]
fn verif_error(kind: ErrorKind) -> (e: Error) ensures e.kind == kind { Error { kind } }

pub struct ObjClass { }
pub struct ObjString { }
pub struct ObjVec { pub elements: Vec<Value> }
pub struct ObjTuple { pub elements: Vec<Value> }
pub struct ObjRange { pub begin: isize, pub end: isize }
pub struct ObjInstance { pub class: Gc<ObjClass> }
//@struct file=yarel/src/object.rs name=ObjVecIter
//@struct file=yarel/src/object.rs name=ObjTupleIter
//@struct file=yarel/src/object.rs name=ObjRangeIter
//@struct file=yarel/src/object.rs name=ObjStringIter
//@enum file=yarel/src/value.rs name=Value keep=Number,ObjString,ObjStringIter,ObjVec,ObjVecIter,ObjTuple,ObjTupleIter,ObjRange,ObjRangeIter,ObjInstance,None other=Other
impl Value {
    //@fn file=yarel/src/value.rs path=Value::try_as_obj_vec ret=r
    //@  ensures r == (match *self { Value::ObjVec(g) => Some(g), _ => None })
    //@end
    //@fn file=yarel/src/value.rs path=Value::try_as_obj_vec_iter ret=r
    //@  ensures r == (match *self { Value::ObjVecIter(g) => Some(g), _ => None })
    //@end
    //@fn file=yarel/src/value.rs path=Value::try_as_obj_tuple ret=r
    //@  ensures r == (match *self { Value::ObjTuple(g) => Some(g), _ => None })
    //@end
    //@fn file=yarel/src/value.rs path=Value::try_as_obj_tuple_iter ret=r
    //@  ensures r == (match *self { Value::ObjTupleIter(g) => Some(g), _ => None })
    //@end
    //@fn file=yarel/src/value.rs path=Value::try_as_obj_range ret=r
    //@  ensures r == (match *self { Value::ObjRange(g) => Some(g), _ => None })
    //@end
    //@fn file=yarel/src/value.rs path=Value::try_as_obj_range_iter ret=r
    //@  ensures r == (match *self { Value::ObjRangeIter(g) => Some(g), _ => None })
    //@end
    //@fn file=yarel/src/value.rs path=Value::try_as_obj_string ret=r
    //@  ensures r == (match *self { Value::ObjString(g) => Some(g), _ => None })
    //@end
    //@fn file=yarel/src/value.rs path=Value::try_as_obj_string_iter ret=r
    //@  ensures r == (match *self { Value::ObjStringIter(g) => Some(g), _ => None })
    //@end
}

//@fn file=yarel/src/core.rs path=check_num_args ret=r
//@  rewrite R1
//@  ensures r is Ok <==> num_args == expected
//@  ensures r matches Err(e) ==> e.kind is TypeError
//@end

// ------------------------------------------------------------------ the cursors (own contracts: unit `index`)
impl ObjVecIter {
    //@fn file=yarel/src/object.rs path=ObjVecIter::new ret=r
    //@  ensures @a_new_iterator_stands_at_the_first_element r.iterable == iterable && r.current == 0 && r.class == class
    //@end
    // unit index: ObjVecIter::next (index-based against the vector's CURRENT content)
    pub uninterp spec fn elems(&self) -> Seq<Value>;
    #[verifier::external_body]
    pub(crate) fn next(&mut self) -> (r: Option<Value>)
        ensures final(self).iterable == old(self).iterable, final(self).class == old(self).class, final(self).elems() == old(self).elems(),
            old(self).current < old(self).elems().len() ==> r == Some(old(self).elems()[old(self).current as int]) && final(self).current == old(self).current + 1,
            old(self).current >= old(self).elems().len() ==> r is None && final(self).current == old(self).current,
    { unimplemented!() }
}
impl ObjTupleIter {
    //@fn file=yarel/src/object.rs path=ObjTupleIter::new ret=r
    //@  ensures @a_new_iterator_stands_at_the_first_element r.iterable == iterable && r.current == 0 && r.class == class
    //@end
    #[verifier::external_body]
    pub(crate) fn next(&mut self) -> (r: Option<Value>)
        ensures final(self).iterable == old(self).iterable, final(self).class == old(self).class,
            old(self).current < old(self).iterable.obj().elements@.len() ==> r == Some(old(self).iterable.obj().elements@[old(self).current as int]) && final(self).current == old(self).current + 1,
            old(self).current >= old(self).iterable.obj().elements@.len() ==> r is None && final(self).current == old(self).current,
    { unimplemented!() }
}
pub uninterp spec fn value_int(v: Value) -> Option<int>;
impl ObjRangeIter {
    pub open spec fn wf(&self) -> bool {
        let (b, e) = (self.iterable.obj().begin, self.iterable.obj().end);
        (self.step == 1 && b <= self.current <= e) || (self.step == -1 && e <= self.current <= b)
    }
    //@fn file=yarel/src/object.rs path=ObjRangeIter::new ret=r
    //@  ensures @a_new_iterator_stands_at_the_first_element r.wf() && r.current == iterable.obj().begin && r.iterable == iterable && r.class == class
    //@end
    #[verifier::external_body]
    pub(crate) fn next(&mut self) -> (r: Option<Value>)
        requires old(self).wf()
        ensures final(self).wf(), final(self).iterable == old(self).iterable, final(self).step == old(self).step, final(self).class == old(self).class,
            old(self).current == old(self).iterable.obj().end ==> r is None && final(self).current == old(self).current,
            old(self).current != old(self).iterable.obj().end ==> (r matches Some(v) && value_int(v) == Some(old(self).current as int)) && final(self).current == old(self).current + old(self).step,
    { unimplemented!() }
}
// strings: opaque text with a byte length and a character-boundary predicate, as in units index / lexnum
impl ObjString { pub uninterp spec fn blen(&self) -> nat; pub uninterp spec fn is_cb(&self, i: int) -> bool; }
#[verifier::external_body]
pub struct StrSlice { _p: u8 }
impl StrSlice { pub uninterp spec fn of(&self) -> (Gc<ObjString>, int, int); }
// `&iterable[begin..end]` (R8): std panics unless begin <= end <= len and both are character boundaries — the obligation
#[verifier::external_body]
fn str_slice(s: Gc<ObjString>, a: usize, b: usize) -> (r: StrSlice)
    requires a <= b <= s.obj().blen(), s.obj().is_cb(a as int), s.obj().is_cb(b as int)
    ensures r.of() == (s, a as int, b as int)
{ unimplemented!() }
impl ObjStringIter {
    pub open spec fn wf(&self) -> bool { self.pos <= self.iterable.obj().blen() && self.iterable.obj().is_cb(self.pos as int) }
    //@fn file=yarel/src/object.rs path=ObjStringIter::new ret=r
    //@  requires iterable.obj().is_cb(0)
    //@  ensures @a_new_iterator_stands_at_the_first_element r.iterable == iterable && r.pos == 0 && r.class == class && r.wf()
    //@end
    #[verifier::external_body]
    pub(crate) fn next(&mut self) -> (r: Option<(usize, usize)>)
        requires old(self).wf()
        ensures final(self).wf(), final(self).iterable == old(self).iterable, final(self).class == old(self).class,
            r is None <==> old(self).pos == old(self).iterable.obj().blen(),
            r is None ==> final(self).pos == old(self).pos,
            r matches Some((a, b)) ==> a == old(self).pos && b == final(self).pos && a < b <= old(self).iterable.obj().blen(),
    { unimplemented!() }
}

// ------------------------------------------------------------------ the VM as far as these natives are concerned
pub struct ClassStore { pub ghost stop_iter: Gc<ObjClass> }
impl ClassStore {
    #[verifier::external_body] fn stop_iter_class(&self) -> (r: Gc<ObjClass>) ensures r == self.stop_iter { unimplemented!() }
    #[verifier::external_body] fn vec_iter_class(&self) -> Gc<ObjClass> { unimplemented!() }
    #[verifier::external_body] fn tuple_iter_class(&self) -> Gc<ObjClass> { unimplemented!() }
    #[verifier::external_body] fn range_iter_class(&self) -> Gc<ObjClass> { unimplemented!() }
    #[verifier::external_body] fn string_iter_class(&self) -> Gc<ObjClass> { unimplemented!() }
}
pub struct Vm {
    pub class_store: ClassStore,
    pub ghost stack: Seq<Value>,
    pub ghost viters: Map<int, ObjVecIter>,
    pub ghost titers: Map<int, ObjTupleIter>,
    pub ghost riters: Map<int, ObjRangeIter>,
    pub ghost siters: Map<int, ObjStringIter>,
    pub ghost insts: Map<int, ObjInstance>,
}
impl Vm {
    pub open spec fn top(&self, depth: int) -> Value { self.stack[self.stack.len() - 1 - depth] }
    pub open spec fn same_iters(&self, o: &Vm) -> bool { self.viters == o.viters && self.titers == o.titers && self.riters == o.riters && self.siters == o.siters }
    pub open spec fn quiet(&self, o: &Vm) -> bool { self.same_iters(o) && self.stack == o.stack && self.class_store == o.class_store }
    // an instance of exactly the StopIter class (what JumpIfStopIter tests, unit flowvm)
    pub open spec fn is_stop_iter(&self, v: Value) -> bool { v matches Value::ObjInstance(g) && self.insts.dom().contains(g.id()) && self.insts[g.id()].class == self.class_store.stop_iter }
    #[verifier::external_body]
    pub fn peek(&self, depth: usize) -> (r: Value) requires depth < self.stack.len() ensures r == self.top(depth as int) { unimplemented!() }
    // `x.borrow_mut()` on an iterator cell
    #[verifier::external_body]
    fn viter_mut(&mut self, g: Gc<RefCell<ObjVecIter>>) -> (r: &mut ObjVecIter)
        requires old(self).viters.dom().contains(g.id())
        ensures *r == old(self).viters[g.id()], final(self).viters == old(self).viters.insert(g.id(), *final(r)), final(self).titers == old(self).titers, final(self).riters == old(self).riters, final(self).siters == old(self).siters, final(self).stack == old(self).stack, final(self).class_store == old(self).class_store, final(self).insts == old(self).insts
    { unimplemented!() }
    #[verifier::external_body]
    fn titer_mut(&mut self, g: Gc<RefCell<ObjTupleIter>>) -> (r: &mut ObjTupleIter)
        requires old(self).titers.dom().contains(g.id())
        ensures *r == old(self).titers[g.id()], final(self).titers == old(self).titers.insert(g.id(), *final(r)), final(self).viters == old(self).viters, final(self).riters == old(self).riters, final(self).siters == old(self).siters, final(self).stack == old(self).stack, final(self).class_store == old(self).class_store, final(self).insts == old(self).insts
    { unimplemented!() }
    #[verifier::external_body]
    fn riter_mut(&mut self, g: Gc<RefCell<ObjRangeIter>>) -> (r: &mut ObjRangeIter)
        requires old(self).riters.dom().contains(g.id())
        ensures *r == old(self).riters[g.id()], final(self).riters == old(self).riters.insert(g.id(), *final(r)), final(self).viters == old(self).viters, final(self).titers == old(self).titers, final(self).siters == old(self).siters, final(self).stack == old(self).stack, final(self).class_store == old(self).class_store, final(self).insts == old(self).insts
    { unimplemented!() }
    #[verifier::external_body]
    fn siter_mut(&mut self, g: Gc<RefCell<ObjStringIter>>) -> (r: &mut ObjStringIter)
        requires old(self).siters.dom().contains(g.id())
        ensures *r == old(self).siters[g.id()], final(self).siters == old(self).siters.insert(g.id(), *final(r)), final(self).viters == old(self).viters, final(self).titers == old(self).titers, final(self).riters == old(self).riters, final(self).stack == old(self).stack, final(self).class_store == old(self).class_store, final(self).insts == old(self).insts
    { unimplemented!() }
    #[verifier::external_body]
    fn siter(&self, g: Gc<RefCell<ObjStringIter>>) -> (r: &ObjStringIter) requires self.siters.dom().contains(g.id()) ensures *r == self.siters[g.id()] { unimplemented!() }
    // Root::new(RefCell::new(x)): a fresh cell
    #[verifier::external_body]
    fn alloc_viter(&mut self, x: ObjVecIter) -> (r: Root<RefCell<ObjVecIter>>)
        ensures !old(self).viters.dom().contains(r.gc().id()), final(self).viters == old(self).viters.insert(r.gc().id(), x), final(self).titers == old(self).titers, final(self).riters == old(self).riters, final(self).siters == old(self).siters, final(self).stack == old(self).stack, final(self).class_store == old(self).class_store, final(self).insts == old(self).insts
    { unimplemented!() }
    #[verifier::external_body]
    fn alloc_titer(&mut self, x: ObjTupleIter) -> (r: Root<RefCell<ObjTupleIter>>)
        ensures !old(self).titers.dom().contains(r.gc().id()), final(self).titers == old(self).titers.insert(r.gc().id(), x), final(self).viters == old(self).viters, final(self).riters == old(self).riters, final(self).siters == old(self).siters, final(self).stack == old(self).stack, final(self).class_store == old(self).class_store, final(self).insts == old(self).insts
    { unimplemented!() }
    #[verifier::external_body]
    fn alloc_riter(&mut self, x: ObjRangeIter) -> (r: Root<RefCell<ObjRangeIter>>)
        ensures !old(self).riters.dom().contains(r.gc().id()), final(self).riters == old(self).riters.insert(r.gc().id(), x), final(self).viters == old(self).viters, final(self).titers == old(self).titers, final(self).siters == old(self).siters, final(self).stack == old(self).stack, final(self).class_store == old(self).class_store, final(self).insts == old(self).insts
    { unimplemented!() }
    #[verifier::external_body]
    fn alloc_siter(&mut self, x: ObjStringIter) -> (r: Root<RefCell<ObjStringIter>>)
        ensures !old(self).siters.dom().contains(r.gc().id()), final(self).siters == old(self).siters.insert(r.gc().id(), x), final(self).viters == old(self).viters, final(self).titers == old(self).titers, final(self).riters == old(self).riters, final(self).stack == old(self).stack, final(self).class_store == old(self).class_store, final(self).insts == old(self).insts
    { unimplemented!() }
    // vm.rs new_root_obj_err_with_class: a fresh instance of `class` (its `context` field is the second argument)
    #[verifier::external_body]
    fn new_root_obj_err_with_class(&mut self, class: Gc<ObjClass>, context: Value) -> (r: Root<RefCell<ObjInstance>>)
        ensures !old(self).insts.dom().contains(r.gc().id()), final(self).insts == old(self).insts.insert(r.gc().id(), ObjInstance { class }), old(self).quiet(final(self))
    { unimplemented!() }
    #[verifier::external_body]
    pub fn new_gc_obj_string(&mut self, data: StrSlice) -> (r: Gc<ObjString>) ensures old(self).quiet(final(self)), final(self).insts == old(self).insts { unimplemented!() }

    //@fn file=yarel/src/vm.rs path=Vm::new_root_obj_stop_iter ret=r
    //@  ensures @the_end_marker_is_an_instance_of_exactly_the_stop_iter_class final(self).is_stop_iter(Value::ObjInstance(r.gc())), old(self).quiet(final(self))
    //@end
    //@fn file=yarel/src/vm.rs path=Vm::new_root_obj_vec_iter ret=r
    //@  subst "Root::new(RefCell::new(ObjVecIter::new(class, vec)))" => "self.alloc_viter(ObjVecIter::new(class, vec))"
    //@  ensures !old(self).viters.dom().contains(r.gc().id()), final(self).viters == old(self).viters.insert(r.gc().id(), final(self).viters[r.gc().id()]), final(self).viters[r.gc().id()].iterable == vec && final(self).viters[r.gc().id()].current == 0
    //@  ensures final(self).titers == old(self).titers, final(self).riters == old(self).riters, final(self).siters == old(self).siters, final(self).stack == old(self).stack
    //@end
    //@fn file=yarel/src/vm.rs path=Vm::new_root_obj_tuple_iter ret=r
    //@  subst "Root::new(RefCell::new(ObjTupleIter::new(class, tuple)))" => "self.alloc_titer(ObjTupleIter::new(class, tuple))"
    //@  ensures !old(self).titers.dom().contains(r.gc().id()), final(self).titers == old(self).titers.insert(r.gc().id(), final(self).titers[r.gc().id()]), final(self).titers[r.gc().id()].iterable == tuple && final(self).titers[r.gc().id()].current == 0
    //@  ensures final(self).viters == old(self).viters, final(self).riters == old(self).riters, final(self).siters == old(self).siters, final(self).stack == old(self).stack
    //@end
    //@fn file=yarel/src/vm.rs path=Vm::new_root_obj_range_iter ret=r
    //@  subst "Root::new(RefCell::new(ObjRangeIter::new(class, range)))" => "self.alloc_riter(ObjRangeIter::new(class, range))"
    //@  ensures !old(self).riters.dom().contains(r.gc().id()), final(self).riters == old(self).riters.insert(r.gc().id(), final(self).riters[r.gc().id()]), final(self).riters[r.gc().id()].iterable == range && final(self).riters[r.gc().id()].current == range.obj().begin && final(self).riters[r.gc().id()].wf()
    //@  ensures final(self).viters == old(self).viters, final(self).titers == old(self).titers, final(self).siters == old(self).siters, final(self).stack == old(self).stack
    //@end
    //@fn file=yarel/src/vm.rs path=Vm::new_root_obj_string_iter ret=r
    //@  subst "Root::new(RefCell::new(ObjStringIter::new(class, string)))" => "self.alloc_siter(ObjStringIter::new(class, string))"
    //@  requires string.obj().is_cb(0)
    //@  ensures !old(self).siters.dom().contains(r.gc().id()), final(self).siters == old(self).siters.insert(r.gc().id(), final(self).siters[r.gc().id()]), final(self).siters[r.gc().id()].iterable == string && final(self).siters[r.gc().id()].pos == 0 && final(self).siters[r.gc().id()].wf()
    //@  ensures final(self).viters == old(self).viters, final(self).titers == old(self).titers, final(self).riters == old(self).riters, final(self).stack == old(self).stack
    //@end
}

// ------------------------------------------------------------------ iter(): a fresh cursor on exactly the receiver
//@fn file=yarel/src/core.rs path=vec_iter ret=r
//@  rewrite R1
//@  subst ".expect(\"Expected ObjVec instance.\")" => ".unwrap()"
//@  requires old(vm).stack.len() >= 1, old(vm).top(0) is ObjVec
//@  ensures @a_wrong_argument_count_is_a_type_error_that_moves_nothing num_args != 0 ==> (r matches Err(e) && e.kind is TypeError) && old(vm).quiet(final(vm))
//@  ensures @iter_makes_a_fresh_cursor_at_the_start_of_the_receiver num_args == 0 ==> (r matches Ok(Value::ObjVecIter(g)) && !old(vm).viters.dom().contains(g.id()) && final(vm).viters[g.id()].iterable == old(vm).top(0)->ObjVec_0 && final(vm).viters[g.id()].current == 0)
//@  ensures @iter_leaves_every_other_cursor_where_it_is forall|i: int| old(vm).viters.dom().contains(i) ==> final(vm).viters.dom().contains(i) && final(vm).viters[i] == old(vm).viters[i]
//@end
//@fn file=yarel/src/core.rs path=tuple_iter ret=r
//@  rewrite R1
//@  subst ".expect(\"Expected ObjTuple instance.\")" => ".unwrap()"
//@  requires old(vm).stack.len() >= 1, old(vm).top(0) is ObjTuple
//@  ensures @a_wrong_argument_count_is_a_type_error_that_moves_nothing num_args != 0 ==> (r matches Err(e) && e.kind is TypeError) && old(vm).quiet(final(vm))
//@  ensures @iter_makes_a_fresh_cursor_at_the_start_of_the_receiver num_args == 0 ==> (r matches Ok(Value::ObjTupleIter(g)) && !old(vm).titers.dom().contains(g.id()) && final(vm).titers[g.id()].iterable == old(vm).top(0)->ObjTuple_0 && final(vm).titers[g.id()].current == 0)
//@  ensures @iter_leaves_every_other_cursor_where_it_is forall|i: int| old(vm).titers.dom().contains(i) ==> final(vm).titers.dom().contains(i) && final(vm).titers[i] == old(vm).titers[i]
//@end
//@fn file=yarel/src/core.rs path=range_iter ret=r
//@  rewrite R1
//@  subst ".expect(\"Expected ObjRange instance.\")" => ".unwrap()"
//@  requires old(vm).stack.len() >= 1, old(vm).top(0) is ObjRange
//@  ensures @a_wrong_argument_count_is_a_type_error_that_moves_nothing num_args != 0 ==> (r matches Err(e) && e.kind is TypeError) && old(vm).quiet(final(vm))
//@  ensures @iter_makes_a_fresh_cursor_at_the_start_of_the_receiver num_args == 0 ==> (r matches Ok(Value::ObjRangeIter(g)) && !old(vm).riters.dom().contains(g.id()) && final(vm).riters[g.id()].iterable == old(vm).top(0)->ObjRange_0 && final(vm).riters[g.id()].current == old(vm).top(0)->ObjRange_0.obj().begin && final(vm).riters[g.id()].wf())
//@  ensures @iter_leaves_every_other_cursor_where_it_is forall|i: int| old(vm).riters.dom().contains(i) ==> final(vm).riters.dom().contains(i) && final(vm).riters[i] == old(vm).riters[i]
//@end
//@fn file=yarel/src/core.rs path=string_iter ret=r
//@  rewrite R1
//@  subst ".expect(\"Expected ObjString instance.\")" => ".unwrap()"
//@  requires old(vm).stack.len() >= 1, old(vm).top(0) is ObjString, old(vm).top(0)->ObjString_0.obj().is_cb(0)
//@  ensures @a_wrong_argument_count_is_a_type_error_that_moves_nothing num_args != 0 ==> (r matches Err(e) && e.kind is TypeError) && old(vm).quiet(final(vm))
//@  ensures @iter_makes_a_fresh_cursor_at_the_start_of_the_receiver num_args == 0 ==> (r matches Ok(Value::ObjStringIter(g)) && !old(vm).siters.dom().contains(g.id()) && final(vm).siters[g.id()].iterable == old(vm).top(0)->ObjString_0 && final(vm).siters[g.id()].pos == 0 && final(vm).siters[g.id()].wf())
//@  ensures @iter_leaves_every_other_cursor_where_it_is forall|i: int| old(vm).siters.dom().contains(i) ==> final(vm).siters.dom().contains(i) && final(vm).siters[i] == old(vm).siters[i]
//@end

// ------------------------------------------------------------------ next(): the element under the cursor, or StopIter
//@fn file=yarel/src/core.rs path=vec_iter_next ret=r
//@  rewrite R1 R34
//@  subst ".expect(\"Expected ObjVecIter instance.\")" => ".unwrap()"
//@  subst "iter.borrow_mut()" => "vm.viter_mut(iter)"
//@  requires old(vm).stack.len() >= 1, old(vm).top(0) matches Value::ObjVecIter(g) && old(vm).viters.dom().contains(g.id())
//@  ensures @a_wrong_argument_count_is_a_type_error_that_moves_nothing num_args != 0 ==> (r matches Err(e) && e.kind is TypeError) && old(vm).quiet(final(vm))
//@  ensures @next_yields_the_element_under_the_cursor_and_advances_it ({ let c = old(vm).viters[old(vm).top(0)->ObjVecIter_0.id()]; num_args == 0 && c.current < c.elems().len() ==> (r matches Ok(v) && v == c.elems()[c.current as int] && final(vm).viters[old(vm).top(0)->ObjVecIter_0.id()].current == c.current + 1) })
//@  ensures @an_exhausted_iterator_yields_stop_iter_and_stays_exhausted ({ let c = old(vm).viters[old(vm).top(0)->ObjVecIter_0.id()]; num_args == 0 && c.current >= c.elems().len() ==> (r matches Ok(v) && final(vm).is_stop_iter(v) && final(vm).viters[old(vm).top(0)->ObjVecIter_0.id()].current == c.current) })
//@  ensures @next_moves_no_other_cursor forall|i: int| old(vm).viters.dom().contains(i) && i != old(vm).top(0)->ObjVecIter_0.id() ==> final(vm).viters[i] == old(vm).viters[i]
//@  ensures final(vm).titers == old(vm).titers, final(vm).riters == old(vm).riters, final(vm).siters == old(vm).siters, final(vm).stack == old(vm).stack
//@end
//@fn file=yarel/src/core.rs path=tuple_iter_next ret=r
//@  rewrite R1 R34
//@  subst ".expect(\"Expected ObjTupleIter instance.\")" => ".unwrap()"
//@  subst "iter.borrow_mut()" => "vm.titer_mut(iter)"
//@  requires old(vm).stack.len() >= 1, old(vm).top(0) matches Value::ObjTupleIter(g) && old(vm).titers.dom().contains(g.id())
//@  ensures @a_wrong_argument_count_is_a_type_error_that_moves_nothing num_args != 0 ==> (r matches Err(e) && e.kind is TypeError) && old(vm).quiet(final(vm))
//@  ensures @next_yields_the_element_under_the_cursor_and_advances_it ({ let c = old(vm).titers[old(vm).top(0)->ObjTupleIter_0.id()]; num_args == 0 && c.current < c.iterable.obj().elements@.len() ==> (r matches Ok(v) && v == c.iterable.obj().elements@[c.current as int] && final(vm).titers[old(vm).top(0)->ObjTupleIter_0.id()].current == c.current + 1) })
//@  ensures @an_exhausted_iterator_yields_stop_iter_and_stays_exhausted ({ let c = old(vm).titers[old(vm).top(0)->ObjTupleIter_0.id()]; num_args == 0 && c.current >= c.iterable.obj().elements@.len() ==> (r matches Ok(v) && final(vm).is_stop_iter(v) && final(vm).titers[old(vm).top(0)->ObjTupleIter_0.id()].current == c.current) })
//@  ensures @next_moves_no_other_cursor forall|i: int| old(vm).titers.dom().contains(i) && i != old(vm).top(0)->ObjTupleIter_0.id() ==> final(vm).titers[i] == old(vm).titers[i]
//@  ensures final(vm).viters == old(vm).viters, final(vm).riters == old(vm).riters, final(vm).siters == old(vm).siters, final(vm).stack == old(vm).stack
//@end
//@fn file=yarel/src/core.rs path=range_iter_next ret=r
//@  rewrite R1 R34
//@  subst ".expect(\"Expected ObjIter instance.\")" => ".unwrap()"
//@  subst "iter.borrow_mut()" => "vm.riter_mut(iter)"
//@  requires old(vm).stack.len() >= 1, old(vm).top(0) matches Value::ObjRangeIter(g) && old(vm).riters.dom().contains(g.id()) && old(vm).riters[g.id()].wf()
//@  ensures @a_wrong_argument_count_is_a_type_error_that_moves_nothing num_args != 0 ==> (r matches Err(e) && e.kind is TypeError) && old(vm).quiet(final(vm))
//@  ensures @next_yields_the_element_under_the_cursor_and_advances_it ({ let c = old(vm).riters[old(vm).top(0)->ObjRangeIter_0.id()]; num_args == 0 && c.current != c.iterable.obj().end ==> (r matches Ok(v) && value_int(v) == Some(c.current as int) && final(vm).riters[old(vm).top(0)->ObjRangeIter_0.id()].current == c.current + c.step && final(vm).riters[old(vm).top(0)->ObjRangeIter_0.id()].wf()) })
//@  ensures @an_exhausted_iterator_yields_stop_iter_and_stays_exhausted ({ let c = old(vm).riters[old(vm).top(0)->ObjRangeIter_0.id()]; num_args == 0 && c.current == c.iterable.obj().end ==> (r matches Ok(v) && final(vm).is_stop_iter(v) && final(vm).riters[old(vm).top(0)->ObjRangeIter_0.id()].current == c.current) })
//@  ensures @next_moves_no_other_cursor forall|i: int| old(vm).riters.dom().contains(i) && i != old(vm).top(0)->ObjRangeIter_0.id() ==> final(vm).riters[i] == old(vm).riters[i]
//@  ensures final(vm).viters == old(vm).viters, final(vm).titers == old(vm).titers, final(vm).siters == old(vm).siters, final(vm).stack == old(vm).stack
//@end
//@fn file=yarel/src/core.rs path=string_iter_next ret=r
//@  rewrite R1 R8
//@  subst ".expect(\"Expected ObjIter instance.\")" => ".unwrap()"
//@  subst "iter.borrow().iterable" => "vm.siter(iter).iterable"
//@  subst "iter.borrow_mut()" => "vm.siter_mut(iter)"
//@  requires old(vm).stack.len() >= 1, old(vm).top(0) matches Value::ObjStringIter(g) && old(vm).siters.dom().contains(g.id()) && old(vm).siters[g.id()].wf()
//@  ensures @a_wrong_argument_count_is_a_type_error_that_moves_nothing num_args != 0 ==> (r matches Err(e) && e.kind is TypeError) && old(vm).quiet(final(vm))
//@  ensures @next_yields_the_element_under_the_cursor_and_advances_it ({ let c = old(vm).siters[old(vm).top(0)->ObjStringIter_0.id()]; num_args == 0 && c.pos != c.iterable.obj().blen() ==> (r matches Ok(Value::ObjString(_)) && final(vm).siters[old(vm).top(0)->ObjStringIter_0.id()].pos > c.pos && final(vm).siters[old(vm).top(0)->ObjStringIter_0.id()].wf()) })
//@  ensures @an_exhausted_iterator_yields_stop_iter_and_stays_exhausted ({ let c = old(vm).siters[old(vm).top(0)->ObjStringIter_0.id()]; num_args == 0 && c.pos == c.iterable.obj().blen() ==> (r matches Ok(v) && final(vm).is_stop_iter(v) && final(vm).siters[old(vm).top(0)->ObjStringIter_0.id()].pos == c.pos) })
//@  ensures @next_moves_no_other_cursor forall|i: int| old(vm).siters.dom().contains(i) && i != old(vm).top(0)->ObjStringIter_0.id() ==> final(vm).siters[i] == old(vm).siters[i]
//@  ensures final(vm).viters == old(vm).viters, final(vm).titers == old(vm).titers, final(vm).riters == old(vm).riters, final(vm).stack == old(vm).stack
//@end

} // verus!
fn main() {}
