//@unit upvalues
//@property C06
// Runtime side of "closures capture variables, not values" (yarel/src/vm.rs Vm::capture_upvalue, yarel/src/object.rs
// ObjFiber::close_upvalues, ObjUpvalue): every captured stack slot of a fiber has exactly ONE open upvalue cell, all
// closures capturing that slot share it, and a cell is closed (takes the value with it) before its slot dies.
//
// The open upvalues of a fiber form a singly linked list of heap cells sorted by descending slot address. The heap
// cells are `Gc<RefCell<ObjUpvalue>>`; interior mutability is outside Verus, so the cell contents are threaded through
// a ghost-specified store `UvHeap` owned by the fiber stand-in: `g.borrow()` / `g.borrow_mut()` become
// `uvheap.get(g)` / `uvheap.get_mut(g)` (literal substitutions listed per function; the statements around them are
// the code of /repo). Slot addresses are modelled by slot indices (one contiguous array, so address order = index order).
use vstd::prelude::*;
verus! {

global size_of usize == 8;

// ------------------------------------------------------------------ environment stand-ins (assumed)
#[verifier::external_body]
#[verifier::accept_recursive_types(T)]
pub struct Gc<T> { p: core::marker::PhantomData<T> }
impl<T> Clone for Gc<T> { #[verifier::external_body] fn clone(&self) -> (r: Self) ensures r == *self { Gc { p: core::marker::PhantomData } } }
impl<T> Copy for Gc<T> {}
impl<T> Gc<T> { pub uninterp spec fn id(&self) -> int; }
#[verifier::external_body]
#[verifier::accept_recursive_types(T)]
pub struct Root<T> { p: core::marker::PhantomData<T> }
impl<T> Root<T> {
    pub uninterp spec fn id(&self) -> int;
    #[verifier::external_body]
    pub fn as_gc(&self) -> (g: Gc<T>) ensures g.id() == self.id() { unimplemented!() }
}
pub struct RefCell<T> { pub v: T }

#[verifier::external_body]
pub struct Value { _p: u8 }
impl Clone for Value { #[verifier::external_body] fn clone(&self) -> (r: Self) ensures r == *self { Value { _p: 0 } } }
impl Copy for Value {}

// address of stack slot `index` of the active fiber (vm.rs: `stack.as_ptr().offset(i)`, object.rs: `&self.stack[i]`)
fn stack_slot_addr(index: usize) -> (r: usize) ensures r == index { index }

//@enum file=yarel/src/object.rs name=ObjUpvalueState map "*mut Value" => "usize"
//@struct file=yarel/src/object.rs name=ObjUpvalue

// the value stacks as far as open upvalue cells see them: slot address -> content (object.rs derefs `*mut Value`)
pub struct Mem { pub ghost m: Map<int, Value> }
impl Mem {
    #[verifier::external_body]
    fn read(&self, a: usize) -> (r: Value) requires self.m.dom().contains(a as int) ensures r == self.m[a as int] { unimplemented!() }
    #[verifier::external_body]
    fn write(&mut self, a: usize, v: Value) requires old(self).m.dom().contains(a as int) ensures final(self).m == old(self).m.insert(a as int, v) { unimplemented!() }
}
// THE variable a cell stands for: the stack slot while the declaring scope is live, the cell's own storage afterwards
pub open spec fn var_value(u: ObjUpvalue, m: Map<int, Value>) -> Value {
    match u.data { ObjUpvalueState::Open(a) => m[a as int], ObjUpvalueState::Closed(v) => v }
}

pub open spec fn slot_of(u: ObjUpvalue) -> int {
    match u.data { ObjUpvalueState::Open(a) => a as int, ObjUpvalueState::Closed(_) => -1 }
}

impl ObjUpvalue {
    //@fn file=yarel/src/object.rs path=ObjUpvalue::new ret=r
    //@  sig "*mut Value" => "usize"
    //@  ensures r.data == ObjUpvalueState::Open(address), r.next is None, r.owner is None
    //@end

    // an open upvalue created for a slot of `owner`'s value stack names that fiber (the collector traces it: unit gc_trace)
    //@fn file=yarel/src/object.rs path=ObjUpvalue::with_owner ret=r props=C06,C01
    //@  sig "*mut Value" => "usize"
    //@  ensures r.data == ObjUpvalueState::Open(address), r.next is None, r.owner == Some(owner)
    //@end

    // object.rs get() / set(): an OPEN cell reads / writes the value-stack slot it points at (`unsafe { *a }` becomes a
    // read / write of the memory stand-in `Mem`, keyed by slot address), a CLOSED cell its own storage: `var_value`
    //@fn file=yarel/src/object.rs path=ObjUpvalue::get ret=r props=C06
    //@  sig "(&self)" => "(&self, mem: &Mem)"
    //@  subst "unsafe { *a }" => "mem.read(a)"
    //@  requires self.data matches ObjUpvalueState::Open(a) ==> mem.m.dom().contains(a as int)
    //@  ensures @reading_a_captured_variable_yields_the_variables_value r == var_value(*self, mem.m)
    //@end
    //@fn file=yarel/src/object.rs path=ObjUpvalue::set props=C06
    //@  sig "value: Value)" => "value: Value, mem: &mut Mem)"
    //@  subst "unsafe { *a = value }" => "mem.write(a, value)"
    //@  requires old(self).data matches ObjUpvalueState::Open(a) ==> old(mem).m.dom().contains(a as int)
    //@  ensures @writing_a_captured_variable_sets_the_variable var_value(*final(self), final(mem).m) == value
    //@  ensures final(self).next == old(self).next, final(self).owner == old(self).owner
    //@  ensures @an_open_cell_writes_the_live_stack_slot old(self).data matches ObjUpvalueState::Open(a) ==> final(self).data == old(self).data && final(mem).m == old(mem).m.insert(a as int, value)
    //@  ensures @a_closed_cell_writes_its_own_storage_only old(self).data is Closed ==> final(self).data == ObjUpvalueState::Closed(value) && final(mem).m == old(mem).m
    //@end

    //@fn file=yarel/src/object.rs path=ObjUpvalue::is_open_with_pred ret=r
    //@  sig "*const Value" => "usize"
    //@  requires forall|a: usize| predicate.requires((a,))
    //@  ensures match self.data { ObjUpvalueState::Open(a) => predicate.ensures((a,), r), ObjUpvalueState::Closed(_) => !r }
    //@end

    //@fn file=yarel/src/object.rs path=ObjUpvalue::close props=C06,C01
    //@  sig "(&mut self)" => "(&mut self, mem: &Mem)"
    //@  subst "self.get()" => "self.get(mem)"
    //@  requires old(self).data matches ObjUpvalueState::Open(a) ==> mem.m.dom().contains(a as int)
    //@  ensures final(self).data is Closed, final(self).next == old(self).next
    //@  ensures @closing_takes_the_variables_value_along final(self).data == ObjUpvalueState::Closed(var_value(*old(self), mem.m))
    //@  ensures @a_closed_upvalue_no_longer_pins_the_fiber final(self).owner is None
    //@  ensures old(self).data matches ObjUpvalueState::Closed(v) ==> final(self).data == ObjUpvalueState::Closed(v)
    //@end
}

pub type UvCell = Gc<RefCell<ObjUpvalue>>;

// the heap cells holding upvalues, as far as their content is concerned (memory.rs Gc / RefCell by contract)
pub struct UvHeap { pub ghost cells: Map<int, ObjUpvalue> }
impl UvHeap {
    #[verifier::external_body]
    fn get(&self, g: UvCell) -> (r: &ObjUpvalue)
        requires self.cells.dom().contains(g.id())
        ensures *r == self.cells[g.id()]
    { unimplemented!() }
    #[verifier::external_body]
    fn get_mut(&mut self, g: UvCell) -> (r: &mut ObjUpvalue)
        requires old(self).cells.dom().contains(g.id())
        ensures *r == old(self).cells[g.id()], final(self).cells == old(self).cells.insert(g.id(), *final(r)),
    { unimplemented!() }
    // Root::new(RefCell::new(data)): a fresh cell
    #[verifier::external_body]
    fn alloc(&mut self, data: ObjUpvalue) -> (r: Root<RefCell<ObjUpvalue>>)
        ensures !old(self).cells.dom().contains(r.id()), final(self).cells == old(self).cells.insert(r.id(), data),
    { unimplemented!() }
}

//@struct file=yarel/src/object.rs name=ObjFiber keepfields=open_upvalues,caller addfield "pub uvheap: UvHeap" addfield "pub ghost open_list: Seq<int>" addfield "pub ghost self_id: int" addfield "pub mem: Mem" addfield "pub ghost sp: int"

pub open spec fn slot_at(h: Map<int, ObjUpvalue>, l: Seq<int>, i: int) -> int { slot_of(h[l[i]]) }
pub open spec fn cell_ok(h: Map<int, ObjUpvalue>, l: Seq<int>, i: int) -> bool { h.dom().contains(l[i]) && h[l[i]].data is Open }
pub open spec fn link_ok(h: Map<int, ObjUpvalue>, l: Seq<int>, i: int) -> bool {
    if i + 1 < l.len() { h[l[i]].next matches Some(g) && g.id() == l[i + 1] } else { h[l[i]].next is None }
}
// an open cell names the fiber whose stack its slot belongs to (so tracing the cell keeps that stack alive: C01)
pub open spec fn owner_ok(h: Map<int, ObjUpvalue>, l: Seq<int>, i: int, fid: int) -> bool { h[l[i]].owner matches Some(g) && g.id() == fid }
pub open spec fn head_ok(head: Option<UvCell>, l: Seq<int>) -> bool {
    if l.len() == 0 { head is None } else { head matches Some(g) && g.id() == l[0] }
}

impl ObjFiber {
    // The representation invariant: `open_list` (ghost) enumerates the linked list starting at `open_upvalues`; every
    // cell in it is open; slots strictly descend (so no slot has two cells, and the list is acyclic).
    pub open spec fn wf(&self) -> bool {
        let l = self.open_list;
        let h = self.uvheap.cells;
        &&& head_ok(self.open_upvalues, l)
        &&& (forall|i: int| 0 <= i < l.len() ==> #[trigger] cell_ok(h, l, i))
        &&& (forall|i: int| 0 <= i < l.len() ==> #[trigger] link_ok(h, l, i))
        &&& (forall|i: int| 0 <= i < l.len() ==> #[trigger] owner_ok(h, l, i, self.self_id))
        &&& (forall|i: int, j: int| 0 <= i < j < l.len() ==> #[trigger] slot_at(h, l, i) > #[trigger] slot_at(h, l, j))
    }
}

// every open cell of the list points at a slot that exists (what makes reading through it meaningful)
pub open spec fn live_at(h: Map<int, ObjUpvalue>, l: Seq<int>, m: Map<int, Value>, i: int) -> bool { m.dom().contains(slot_at(h, l, i)) }
impl ObjFiber {
    pub open spec fn live(&self) -> bool { forall|i: int| 0 <= i < self.open_list.len() ==> #[trigger] live_at(self.uvheap.cells, self.open_list, self.mem.m, i) }
}

pub proof fn lemma_distinct(f: ObjFiber)
    requires f.wf()
    ensures forall|i: int, j: int| 0 <= i < f.open_list.len() && 0 <= j < f.open_list.len() && i != j ==> f.open_list[i] != f.open_list[j]
{
    let l = f.open_list; let h = f.uvheap.cells;
    assert forall|i: int, j: int| 0 <= i < l.len() && 0 <= j < l.len() && i != j implies l[i] != l[j] by {
        if i < j { assert(slot_at(h, l, i) > slot_at(h, l, j)); } else { assert(slot_at(h, l, j) > slot_at(h, l, i)); }
    }
}

// C06 "a closure shares the very variable it captured … with every other closure that captured it": a stack slot has at
// most ONE open cell, so two closures whose Closure instruction captured the same slot (closure_impl: "THE open cell of
// slot slot_base + index") hold the same cell — and get_upvalue_impl / set_upvalue_impl read and write through the cell.
//@lemma name=lemma_c06_one_cell_per_captured_slot props=C06
pub proof fn lemma_c06_one_cell_per_captured_slot(f: ObjFiber, a: int, b: int, s: usize)
    requires f.wf(), f.open_list.contains(a), f.open_list.contains(b),
        f.uvheap.cells[a].data == ObjUpvalueState::Open(s), f.uvheap.cells[b].data == ObjUpvalueState::Open(s),
    ensures a == b
{
    let l = f.open_list; let h = f.uvheap.cells;
    let i = choose|i: int| 0 <= i < l.len() && l[i] == a;
    let j = choose|j: int| 0 <= j < l.len() && l[j] == b;
    if i < j { assert(slot_at(h, l, i) > slot_at(h, l, j)); } else if j < i { assert(slot_at(h, l, j) > slot_at(h, l, i)); }
}
// … and a write through one cell (set_upvalue_impl: "writes at most the slot the cell is open on") leaves the variable
// of every OTHER open cell of the fiber as it was: shadowed and neighbouring variables are not disturbed
//@lemma name=lemma_c06_a_write_leaves_other_variables_alone props=C06
pub proof fn lemma_c06_a_write_leaves_other_variables_alone(f: ObjFiber, i: int, j: int, v: Value)
    requires f.wf(), 0 <= i < f.open_list.len(), 0 <= j < f.open_list.len(), i != j
    ensures var_value(f.uvheap.cells[f.open_list[j]], f.mem.m.insert(slot_at(f.uvheap.cells, f.open_list, i), v)) == var_value(f.uvheap.cells[f.open_list[j]], f.mem.m)
{
    let l = f.open_list; let h = f.uvheap.cells;
    assert(cell_ok(h, l, i)); assert(cell_ok(h, l, j));
    if i < j { assert(slot_at(h, l, i) > slot_at(h, l, j)); } else { assert(slot_at(h, l, j) > slot_at(h, l, i)); }
}
// … and the local variable and its open cell are the same storage: GetLocal k reads mem[slot_base + k]
// (get_local_impl), the cell opened on that slot reads the same address (ObjUpvalue::get); after the scope has exited
// the cell holds what the slot held (close_upvalues: "a closed cell holds the value its slot had").
//@lemma name=lemma_c06_open_cell_and_local_are_one_variable props=C06
pub proof fn lemma_c06_open_cell_and_local_are_one_variable(u: ObjUpvalue, m: Map<int, Value>, slot: usize)
    requires u.data == ObjUpvalueState::Open(slot)
    ensures var_value(u, m) == m[slot as int], forall|v: Value| var_value(u, m.insert(slot as int, v)) == v
{}

// closing the head cell and unlinking it keeps the rest of the list well formed
pub proof fn lemma_close_head(f0: ObjFiber, f1: ObjFiber, c: ObjUpvalue)
    requires
        f0.wf(), f0.open_list.len() > 0,
        f1.open_list == f0.open_list.subrange(1, f0.open_list.len() as int),
        f1.uvheap.cells == f0.uvheap.cells.insert(f0.open_list[0], c),
        f1.open_upvalues == f0.uvheap.cells[f0.open_list[0]].next, f1.self_id == f0.self_id,
    ensures
        f1.wf(),
        forall|i: int| 1 <= i < f0.open_list.len() ==> f1.uvheap.cells[#[trigger] f0.open_list[i]] == f0.uvheap.cells[f0.open_list[i]],
{
    let l0 = f0.open_list; let h0 = f0.uvheap.cells; let l1 = f1.open_list; let h1 = f1.uvheap.cells;
    lemma_distinct(f0);
    assert(link_ok(h0, l0, 0));
    assert forall|i: int| 1 <= i < l0.len() implies h1[#[trigger] l0[i]] == h0[l0[i]] by { assert(l0[i] != l0[0]); }
    assert forall|i: int| 0 <= i < l1.len() implies #[trigger] cell_ok(h1, l1, i) by {
        assert(l1[i] == l0[i + 1]); assert(cell_ok(h0, l0, i + 1)); assert(h1[l0[i + 1]] == h0[l0[i + 1]]);
    }
    assert forall|i: int| 0 <= i < l1.len() implies #[trigger] link_ok(h1, l1, i) by {
        assert(l1[i] == l0[i + 1]); assert(link_ok(h0, l0, i + 1)); assert(h1[l0[i + 1]] == h0[l0[i + 1]]);
        if i + 1 < l1.len() { assert(l1[i + 1] == l0[i + 2]); }
    }
    assert forall|i: int| 0 <= i < l1.len() implies #[trigger] owner_ok(h1, l1, i, f1.self_id) by {
        assert(l1[i] == l0[i + 1]); assert(owner_ok(h0, l0, i + 1, f0.self_id)); assert(h1[l0[i + 1]] == h0[l0[i + 1]]);
    }
    assert forall|i: int, j: int| 0 <= i < j < l1.len() implies #[trigger] slot_at(h1, l1, i) > #[trigger] slot_at(h1, l1, j) by {
        assert(l1[i] == l0[i + 1]); assert(l1[j] == l0[j + 1]);
        assert(h1[l0[i + 1]] == h0[l0[i + 1]]); assert(h1[l0[j + 1]] == h0[l0[j + 1]]);
        assert(slot_at(h0, l0, i + 1) > slot_at(h0, l0, j + 1));
    }
    if l1.len() > 0 { assert(l1[0] == l0[1]); }
}

// linking a fresh cell for `location` in at position k (everything before k has a higher slot, everything from k on a lower one)
#[verifier::rlimit(60)]
#[verifier::spinoff_prover]
pub proof fn lemma_capture_insert(f0: ObjFiber, f1: ObjFiber, k: int, c: int, location: usize, up: Option<UvCell>, p1: ObjUpvalue, c1: ObjUpvalue)
    requires
        f0.wf(), 0 <= k <= f0.open_list.len(), !f0.uvheap.cells.dom().contains(c),
        forall|j: int| 0 <= j < k ==> #[trigger] slot_at(f0.uvheap.cells, f0.open_list, j) > location,
        k < f0.open_list.len() ==> slot_at(f0.uvheap.cells, f0.open_list, k) < location,
        k < f0.open_list.len() ==> (up matches Some(g) && g.id() == f0.open_list[k]),
        k == f0.open_list.len() ==> up is None,
        f1.open_list == f0.open_list.insert(k, c),
        k == 0 ==> f1.uvheap.cells =~= f0.uvheap.cells.insert(c, c1),
        k > 0 ==> f1.uvheap.cells =~= f0.uvheap.cells.insert(f0.open_list[k - 1], p1).insert(c, c1),
        c1.data == ObjUpvalueState::Open(location), c1.next == up, (c1.owner matches Some(g) && g.id() == f0.self_id), f1.self_id == f0.self_id,
        k > 0 ==> p1.data == f0.uvheap.cells[f0.open_list[k - 1]].data && p1.owner == f0.uvheap.cells[f0.open_list[k - 1]].owner && (p1.next matches Some(g) && g.id() == c),
        k == 0 ==> (f1.open_upvalues matches Some(g) && g.id() == c),
        k > 0 ==> f1.open_upvalues == f0.open_upvalues,
    ensures
        f1.wf(),
        f1.uvheap.cells[c] == c1,
        forall|j: int| 0 <= j < f0.open_list.len() ==> f1.open_list.contains(#[trigger] f0.open_list[j]) && f1.uvheap.cells[f0.open_list[j]].data == f0.uvheap.cells[f0.open_list[j]].data,
        f1.open_list.contains(c),
        forall|j: int| 0 <= j < f0.open_list.len() ==> #[trigger] slot_at(f0.uvheap.cells, f0.open_list, j) != location,
{
    let l0 = f0.open_list; let h0 = f0.uvheap.cells; let l1 = f1.open_list; let h1 = f1.uvheap.cells;
    lemma_distinct(f0);
    assert(l1.len() == l0.len() + 1);
    assert(l1[k] == c);
    assert forall|j: int| 0 <= j < l0.len() implies h0.dom().contains(#[trigger] l0[j]) && l0[j] != c by { assert(cell_ok(h0, l0, j)); }
    assert forall|j: int| 0 <= j < l0.len() && j != k - 1 implies h1[#[trigger] l0[j]] == h0[l0[j]] by { assert(l0[j] != c); if k > 0 { assert(l0[j] != l0[k - 1]); } }
    if k > 0 { assert(l0[k - 1] != c); assert(h1[l0[k - 1]] == p1); }
    assert forall|j: int| 0 <= j < l0.len() implies l1.contains(#[trigger] l0[j]) && h1[l0[j]].data == h0[l0[j]].data by {
        if j < k { assert(l1[j] == l0[j]); } else { assert(l1[j + 1] == l0[j]); }
    }
    assert forall|i: int| 0 <= i < l1.len() implies #[trigger] cell_ok(h1, l1, i) by {
        if i < k { assert(l1[i] == l0[i]); assert(cell_ok(h0, l0, i)); }
        else if i > k { assert(l1[i] == l0[i - 1]); assert(cell_ok(h0, l0, i - 1)); }
    }
    assert forall|i: int| 0 <= i < l1.len() implies #[trigger] owner_ok(h1, l1, i, f1.self_id) by {
        if i < k { assert(l1[i] == l0[i]); assert(owner_ok(h0, l0, i, f0.self_id)); }
        else if i > k { assert(l1[i] == l0[i - 1]); assert(owner_ok(h0, l0, i - 1, f0.self_id)); }
    }
    assert forall|i: int| 0 <= i < l1.len() implies #[trigger] link_ok(h1, l1, i) by {
        if i < k - 1 { assert(l1[i] == l0[i]); assert(l1[i + 1] == l0[i + 1]); assert(link_ok(h0, l0, i)); }
        else if i == k - 1 { assert(l1[i] == l0[i]); }
        else if i == k { if k < l0.len() { assert(l1[k + 1] == l0[k]); } }
        else { assert(l1[i] == l0[i - 1]); assert(link_ok(h0, l0, i - 1)); if i + 1 < l1.len() { assert(l1[i + 1] == l0[i]); } }
    }
    assert forall|i: int, j: int| 0 <= i < j < l1.len() implies #[trigger] slot_at(h1, l1, i) > #[trigger] slot_at(h1, l1, j) by {
        let i0 = if i < k { i } else { i - 1 };
        let j0 = if j < k { j } else { j - 1 };
        if i != k { assert(l1[i] == l0[i0]); assert(slot_of(h1[l0[i0]]) == slot_of(h0[l0[i0]])); }
        if j != k { assert(l1[j] == l0[j0]); assert(slot_of(h1[l0[j0]]) == slot_of(h0[l0[j0]])); }
        if i != k && j != k { assert(slot_at(h0, l0, i0) > slot_at(h0, l0, j0)); }
        else if i == k { assert(j0 >= k); if j0 > k { assert(slot_at(h0, l0, k) > slot_at(h0, l0, j0)); } }
        else { assert(i0 < k); assert(slot_at(h0, l0, i0) > location); }
    }
    if k > 0 { assert(l1[0] == l0[0]); }
    assert forall|j: int| 0 <= j < l0.len() implies #[trigger] slot_at(h0, l0, j) != location by {
        if j > k { assert(slot_at(h0, l0, k) > slot_at(h0, l0, j)); }
    }
}

// what the loop of close_upvalues leaves behind when it stops at position k
pub proof fn lemma_close_exit(f0: ObjFiber, f1: ObjFiber, k: int, index: usize)
    requires
        f0.wf(), f1.wf(), 0 <= k <= f0.open_list.len(),
        f1.open_list =~= f0.open_list.subrange(k, f0.open_list.len() as int),
        forall|i: int| 0 <= i < k ==> f1.uvheap.cells[#[trigger] f0.open_list[i]].data is Closed && slot_at(f0.uvheap.cells, f0.open_list, i) >= index,
        forall|i: int| k <= i < f0.open_list.len() ==> f1.uvheap.cells[#[trigger] f0.open_list[i]] == f0.uvheap.cells[f0.open_list[i]],
        k < f0.open_list.len() ==> slot_at(f0.uvheap.cells, f0.open_list, k) < index,
    ensures
        forall|i: int| 0 <= i < f0.open_list.len() && slot_at(f0.uvheap.cells, f0.open_list, i) >= index ==> f1.uvheap.cells[#[trigger] f0.open_list[i]].data is Closed && !f1.open_list.contains(f0.open_list[i]),
        forall|i: int| 0 <= i < f0.open_list.len() && slot_at(f0.uvheap.cells, f0.open_list, i) < index ==> f1.uvheap.cells[#[trigger] f0.open_list[i]] == f0.uvheap.cells[f0.open_list[i]] && f1.open_list.contains(f0.open_list[i]),
        forall|i: int| 0 <= i < f1.open_list.len() ==> #[trigger] slot_at(f1.uvheap.cells, f1.open_list, i) < index,
{
    let l0 = f0.open_list; let h0 = f0.uvheap.cells; let l1 = f1.open_list; let h1 = f1.uvheap.cells;
    lemma_distinct(f0);
    assert forall|i: int| 0 <= i < l0.len() && slot_at(h0, l0, i) >= index implies h1[#[trigger] l0[i]].data is Closed && !l1.contains(l0[i]) by {
        if i > k { assert(slot_at(h0, l0, k) > slot_at(h0, l0, i)); }
        assert(i < k);
        if l1.contains(l0[i]) { let j = choose|j: int| 0 <= j < l1.len() && l1[j] == l0[i]; assert(l1[j] == l0[j + k]); }
    }
    assert forall|i: int| 0 <= i < l0.len() && slot_at(h0, l0, i) < index implies h1[#[trigger] l0[i]] == h0[l0[i]] && l1.contains(l0[i]) by {
        assert(i >= k); assert(l1[i - k] == l0[i]);
    }
    assert forall|i: int| 0 <= i < l1.len() implies #[trigger] slot_at(h1, l1, i) < index by {
        assert(l1[i] == l0[i + k]); assert(h1[l0[i + k]] == h0[l0[i + k]]);
        if i > 0 { assert(slot_at(h0, l0, k) > slot_at(h0, l0, i + k)); }
    }
}

impl ObjFiber {
    // Closing from slot `index` upwards: exactly the cells whose slot is >= index leave the list, closed; the others
    // are untouched and stay linked.
    //@fn file=yarel/src/object.rs path=ObjFiber::close_upvalues props=C06,C01,C16
    //@  rewrite R19
    //@  subst "&self.stack[index] as *const _" => "stack_slot_addr(index)"
    //@  subst "self .open_upvalues .unwrap() .borrow()" => "self.uvheap.get(self.open_upvalues.unwrap())"
    //@  subst "upvalue.borrow_mut()" => "self.uvheap.get_mut(upvalue)"
    //@  subst "borrowed_upvalue.close()" => "borrowed_upvalue.close(&self.mem)"
    //@  requires old(self).wf(), old(self).live()
    //@  ensures final(self).wf(), final(self).self_id == old(self).self_id, final(self).mem == old(self).mem, final(self).sp == old(self).sp, final(self).live()
    //@  ensures @a_closed_cell_holds_the_value_its_slot_had forall|i: int| 0 <= i < old(self).open_list.len() && slot_at(old(self).uvheap.cells, old(self).open_list, i) >= index ==> final(self).uvheap.cells[#[trigger] old(self).open_list[i]].data == ObjUpvalueState::Closed(old(self).mem.m[slot_at(old(self).uvheap.cells, old(self).open_list, i)])
    //@  ensures forall|i: int| 0 <= i < old(self).open_list.len() && slot_at(old(self).uvheap.cells, old(self).open_list, i) >= index ==> final(self).uvheap.cells[#[trigger] old(self).open_list[i]].data is Closed && !final(self).open_list.contains(old(self).open_list[i])
    //@  ensures forall|i: int| 0 <= i < old(self).open_list.len() && slot_at(old(self).uvheap.cells, old(self).open_list, i) < index ==> final(self).uvheap.cells[#[trigger] old(self).open_list[i]] == old(self).uvheap.cells[old(self).open_list[i]] && final(self).open_list.contains(old(self).open_list[i])
    //@  ensures forall|i: int| 0 <= i < final(self).open_list.len() ==> #[trigger] slot_at(final(self).uvheap.cells, final(self).open_list, i) < index
    //@  ensures @a_closed_cell_no_longer_links_to_the_open_list forall|i: int| 0 <= i < old(self).open_list.len() && slot_at(old(self).uvheap.cells, old(self).open_list, i) >= index ==> final(self).uvheap.cells[#[trigger] old(self).open_list[i]].next is None
    //@  at body.start let ghost mut k: int = 0; proof { lemma_distinct(*old(self)); }
    //@  loop 0 invariant 0 <= k <= old(self).open_list.len(), self.wf(), old(self).wf(), self.self_id == old(self).self_id, self.mem == old(self).mem, self.sp == old(self).sp, old(self).live()
    //@  loop 0 invariant forall|i: int| 0 <= i < k ==> self.uvheap.cells[#[trigger] old(self).open_list[i]].data == ObjUpvalueState::Closed(old(self).mem.m[slot_at(old(self).uvheap.cells, old(self).open_list, i)])
    //@  loop 0 invariant self.open_list =~= old(self).open_list.subrange(k, old(self).open_list.len() as int)
    //@  loop 0 invariant forall|v: usize| #[trigger] predicate.requires((v,))
    //@  loop 0 invariant forall|v: usize, r: bool| #[trigger] predicate.ensures((v,), r) ==> r == (v >= index)
    //@  loop 0 invariant forall|i: int| 0 <= i < k ==> self.uvheap.cells[#[trigger] old(self).open_list[i]].data is Closed && self.uvheap.cells[old(self).open_list[i]].next is None && slot_at(old(self).uvheap.cells, old(self).open_list, i) >= index
    //@  loop 0 invariant forall|i: int| k <= i < old(self).open_list.len() ==> self.uvheap.cells[#[trigger] old(self).open_list[i]] == old(self).uvheap.cells[old(self).open_list[i]]
    //@  loop 0 invariant self.open_list.len() > 0 ==> cell_ok(self.uvheap.cells, self.open_list, 0)
    //@  loop 0 decreases old(self).open_list.len() - k
    //@  at loop0.start let ghost pre = *self; proof { assert(self.open_list[0] == old(self).open_list[k]); assert(live_at(old(self).uvheap.cells, old(self).open_list, old(self).mem.m, k)); }
    //@  at loop0.end proof { self.open_list = self.open_list.subrange(1, self.open_list.len() as int); lemma_close_head(pre, *self, self.uvheap.cells[pre.open_list[0]]); lemma_distinct(*old(self)); k = k + 1; }
    //@  at body.end proof { if k < old(self).open_list.len() { assert(self.open_list[0] == old(self).open_list[k]); } lemma_close_exit(*old(self), *self, k, index); assert forall|i: int| 0 <= i < self.open_list.len() implies #[trigger] live_at(self.uvheap.cells, self.open_list, self.mem.m, i) by { assert(self.open_list[i] == old(self).open_list[i + k]); assert(live_at(old(self).uvheap.cells, old(self).open_list, old(self).mem.m, i + k)); } }
    //@end
}

// a function constant as far as the Closure instruction is concerned
pub struct FnInfo { pub upvalue_count: usize }
// the closure being created (its upvalue vector is written through `closure.upvalues.borrow_mut()[i] = …`)
pub struct NewClosure { }
pub struct RunningClosure { }
// the VM as far as this unit is concerned: the content of its active fiber; for the Closure instruction: the operand
// bytes ahead, the frame's slot base, the enclosing closure's upvalues and the new closure's upvalue vector
pub struct Vm {
    pub fib: ObjFiber,
    pub ghost fiber_id: int,            // identity of the cell `Vm.fiber` roots (the active fiber; handle coherence: unit `fiber`)
    pub ghost code: Seq<u8>,
    pub ghost ip: int,
    pub ghost slot_base: int,
    pub ghost enclosing: Seq<UvCell>,
    pub ghost fresh: Seq<UvCell>,       // upvalue vector of the closure under construction
    pub ghost next_count: int,          // upvalue_count of the function constant the instruction names
}

impl Vm {
    // the active fiber (vm.rs active_fiber / active_fiber_mut; handle coherence is the subject of unit `fiber`)
    #[verifier::external_body]
    fn active_fiber(&self) -> (r: &ObjFiber) ensures *r == self.fib { unimplemented!() }
    #[verifier::external_body]
    fn active_fiber_mut(&mut self) -> (r: &mut ObjFiber)
        ensures *r == old(self).fib, final(self).fib == *final(r), final(self).code == old(self).code, final(self).ip == old(self).ip,
            final(self).slot_base == old(self).slot_base, final(self).enclosing == old(self).enclosing, final(self).fresh == old(self).fresh, final(self).next_count == old(self).next_count,
            final(self).fiber_id == old(self).fiber_id,
    { unimplemented!() }
    pub open spec fn same_instr(&self, o: &Vm) -> bool { self.code == o.code && self.slot_base == o.slot_base && self.enclosing == o.enclosing && self.next_count == o.next_count && self.fiber_id == o.fiber_id }
    // `self.fiber.as_ref().expect(..).as_gc()`: the handle of the active fiber
    #[verifier::external_body]
    fn active_fiber_handle(&self) -> (r: Gc<RefCell<ObjFiber>>) ensures r.id() == self.fiber_id { unimplemented!() }
    // ---- the Closure instruction's environment (assumed)
    #[verifier::external_body]
    fn read_byte(&mut self) -> (r: u8)
        requires 0 <= old(self).ip < old(self).code.len()
        ensures r == old(self).code[old(self).ip], final(self).ip == old(self).ip + 1, final(self).fib == old(self).fib, old(self).same_instr(final(self)), final(self).fresh == old(self).fresh
    { unimplemented!() }
    // `match self.read_constant() { Value::ObjFunction(f) => f, _ => panic!(…) }`: the function constant (2 operand bytes)
    #[verifier::external_body]
    fn read_function_constant(&mut self) -> (r: FnInfo)
        ensures r.upvalue_count == old(self).next_count, final(self).ip == old(self).ip + 2, final(self).fib == old(self).fib, old(self).same_instr(final(self)), final(self).fresh == old(self).fresh
    { unimplemented!() }
    // vm.rs new_root_obj_closure: a closure with `upvalue_count` placeholder upvalues
    #[verifier::external_body]
    fn new_root_obj_closure(&mut self, function: FnInfo) -> (r: NewClosure)
        ensures final(self).fresh.len() == function.upvalue_count, final(self).ip == old(self).ip, final(self).fib == old(self).fib, old(self).same_instr(final(self))
    { unimplemented!() }
    #[verifier::external_body]
    fn push_closure(&mut self, c: &NewClosure)
        ensures final(self).ip == old(self).ip, final(self).fib == old(self).fib, old(self).same_instr(final(self)), final(self).fresh == old(self).fresh
    { unimplemented!() }
    #[verifier::external_body]
    fn current_slot_base(&self) -> (r: usize) ensures r == self.slot_base { unimplemented!() }
    // `…current_frame().unwrap().closure.upvalues.borrow()[index]`
    #[verifier::external_body]
    fn enclosing_upvalue(&self, index: usize) -> (r: UvCell) requires index < self.enclosing.len() ensures r == self.enclosing[index as int] { unimplemented!() }
    // `closure.upvalues.borrow_mut()[i]` as a place
    #[verifier::external_body]
    fn fresh_slot(&mut self, i: usize) -> (r: &mut UvCell)
        requires i < old(self).fresh.len()
        ensures final(self).fresh == old(self).fresh.update(i as int, *final(r)), final(self).ip == old(self).ip, final(self).fib == old(self).fib, old(self).same_instr(final(self))
    { unimplemented!() }
    // what operand pair i of the instruction says (operands start right behind the function constant)
    pub open spec fn op_is_local(&self, ip0: int, i: int) -> bool { self.code[ip0 + 2 * i] != 0 }
    pub open spec fn op_index(&self, ip0: int, i: int) -> int { self.code[ip0 + 2 * i + 1] as int }

    // ---- variable access instructions: the value stack of the active fiber is the address range 0..sp of `mem`
    // (slot i has address i: stack_slot_addr), Stack::push/peek/index by contract (their own contract: Kani unit `stack`)
    #[verifier::external_body]
    fn push(&mut self, value: Value)
        ensures final(self).fib.mem.m == old(self).fib.mem.m.insert(old(self).fib.sp, value), final(self).fib.sp == old(self).fib.sp + 1,
            final(self).fib.uvheap == old(self).fib.uvheap, final(self).fib.open_list == old(self).fib.open_list, final(self).fib.open_upvalues == old(self).fib.open_upvalues, final(self).fib.self_id == old(self).fib.self_id,
            final(self).ip == old(self).ip, old(self).same_instr(final(self)), final(self).fresh == old(self).fresh
    { unimplemented!() }
    #[verifier::external_body]
    fn peek(&self, depth: usize) -> (r: Value) requires depth < self.fib.sp, self.fib.mem.m.dom().contains(self.fib.sp - 1 - depth) ensures r == self.fib.mem.m[self.fib.sp - 1 - depth] { unimplemented!() }
    // `self.active_fiber().stack[i]` (R25) and `self.active_fiber_mut().stack[i] = v`: out of range is a host panic in the
    // checked configuration and an out-of-bounds access in the optimised one — the obligation
    #[verifier::external_body]
    fn stack_at(&self, i: usize) -> (r: Value) requires i < self.fib.sp, self.fib.mem.m.dom().contains(i as int) ensures r == self.fib.mem.m[i as int] { unimplemented!() }
    #[verifier::external_body]
    fn stack_set(&mut self, i: usize, value: Value)
        requires i < old(self).fib.sp
        ensures final(self).fib.mem.m == old(self).fib.mem.m.insert(i as int, value), final(self).fib.sp == old(self).fib.sp,
            final(self).fib.uvheap == old(self).fib.uvheap, final(self).fib.open_list == old(self).fib.open_list, final(self).fib.open_upvalues == old(self).fib.open_upvalues, final(self).fib.self_id == old(self).fib.self_id,
            final(self).ip == old(self).ip, old(self).same_instr(final(self)), final(self).fresh == old(self).fresh
    { unimplemented!() }
    // `…current_frame().unwrap().closure`: the running closure (its upvalue vector is `enclosing`)
    #[verifier::external_body]
    fn current_closure(&self) -> RunningClosure { unimplemented!() }
    pub open spec fn stack_mapped(&self) -> bool { forall|i: int| 0 <= i < self.fib.sp ==> self.fib.mem.m.dom().contains(i) }
    pub open spec fn operand(&self) -> int { self.code[self.ip] as int }
    // the cell upvalue operand k of the running closure names, and the variable it stands for
    pub open spec fn up_cell(&self, k: int) -> ObjUpvalue { self.fib.uvheap.cells[self.enclosing[k].id()] }
    pub open spec fn up_ok(&self, k: int) -> bool {
        &&& 0 <= k < self.enclosing.len() && self.fib.uvheap.cells.dom().contains(self.enclosing[k].id())
        &&& (self.up_cell(k).data matches ObjUpvalueState::Open(a) ==> self.fib.mem.m.dom().contains(a as int))
    }

    // GetLocal / SetLocal: local `operand` of the running frame IS stack slot slot_base + operand
    //@fn file=yarel/src/vm.rs path=Vm::get_local_impl props=C06,C04
    //@  rewrite R25
    //@  subst "self.active_fiber().current_frame().unwrap().slot_base" => "self.current_slot_base()"
    //@  requires 0 <= old(self).ip < old(self).code.len(), old(self).slot_base >= 0, old(self).stack_mapped(), old(self).slot_base + old(self).operand() < old(self).fib.sp < usize::MAX
    //@  ensures @get_local_pushes_the_content_of_the_named_slot final(self).fib.mem.m == old(self).fib.mem.m.insert(old(self).fib.sp, old(self).fib.mem.m[old(self).slot_base + old(self).operand()]) && final(self).fib.sp == old(self).fib.sp + 1
    //@  ensures final(self).ip == old(self).ip + 1, final(self).fib.uvheap == old(self).fib.uvheap, final(self).fib.open_list == old(self).fib.open_list
    //@end
    //@fn file=yarel/src/vm.rs path=Vm::set_local_impl props=C06,C04
    //@  rewrite R32
    //@  subst "self.active_fiber().current_frame().unwrap().slot_base" => "self.current_slot_base()"
    //@  requires 0 <= old(self).ip < old(self).code.len(), old(self).slot_base >= 0, old(self).stack_mapped(), old(self).slot_base + old(self).operand() < old(self).fib.sp < usize::MAX
    //@  ensures @set_local_overwrites_exactly_the_named_slot_and_keeps_the_value_on_the_stack final(self).fib.mem.m == old(self).fib.mem.m.insert(old(self).slot_base + old(self).operand(), old(self).fib.mem.m[old(self).fib.sp - 1]) && final(self).fib.sp == old(self).fib.sp
    //@  ensures final(self).ip == old(self).ip + 1, final(self).fib.uvheap == old(self).fib.uvheap, final(self).fib.open_list == old(self).fib.open_list
    //@end
    // GetUpvalue / SetUpvalue: captured variable `operand` of the running closure, through its cell
    //@fn file=yarel/src/vm.rs path=Vm::get_upvalue_impl props=C06,C04
    //@  substx "self .active_fiber() .current_frame() .unwrap() .closure .upvalues .borrow()[$1] .borrow() .get()" => "self.active_fiber().uvheap.get(self.enclosing_upvalue($1)).get(&self.active_fiber().mem)"
    //@  requires 0 <= old(self).ip < old(self).code.len(), old(self).up_ok(old(self).operand())
    //@  ensures @get_upvalue_pushes_the_captured_variables_value final(self).fib.mem.m == old(self).fib.mem.m.insert(old(self).fib.sp, var_value(old(self).up_cell(old(self).operand()), old(self).fib.mem.m)) && final(self).fib.sp == old(self).fib.sp + 1
    //@  ensures final(self).ip == old(self).ip + 1, final(self).fib.uvheap == old(self).fib.uvheap, final(self).fib.open_list == old(self).fib.open_list
    //@end
    //@fn file=yarel/src/vm.rs path=Vm::set_upvalue_impl props=C06,C04
    //@  subst "self.active_fiber().current_frame().unwrap().closure" => "self.current_closure()"
    //@  substx "closure.upvalues.borrow_mut()[$1] .borrow_mut() .set($2);" => "{ let verif_cell = self.enclosing_upvalue($1); let verif_f = self.active_fiber_mut(); verif_f.uvheap.get_mut(verif_cell).set($2, &mut verif_f.mem); }"
    //@  requires 0 <= old(self).ip < old(self).code.len(), old(self).up_ok(old(self).operand()), 0 < old(self).fib.sp < usize::MAX, old(self).stack_mapped()
    //@  ensures @set_upvalue_writes_the_captured_variable var_value(final(self).up_cell(old(self).operand()), final(self).fib.mem.m) == old(self).fib.mem.m[old(self).fib.sp - 1]
    //@  ensures @set_upvalue_touches_no_other_cell forall|c: int| c != old(self).enclosing[old(self).operand()].id() && old(self).fib.uvheap.cells.dom().contains(c) ==> final(self).fib.uvheap.cells[c] == old(self).fib.uvheap.cells[c]
    //@  ensures @set_upvalue_writes_at_most_the_slot_the_cell_is_open_on (old(self).up_cell(old(self).operand()).data matches ObjUpvalueState::Open(a) ==> final(self).fib.mem.m == old(self).fib.mem.m.insert(a as int, old(self).fib.mem.m[old(self).fib.sp - 1])) && (old(self).up_cell(old(self).operand()).data is Closed ==> final(self).fib.mem.m == old(self).fib.mem.m)
    //@  ensures final(self).ip == old(self).ip + 1, final(self).fib.sp == old(self).fib.sp, final(self).fib.open_list == old(self).fib.open_list, final(self).enclosing == old(self).enclosing
    //@end

    // Capturing stack slot `location`: the cell already open for that slot is returned (so all closures capturing the
    // variable share one cell), otherwise exactly one fresh cell is linked in at its sorted position; every other open
    // cell keeps its slot and stays in the list.
    //@fn file=yarel/src/vm.rs path=Vm::capture_upvalue ret=r props=C06,C01
    //@  rewrite R19
    //@  subst "unsafe { self.active_fiber().stack.as_ptr().offset(location as isize) }" => "stack_slot_addr(location)"
    //@  subst "let mut prev_upvalue = None;" => "let mut prev_upvalue: Option<UvCell> = None;"
    //@  subst "upvalue.unwrap().borrow()" => "self.active_fiber().uvheap.get(upvalue.unwrap())"
    //@  subst "upvalue.borrow()" => "self.active_fiber().uvheap.get(upvalue)"
    //@  subst "self.fiber.as_ref().expect(\"Expected active fiber.\").as_gc()" => "self.active_fiber_handle()"
    //@  subst "loc_addr as *mut _" => "loc_addr"
    //@  wrap "Root::new(RefCell::new(" => "self.active_fiber_mut().uvheap.alloc("
    //@  subst "uv.borrow_mut()" => "self.active_fiber_mut().uvheap.get_mut(uv)"
    //@  subst "created_upvalue.borrow_mut()" => "self.active_fiber_mut().uvheap.get_mut(created_upvalue.as_gc())"
    //@  requires old(self).fib.wf(), old(self).fib.self_id == old(self).fiber_id
    //@  ensures final(self).fib.wf(), final(self).fib.self_id == old(self).fib.self_id
    //@  ensures final(self).fib.open_list.contains(r.id()) && final(self).fib.uvheap.cells[r.id()].data == ObjUpvalueState::Open(location)
    //@  ensures @open_cell_names_the_fiber_whose_stack_holds_the_variable final(self).fib.uvheap.cells[r.id()].owner matches Some(g) && g.id() == old(self).fiber_id
    //@  ensures forall|i: int| 0 <= i < old(self).fib.open_list.len() ==> final(self).fib.open_list.contains(#[trigger] old(self).fib.open_list[i]) && final(self).fib.uvheap.cells[old(self).fib.open_list[i]].data == old(self).fib.uvheap.cells[old(self).fib.open_list[i]].data
    //@  ensures (exists|i: int| 0 <= i < old(self).fib.open_list.len() && #[trigger] slot_at(old(self).fib.uvheap.cells, old(self).fib.open_list, i) == location) ==> final(self).fib.open_list == old(self).fib.open_list && final(self).fib.uvheap.cells == old(self).fib.uvheap.cells
    //@  ensures final(self).fib.open_list.len() <= old(self).fib.open_list.len() + 1
    //@  ensures final(self).ip == old(self).ip, old(self).same_instr(final(self)), final(self).fresh == old(self).fresh
    //@  at body.start let ghost mut k: int = 0; proof { lemma_distinct(old(self).fib); }
    //@  loop 0 invariant 0 <= k <= self.fib.open_list.len(), self.fib == old(self).fib, self.fib.wf(), loc_addr == location
    //@  loop 0 invariant self.ip == old(self).ip, old(self).same_instr(self), self.fresh == old(self).fresh
    //@  loop 0 invariant k < self.fib.open_list.len() ==> (upvalue matches Some(g) && g.id() == self.fib.open_list[k])
    //@  loop 0 invariant k == self.fib.open_list.len() ==> upvalue is None
    //@  loop 0 invariant k > 0 ==> (prev_upvalue matches Some(g) && g.id() == self.fib.open_list[k - 1])
    //@  loop 0 invariant k == 0 ==> prev_upvalue is None
    //@  loop 0 invariant forall|v: usize| #[trigger] predicate.requires((v,))
    //@  loop 0 invariant forall|v: usize, r: bool| #[trigger] predicate.ensures((v,), r) ==> r == (v > loc_addr)
    //@  loop 0 invariant forall|i: int| 0 <= i < k ==> #[trigger] slot_at(self.fib.uvheap.cells, self.fib.open_list, i) > location
    //@  loop 0 invariant k < self.fib.open_list.len() ==> cell_ok(self.fib.uvheap.cells, self.fib.open_list, k)
    //@  loop 0 decreases self.fib.open_list.len() - k
    //@  at loop0.start proof { assert(cell_ok(self.fib.uvheap.cells, self.fib.open_list, k)); assert(link_ok(self.fib.uvheap.cells, self.fib.open_list, k)); }
    //@  at loop0.end proof { k = k + 1; if k < self.fib.open_list.len() { assert(cell_ok(self.fib.uvheap.cells, self.fib.open_list, k)); } }
    //@  before_stmt "return upvalue;" proof { assert(owner_ok(self.fib.uvheap.cells, self.fib.open_list, k, self.fib.self_id)); }
    //@  before_stmt "let created_upvalue =" proof { if k > 0 { assert(cell_ok(self.fib.uvheap.cells, self.fib.open_list, k - 1)); } }
    //@  at body.tail proof { self.fib.open_list = self.fib.open_list.insert(k, created_upvalue.id()); lemma_capture_insert(old(self).fib, self.fib, k, created_upvalue.id(), location, upvalue, if k > 0 { self.fib.uvheap.cells[old(self).fib.open_list[k - 1]] } else { self.fib.uvheap.cells[created_upvalue.id()] }, self.fib.uvheap.cells[created_upvalue.id()]); }
    //@end

    // The Closure instruction: operand pair i says either "local slot `index` of the running frame" — then upvalue i of
    // the new closure is THE open cell of stack slot slot_base + index (shared with every other closure that captured
    // that variable, capture_upvalue) — or "upvalue `index` of the running closure" — then it is that very cell.
    //@fn file=yarel/src/vm.rs path=Vm::closure_impl
    //@  subst "let function = match self.read_constant() { Value::ObjFunction(underlying) => underlying, _ => panic!(\"Expected ObjFunction.\"), };" => "let function = self.read_function_constant();"
    //@  subst "let closure = self.new_root_obj_closure(function, self.active_module); self.push(Value::ObjClosure(closure.as_gc()));" => "let closure = self.new_root_obj_closure(function); self.push_closure(&closure);"
    //@  subst "self.active_fiber().current_frame().unwrap().slot_base" => "self.current_slot_base()"
    //@  subst "closure.upvalues.borrow_mut()[i] =" => "*self.fresh_slot(i) ="
    //@  subst "self.active_fiber() .current_frame() .unwrap() .closure .upvalues .borrow()[index]" => "self.enclosing_upvalue(index)"
    //@  requires old(self).fib.wf(), old(self).fib.self_id == old(self).fiber_id, old(self).ip >= 0, old(self).slot_base >= 0, old(self).slot_base + 256 < usize::MAX
    //@  requires 0 <= old(self).next_count, old(self).ip + 2 + 2 * old(self).next_count <= old(self).code.len()
    //@  requires forall|i: int| 0 <= i && !old(self).op_is_local(old(self).ip + 2, i) ==> #[trigger] old(self).op_index(old(self).ip + 2, i) < old(self).enclosing.len()
    //@  ensures final(self).fib.wf()
    //@  ensures @captured_local_is_the_open_cell_of_that_slot forall|i: int| 0 <= i < final(self).fresh.len() && old(self).op_is_local(old(self).ip + 2, i) ==> final(self).fib.open_list.contains((#[trigger] final(self).fresh[i]).id()) && final(self).fib.uvheap.cells[final(self).fresh[i].id()].data == ObjUpvalueState::Open((old(self).slot_base + old(self).op_index(old(self).ip + 2, i)) as usize)
    //@  ensures @captured_upvalue_is_the_enclosing_closures_cell forall|i: int| 0 <= i < final(self).fresh.len() && !old(self).op_is_local(old(self).ip + 2, i) ==> #[trigger] final(self).fresh[i] == old(self).enclosing[old(self).op_index(old(self).ip + 2, i)]
    //@  ensures forall|j: int| 0 <= j < old(self).fib.open_list.len() ==> final(self).fib.open_list.contains(#[trigger] old(self).fib.open_list[j]) && final(self).fib.uvheap.cells[old(self).fib.open_list[j]].data == old(self).fib.uvheap.cells[old(self).fib.open_list[j]].data
    //@  loop 0 iter it
    //@  at loop0.start proof { assert(old(self).op_index(old(self).ip + 2, i as int) == self.code[self.ip + 1] as int); assert(old(self).op_is_local(old(self).ip + 2, i as int) == (self.code[self.ip] != 0)); }
    //@  loop 0 invariant it.snapshot.start == 0, it.snapshot.end == upvalue_count, upvalue_count == self.fresh.len()
    //@  loop 0 invariant self.fib.wf(), self.fib.self_id == self.fiber_id, old(self).same_instr(self), self.ip == old(self).ip + 2 + 2 * it.index@
    //@  loop 0 invariant old(self).ip >= 0, old(self).slot_base >= 0, old(self).slot_base + 256 < usize::MAX, upvalue_count == old(self).next_count, old(self).ip + 2 + 2 * old(self).next_count <= old(self).code.len()
    //@  loop 0 invariant forall|i: int| 0 <= i && !old(self).op_is_local(old(self).ip + 2, i) ==> #[trigger] old(self).op_index(old(self).ip + 2, i) < old(self).enclosing.len()
    //@  loop 0 invariant forall|i: int| 0 <= i < it.index@ && old(self).op_is_local(old(self).ip + 2, i) ==> self.fib.open_list.contains((#[trigger] self.fresh[i]).id()) && self.fib.uvheap.cells[self.fresh[i].id()].data == ObjUpvalueState::Open((old(self).slot_base + old(self).op_index(old(self).ip + 2, i)) as usize)
    //@  loop 0 invariant forall|i: int| 0 <= i < it.index@ && !old(self).op_is_local(old(self).ip + 2, i) ==> #[trigger] self.fresh[i] == old(self).enclosing[old(self).op_index(old(self).ip + 2, i)]
    //@  loop 0 invariant forall|j: int| 0 <= j < old(self).fib.open_list.len() ==> self.fib.open_list.contains(#[trigger] old(self).fib.open_list[j]) && self.fib.uvheap.cells[old(self).fib.open_list[j]].data == old(self).fib.uvheap.cells[old(self).fib.open_list[j]].data
    //@end
}

} // verus!
fn main() {}
