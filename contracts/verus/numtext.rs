//@unit numtext
//@property C19
// "a numeric literal in source denotes the double nearest to its decimal text" (yarel/src/compiler.rs Parser::number):
// the constant emitted for a number token is what the standard library's correctly rounded parser makes of the WHOLE
// token text — `nearest_double` is std's `str::parse::<f64>` (trusted to be correctly rounded, as documented) — and a
// text std rejects is a compile error, never a silently different number.
use vstd::prelude::*;
verus! {

global size_of usize == 8;

//@enum file=yarel/src/value.rs name=Value keep=Number other=Other
pub struct ParseFloatError { }
// std: `<f64 as FromStr>::from_str`, correctly rounded (round-to-nearest-even) for every decimal text it accepts
pub uninterp spec fn nearest_double(text: Seq<char>) -> Option<f64>;
#[verifier::external_body]
fn std_parse_f64(text: &String) -> (r: Result<f64, ParseFloatError>)
    ensures match nearest_double(text@) { Some(x) => r == Ok::<f64, ParseFloatError>(x), None => r is Err }
{ unimplemented!() }

//@struct file=yarel/src/scanner.rs name=Token keepfields=source
//@struct file=yarel/src/compiler.rs name=Parser keepfields=previous map "Parser<'a>" => "Parser" addfield "pub ghost emitted: Seq<Value>" addfield "pub ghost had_error: bool"

impl Parser {
    #[verifier::external_body]
    fn error(&mut self, message: &str)
        ensures final(self).had_error, final(self).emitted == old(self).emitted, final(self).previous == old(self).previous
    { unimplemented!() }
    // compiler.rs emit_constant (unit `compiler`, C04): the value goes into the constant pool and a Constant
    // instruction naming it is emitted
    #[verifier::external_body]
    fn emit_constant(&mut self, value: Value)
        ensures final(self).emitted == old(self).emitted.push(value), final(self).had_error == old(self).had_error, final(self).previous == old(self).previous
    { unimplemented!() }

    //@fn file=yarel/src/compiler.rs path=Parser::number
    //@  subst "s.previous.source.as_str().parse::<f64>()" => "std_parse_f64(&s.previous.source)"
    //@  subst "value::Value::Number" => "Value::Number"
    //@  ensures @a_literal_denotes_the_double_nearest_to_its_text nearest_double(old(s).previous.source@) matches Some(x) ==> final(s).emitted == old(s).emitted.push(Value::Number(x)) && final(s).had_error == old(s).had_error
    //@  ensures @unparsable_number_text_is_a_compile_error nearest_double(old(s).previous.source@) is None ==> final(s).had_error && final(s).emitted == old(s).emitted
    //@end
}

} // verus!
fn main() {}
