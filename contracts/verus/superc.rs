//@unit superc
//@property C07
// Compile-time side of `super.m` / `super.m(args)` (yarel/src/compiler.rs Parser::super_, Parser::receiver_name): the
// receiver handed to the superclass method is the receiver of the enclosing METHOD — also when `super` is used inside a
// function nested in the method (where it is reached as a captured variable) — and the class dispatched on is the
// variable named `super` (the hidden local class_declaration creates for the declared superclass).
use vstd::prelude::*;
verus! {

global size_of usize == 8;

//@enum file=yarel/src/chunk.rs name=OpCode
pub uninterp spec fn opcode_byte(op: OpCode) -> u8;
#[verifier::external_body]
fn opcode_u8(op: OpCode) -> (r: u8) ensures r == opcode_byte(op) { op as u8 }
//@enum file=yarel/src/scanner.rs name=TokenKind
pub struct Token { pub kind: TokenKind, pub line: usize, pub source: String }
impl Token {
    #[verifier::external_body]
    fn from_string(s: &str) -> (r: Token) ensures r.source@ == s@ { unimplemented!() }
}
#[verifier::external_body]
fn token_clone(t: &Token) -> (r: Token) ensures r == *t { unimplemented!() }
#[verifier::external_body]
fn string_is_empty(s: &String) -> (r: bool) ensures r == (s@.len() == 0) { unimplemented!() }
#[verifier::external_body]
fn string_clone(s: &String) -> (r: String) ensures r@ == s@ { unimplemented!() }
#[verifier::external_body]
fn string_new() -> (r: String) ensures r@.len() == 0 { unimplemented!() }

//@struct file=yarel/src/compiler.rs name=Local
//@enum file=yarel/src/compiler.rs name=FunctionKind eq=1
//@struct file=yarel/src/compiler.rs name=Compiler keepfields=locals,kind
//@struct file=yarel/src/compiler.rs name=ClassCompiler

// std `==` between a String and a str: same characters
#[verifier::external_body]
fn str_eq(a: &String, b: &str) -> (r: bool) ensures r == (a@ == b@) { unimplemented!() }

pub struct Parser {
    pub previous: Token,
    pub compilers: Vec<Compiler>,
    pub class_compilers: Vec<ClassCompiler>,
    pub ghost resolved: Seq<Seq<char>>,     // the names handed to named_variable, in order
    pub ghost had_error: bool,
    pub ghost tail_ops: Seq<u8>,            // bytes emitted one by one since the last variable access was compiled
}

// the receiver's variable name: slot 0 of the innermost compiler that names its slot 0 (methods: `self` / `Self`;
// plain functions nested in a method call their slot 0 "")
pub open spec fn receiver_of(cs: Seq<Compiler>) -> Seq<char>
    decreases cs.len()
{
    if cs.len() == 0 { Seq::<char>::empty() }
    else if cs.last().locals@.len() > 0 && cs.last().locals@[0].name@.len() > 0 { cs.last().locals@[0].name@ }
    else { receiver_of(cs.drop_last()) }
}

impl Parser {
    pub open spec fn wf(&self) -> bool { self.compilers@.len() > 0 && forall|i: int| 0 <= i < self.compilers@.len() ==> (#[trigger] self.compilers@[i]).locals@.len() > 0 }
    pub open spec fn quiet(&self, o: &Parser) -> bool { self.compilers == o.compilers && self.class_compilers == o.class_compilers && self.resolved == o.resolved && self.tail_ops == o.tail_ops && (self.had_error ==> o.had_error) }

    #[verifier::external_body]
    fn compiler(&self) -> (r: &Compiler) requires self.compilers@.len() > 0 ensures *r == self.compilers@.last() { unimplemented!() }
    #[verifier::external_body]
    fn error(&mut self, message: &str) ensures final(self).compilers == old(self).compilers, final(self).class_compilers == old(self).class_compilers, final(self).resolved == old(self).resolved, final(self).tail_ops == old(self).tail_ops, final(self).had_error { unimplemented!() }
    #[verifier::external_body]
    fn consume(&mut self, kind: TokenKind, message: &str) ensures old(self).quiet(final(self)) { unimplemented!() }
    #[verifier::external_body]
    fn match_token(&mut self, kind: TokenKind) -> bool ensures old(self).quiet(final(self)) { unimplemented!() }
    #[verifier::external_body]
    fn identifier_constant(&mut self, token: &Token) -> u16 ensures old(self).quiet(final(self)) { unimplemented!() }
    #[verifier::external_body]
    fn argument_list(&mut self, right_delim: TokenKind, count_msg: &str, delim_msg: &str) -> u8 ensures old(self).quiet(final(self)) { unimplemented!() }
    #[verifier::external_body]
    fn emit_constant_op(&mut self, opcode: OpCode, constant: u16) ensures old(self).quiet(final(self)) { unimplemented!() }
    #[verifier::external_body]
    fn emit_byte(&mut self, byte: u8) ensures final(self).compilers == old(self).compilers, final(self).class_compilers == old(self).class_compilers, final(self).resolved == old(self).resolved, final(self).had_error == old(self).had_error, final(self).tail_ops == old(self).tail_ops.push(byte) { unimplemented!() }
    // compiler.rs named_variable: resolves the name (local, captured variable, global — C06) and emits the access
    #[verifier::external_body]
    fn named_variable(&mut self, name: Token, can_assign: bool)
        ensures final(self).resolved == old(self).resolved.push(name.source@), final(self).tail_ops == Seq::<u8>::empty(), final(self).compilers@.len() == old(self).compilers@.len(), final(self).class_compilers == old(self).class_compilers, old(self).had_error ==> final(self).had_error
    { unimplemented!() }

    //@fn file=yarel/src/compiler.rs path=Parser::receiver_name ret=r
    //@  rewrite R5
    //@  subst "!name.is_empty()" => "!string_is_empty(name)"
    //@  subst "name.clone()" => "string_clone(name)"
    //@  subst "String::new()" => "string_new()"
    //@  requires self.wf()
    //@  ensures r@ == receiver_of(self.compilers@)
    //@  loop 0 invariant self.wf(), 0 <= __k0 <= self.compilers@.len(), receiver_of(self.compilers@) == receiver_of(self.compilers@.take(__k0 as int))
    //@  loop 0 decreases __k0
    //@  at body.start proof { assert(self.compilers@.take(self.compilers@.len() as int) =~= self.compilers@); }
    //@  at loop0.start proof { assert(self.compilers@.take(__k0 as int).drop_last() =~= self.compilers@.take(__k0 - 1)); assert(self.compilers@.take(__k0 as int).last() == self.compilers@[__k0 - 1]); }
    //@end

    // compiler.rs Parser::variable: resolves the token just consumed like any other name
    #[verifier::external_body]
    fn variable(s: &mut Parser, can_assign: bool)
        ensures final(s).resolved == old(s).resolved.push(old(s).previous.source@), final(s).tail_ops == Seq::<u8>::empty(), final(s).compilers@.len() == old(s).compilers@.len(), final(s).class_compilers == old(s).class_compilers, old(s).had_error ==> final(s).had_error
    { unimplemented!() }
    // `self` names the receiver of the ENCLOSING METHOD, however many plain functions lie in between; where that method is
    // a static method (its slot 0 is called `Self`) there is no receiver: a compile error, not whatever an outer
    // function happens to call its slot 0
    //@fn file=yarel/src/compiler.rs path=Parser::self_
    //@  rewrite R29
    //@  requires old(s).wf()
    //@  ensures @self_inside_a_static_method_is_a_compile_error_however_deeply_nested (old(s).class_compilers@.len() > 0 && receiver_of(old(s).compilers@) == "Self"@) ==> final(s).had_error && final(s).resolved == old(s).resolved
    //@  ensures @self_outside_a_class_is_a_compile_error old(s).class_compilers@.len() == 0 ==> final(s).had_error && final(s).resolved == old(s).resolved
    //@end

    // `Self`: the variable named `Self` (slot 0 of the enclosing static method, reached as a captured variable from
    // functions nested in it), then GetClass — which leaves a class as it is (classes/Vm::get_class_impl)
    //@fn file=yarel/src/compiler.rs path=Parser::cap_self
    //@  rewrite R21
    //@  ensures @cap_self_outside_a_class_is_a_compile_error old(s).class_compilers@.len() == 0 ==> final(s).had_error && final(s).resolved == old(s).resolved && final(s).tail_ops == old(s).tail_ops
    //@  ensures @cap_self_reads_the_variable_the_token_names_and_takes_its_class old(s).class_compilers@.len() > 0 ==> final(s).resolved == old(s).resolved.push(old(s).previous.source@) && final(s).tail_ops == seq![opcode_byte(OpCode::GetClass)]
    //@end

    //@fn file=yarel/src/compiler.rs path=Parser::super_
    //@  subst "s.class_compilers.last().unwrap().has_superclass" => "s.class_compilers[s.class_compilers.len() - 1].has_superclass"
    //@  subst "s.previous.clone()" => "token_clone(&s.previous)"
    //@  subst "s.compiler().locals[0].name.clone()" => "string_clone(&s.compiler().locals[0].name)"
    //@  requires old(s).wf()
    //@  ensures @super_receiver_is_the_enclosing_methods_receiver final(s).resolved.len() == old(s).resolved.len() + 2 && final(s).resolved[old(s).resolved.len() as int] == receiver_of(old(s).compilers@)
    //@  ensures @super_dispatches_on_the_variable_named_super final(s).resolved.len() == old(s).resolved.len() + 2 && final(s).resolved[old(s).resolved.len() as int + 1] == "super"@
    //@end
}

} // verus!
fn main() {}
