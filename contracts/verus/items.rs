//@unit items
//@property C13,C02
// Element access on vectors and tuples (yarel/src/vm.rs Vm::get_item_impl, set_item_impl, vec_get_item, tuple_get_item;
// yarel/src/core.rs vec_push, vec_pop): `v[i] = x` replaces exactly element norm(i) (negative indices count from the
// end) and nothing else; an index that is not an integer in range, or a receiver that is not a Vec, is a reported
// error that leaves the vector unchanged; `c[i]` replaces container and index on the stack by the element; indexing
// anything but a string, tuple or vector is a TypeError; push appends (up to VEC_ELEMS_MAX), pop removes the last
// element or reports an error on an empty vector. No out-of-bounds access, no stack underflow.
use vstd::prelude::*;
verus! {

global size_of usize == 8;

#[verifier::external_body]
#[verifier::accept_recursive_types(T)]
pub struct Gc<T> { p: core::marker::PhantomData<T> }
impl<T> Clone for Gc<T> { #[verifier::external_body] fn clone(&self) -> (r: Self) ensures r == *self { Gc { p: core::marker::PhantomData } } }
impl<T> Copy for Gc<T> {}
impl<T> Gc<T> { pub uninterp spec fn id(&self) -> int; pub uninterp spec fn obj(&self) -> T; }
impl<T> std::ops::Deref for Gc<T> { type Target = T; #[verifier::external_body] fn deref(&self) -> (r: &T) ensures *r == self.obj() { unimplemented!() } }
#[verifier::external_body]
#[verifier::accept_recursive_types(T)]
pub struct Root<T> { p: core::marker::PhantomData<T> }
impl<T> Root<T> { pub uninterp spec fn id(&self) -> int; #[verifier::external_body] fn as_gc(&self) -> (g: Gc<T>) ensures g.id() == self.id() { unimplemented!() } }
pub struct RefCell<T> { pub v: T }
//@enum file=yarel/src/error.rs name=ErrorKind
pub struct Error { pub kind: ErrorKind }
#[verifier::external_body]
fn verif_error(kind: ErrorKind) -> (e: Error) ensures e.kind == kind { Error { kind } }
#[verifier::external_body]
fn error_with_message(kind: ErrorKind) -> (e: Error) ensures e.kind == kind { Error { kind } }
//@const file=yarel/src/common.rs name=VEC_ELEMS_MAX

pub struct ObjString { }
pub struct ObjClass { }
pub struct ObjTuple { pub elements: Vec<Value> }
pub struct ObjVec { pub elements: Vec<Value> }
//@enum file=yarel/src/value.rs name=Value keep=Number,ObjString,ObjTuple,ObjVec,None other=Other
impl Value {
    //@fn file=yarel/src/value.rs path=Value::try_as_obj_vec ret=r
    //@  ensures r == (match *self { Value::ObjVec(g) => Some(g), _ => None })
    //@end
    //@fn file=yarel/src/value.rs path=Value::try_as_obj_tuple ret=r
    //@  ensures r == (match *self { Value::ObjTuple(g) => Some(g), _ => None })
    //@end
    // value.rs try_as_bounded_index (its own contract: unit `index`): Ok(k) iff the value is an integral number whose
    // normalised index lies in 0..bound, and then k is that index
    pub uninterp spec fn index_in(&self, bound: int) -> Option<int>;
    #[verifier::external_body]
    fn try_as_bounded_index(&self, bound: isize, type_name: &str) -> (r: Result<usize, Error>)
        ensures self.index_in(bound as int) is Some ==> (0 <= self.index_in(bound as int)->0 < bound && r == Ok::<usize, Error>(self.index_in(bound as int)->0 as usize)),
            self.index_in(bound as int) is None ==> (r matches Err(e) && (e.kind is IndexError || e.kind is TypeError || e.kind is ValueError)),
    { unimplemented!() }
}
//@enum file=yarel/src/vm.rs name=IndexResult

//@fn file=yarel/src/core.rs path=check_num_args ret=r
//@  rewrite R1
//@  ensures r is Ok <==> num_args == expected
//@  ensures r matches Err(e) ==> e.kind is TypeError
//@end

pub struct ClassStore { }
impl ClassStore { #[verifier::external_body] fn vec_class(&self) -> Gc<ObjClass> { unimplemented!() } }

// the VM as far as element access is concerned: the operand stack of the active fiber, the content of vector cells
pub struct Vm { pub ghost stack: Seq<Value>, pub ghost vecs: Map<int, Seq<Value>>, pub ghost raised: Option<ErrorKind>, pub class_store: ClassStore, pub ghost next_byte: u8 }
impl Vm {
    pub open spec fn top(&self, depth: int) -> Value { self.stack[self.stack.len() - 1 - depth] }
    pub open spec fn vid(&self, depth: int) -> int { self.top(depth)->ObjVec_0.id() }
    pub open spec fn vec_at(&self, depth: int) -> Seq<Value> { self.vecs[self.vid(depth)] }
    // the normalised index the value at depth `di` denotes in the vector at depth `dv` (None: not an integer in range)
    pub open spec fn idx(&self, di: int, dv: int) -> Option<int> { self.top(di).index_in(self.vec_at(dv).len() as int) }
    pub open spec fn vec_ok(&self, depth: int) -> bool { depth < self.stack.len() && (self.top(depth) matches Value::ObjVec(g) ==> self.vecs.dom().contains(g.id()) && self.vecs[g.id()].len() <= isize::MAX) }
    #[verifier::external_body]
    fn peek(&self, depth: usize) -> (r: Value) requires depth < self.stack.len() ensures r == self.top(depth as int) { unimplemented!() }
    #[verifier::external_body]
    fn pop(&mut self) -> (r: Value) requires old(self).stack.len() > 0 ensures r == old(self).stack.last(), final(self).stack == old(self).stack.drop_last(), final(self).vecs == old(self).vecs, final(self).raised == old(self).raised { unimplemented!() }
    #[verifier::external_body]
    fn poke(&mut self, depth: usize, value: Value) requires depth < old(self).stack.len() ensures final(self).stack == old(self).stack.update(old(self).stack.len() - 1 - depth, value), final(self).vecs == old(self).vecs, final(self).raised == old(self).raised { unimplemented!() }
    #[verifier::external_body]
    fn discard(&mut self, num: usize) requires num <= old(self).stack.len() ensures final(self).stack == old(self).stack.take(old(self).stack.len() - num), final(self).vecs == old(self).vecs, final(self).raised == old(self).raised { unimplemented!() }
    // `vec.borrow().elements.len()` / `vec.borrow_mut().elements…` on a vector cell
    #[verifier::external_body]
    fn vec_len_of(&self, g: Gc<RefCell<ObjVec>>) -> (r: usize) requires self.vecs.dom().contains(g.id()) ensures r == self.vecs[g.id()].len() { unimplemented!() }
    #[verifier::external_body]
    fn vec_elements_mut(&mut self, g: Gc<RefCell<ObjVec>>) -> (r: &mut Vec<Value>)
        requires old(self).vecs.dom().contains(g.id())
        ensures r@ == old(self).vecs[g.id()], final(self).vecs == old(self).vecs.insert(g.id(), final(r)@), final(self).stack == old(self).stack, final(self).raised == old(self).raised
    { unimplemented!() }
    // `vec.borrow_mut().elements[index]` as a place: out of range is a host panic (the obligation)
    #[verifier::external_body]
    fn vec_slot_mut(&mut self, g: Gc<RefCell<ObjVec>>, index: usize) -> (r: &mut Value)
        requires old(self).vecs.dom().contains(g.id()), index < old(self).vecs[g.id()].len()
        ensures final(self).vecs == old(self).vecs.insert(g.id(), old(self).vecs[g.id()].update(index as int, *final(r))), final(self).stack == old(self).stack, final(self).raised == old(self).raised
    { unimplemented!() }
    // a failing operation is delivered to the handlers (unit exc: Vm::try_handle_error); Err = nobody caught it
    #[verifier::external_body]
    fn try_handle_error(&mut self, error: Error) -> (r: Result<(), Error>)
        ensures final(self).raised == Some(error.kind), final(self).vecs == old(self).vecs
    { unimplemented!() }
    // indexing natives of the three indexable kinds (string_get_item, slice_get_item: unit `index`)
    #[verifier::external_body]
    fn string_get_item(&mut self) -> (r: Result<(), Error>) ensures final(self).vecs == old(self).vecs, final(self).raised == old(self).raised { unimplemented!() }
    #[verifier::external_body]
    fn slice_get_item_of_vec(&mut self, g: Gc<RefCell<ObjVec>>) -> (r: Result<IndexResult, Error>)
        requires old(self).vecs.dom().contains(g.id())
        ensures final(self).stack == old(self).stack, final(self).vecs == old(self).vecs, final(self).raised == old(self).raised,
            r matches Ok(IndexResult::Scalar(v)) ==> ({ let i = old(self).top(0).index_in(old(self).vecs[g.id()].len() as int); i is Some && v == old(self).vecs[g.id()][i->0] }),
            r matches Ok(IndexResult::Slice(vs)) ==> !(old(self).top(0) is Number) && vs@.len() <= old(self).vecs[g.id()].len() && forall|k: int| 0 <= k < vs@.len() ==> old(self).vecs[g.id()].contains(#[trigger] vs@[k]),
    { unimplemented!() }
    #[verifier::external_body]
    fn slice_get_item(&mut self, elements: &Vec<Value>, kind: &str) -> (r: Result<IndexResult, Error>)
        ensures final(self).stack == old(self).stack, final(self).vecs == old(self).vecs, final(self).raised == old(self).raised,
            r matches Ok(IndexResult::Scalar(v)) ==> ({ let i = old(self).top(0).index_in(elements@.len() as int); i is Some && v == elements@[i->0] }),
            r matches Ok(IndexResult::Slice(vs)) ==> !(old(self).top(0) is Number) && forall|k: int| 0 <= k < vs@.len() ==> elements@.contains(#[trigger] vs@[k]),
    { unimplemented!() }
    // ALLOCATION of a tuple / vector built from values that are not on the stack themselves (a slice): the allocation
    // may run a collection (in the checked configuration it always does), so every element must be reachable from the
    // value stack at that moment — here: be an element of a container that is still on the stack (C01, C10)
    pub open spec fn rooted_via_stack(&self, vs: Seq<Value>) -> bool {
        exists|d: int| 0 <= d < self.stack.len() && (
            (#[trigger] self.stack[d] matches Value::ObjTuple(g) && forall|k: int| 0 <= k < vs.len() ==> g.obj().elements@.contains(#[trigger] vs[k]))
            || (self.stack[d] matches Value::ObjVec(g) && self.vecs.dom().contains(g.id()) && forall|k: int| 0 <= k < vs.len() ==> self.vecs[g.id()].contains(#[trigger] vs[k])))
    }
    #[verifier::external_body]
    fn new_root_obj_tuple(&mut self, elements: Vec<Value>) -> (r: Root<ObjTuple>) requires old(self).rooted_via_stack(elements@) ensures final(self).stack == old(self).stack, final(self).vecs == old(self).vecs, final(self).raised == old(self).raised { unimplemented!() }
    #[verifier::external_body]
    fn new_vec_value(&mut self, class: Gc<ObjClass>, elements: Vec<Value>) -> (r: Value) requires old(self).rooted_via_stack(elements@) ensures final(self).stack == old(self).stack, final(self).raised == old(self).raised, forall|i: int| #[trigger] old(self).vecs.dom().contains(i) ==> final(self).vecs.dom().contains(i) && final(self).vecs[i] == old(self).vecs[i] { unimplemented!() }

    // BuildVec n / BuildTuple n: the n operands on top of the stack become the elements IN THE ORDER THEY WERE PUSHED
    // (the first element of `[a, b, c]` is a) and are replaced by the new container; the operand count cannot exceed
    // what is on the stack (C04: the compiler counts the elements it pushed)
    #[verifier::external_body]
    fn read_byte(&mut self) -> (r: u8) ensures r == old(self).next_byte, final(self).stack == old(self).stack, final(self).vecs == old(self).vecs, final(self).raised == old(self).raised { unimplemented!() }
    #[verifier::external_body]
    fn stack_size(&self) -> (r: usize) ensures r == self.stack.len() { unimplemented!() }
    // `self.active_fiber().stack[begin..end].iter().copied().collect()`
    #[verifier::external_body]
    fn stack_slice(&self, begin: usize, end: usize) -> (r: Vec<Value>) requires begin <= end <= self.stack.len() ensures r@ == self.stack.subrange(begin as int, end as int) { unimplemented!() }
    #[verifier::external_body]
    fn new_root_obj_vec(&mut self) -> (r: Root<RefCell<ObjVec>>)
        ensures !old(self).vecs.dom().contains(r.id()), final(self).vecs == old(self).vecs.insert(r.id(), Seq::<Value>::empty()), final(self).stack == old(self).stack, final(self).raised == old(self).raised, final(self).next_byte == old(self).next_byte
    { unimplemented!() }
    #[verifier::external_body]
    fn set_vec_elements(&mut self, g: Gc<RefCell<ObjVec>>, elements: Vec<Value>)
        requires old(self).vecs.dom().contains(g.id())
        ensures final(self).vecs == old(self).vecs.insert(g.id(), elements@), final(self).stack == old(self).stack, final(self).raised == old(self).raised
    { unimplemented!() }
    #[verifier::external_body]
    fn push(&mut self, value: Value) ensures final(self).stack == old(self).stack.push(value), final(self).vecs == old(self).vecs, final(self).raised == old(self).raised { unimplemented!() }
    #[verifier::external_body]
    fn new_tuple_value(&mut self, elements: Vec<Value>) -> (r: Value)
        ensures r is ObjTuple && r->ObjTuple_0.obj().elements@ == elements@, final(self).stack == old(self).stack, final(self).vecs == old(self).vecs, final(self).raised == old(self).raised
    { unimplemented!() }

    //@fn file=yarel/src/vm.rs path=Vm::build_vec_impl props=C13,C02,C05
    //@  subst "vec.borrow_mut().elements = self.active_fiber().stack[begin..end] .iter() .copied() .collect();" => "let verif_elems = self.stack_slice(begin, end); self.set_vec_elements(vec.as_gc(), verif_elems);"
    //@  requires (old(self).next_byte as int) <= old(self).stack.len()
    //@  ensures @vector_elements_are_the_operands_in_source_order ({ let n = old(self).next_byte as int; final(self).stack.len() == old(self).stack.len() - n + 1 && final(self).stack.drop_last() == old(self).stack.take(old(self).stack.len() - n) && final(self).stack.last() is ObjVec && final(self).vecs.dom().contains(final(self).stack.last()->ObjVec_0.id()) && final(self).vecs[final(self).stack.last()->ObjVec_0.id()] == old(self).stack.subrange(old(self).stack.len() - n, old(self).stack.len() as int) && !old(self).vecs.dom().contains(final(self).stack.last()->ObjVec_0.id()) })
    //@end
    //@fn file=yarel/src/vm.rs path=Vm::build_tuple_impl props=C13,C02,C05
    //@  subst "self.active_fiber().stack[begin..end] .iter() .copied() .collect()" => "self.stack_slice(begin, end)"
    //@  subst "let tuple = self.new_root_obj_tuple(elements); self.discard(num_operands); self.push(Value::ObjTuple(tuple.as_gc()));" => "let tuple = self.new_tuple_value(elements); self.discard(num_operands); self.push(tuple);"
    //@  requires (old(self).next_byte as int) <= old(self).stack.len()
    //@  ensures @tuple_elements_are_the_operands_in_source_order ({ let n = old(self).next_byte as int; final(self).stack.len() == old(self).stack.len() - n + 1 && final(self).stack.drop_last() == old(self).stack.take(old(self).stack.len() - n) && final(self).stack.last() is ObjTuple && final(self).stack.last()->ObjTuple_0.obj().elements@ == old(self).stack.subrange(old(self).stack.len() - n, old(self).stack.len() as int) })
    //@end

    // v[i] = x   (stack: v, i, x): element norm(i) of v becomes x and nothing else changes; the three operands are
    // replaced by nil. Not a vector: TypeError. Bad index: the error try_as_bounded_index reports; v unchanged.
    //@fn file=yarel/src/vm.rs path=Vm::set_item_impl ret=r
    //@  rewrite R1
    //@  subst "vec.borrow().elements.len()" => "self.vec_len_of(vec)"
    //@  subst "let mut borrowed_vec = vec.borrow_mut();" => ""
    //@  subst "borrowed_vec.elements[index] =" => "*self.vec_slot_mut(vec, index) ="
    //@  requires old(self).stack.len() >= 3, old(self).vec_ok(2)
    //@  ensures @assigning_to_a_non_vector_is_a_type_error !(old(self).top(2) is ObjVec) ==> final(self).raised == Some(ErrorKind::TypeError) && final(self).vecs == old(self).vecs
    //@  ensures @bad_index_is_reported_and_leaves_the_vector_unchanged (old(self).top(2) is ObjVec && old(self).idx(1, 2) is None) ==> final(self).raised is Some && final(self).vecs == old(self).vecs
    //@  ensures @exactly_the_indexed_element_is_replaced (old(self).top(2) is ObjVec && old(self).idx(1, 2) is Some) ==> r is Ok && final(self).vecs == old(self).vecs.insert(old(self).vid(2), old(self).vec_at(2).update(old(self).idx(1, 2)->0, old(self).top(0))) && final(self).raised == old(self).raised
    //@  ensures @the_three_operands_become_nil (old(self).top(2) is ObjVec && old(self).idx(1, 2) is Some) ==> final(self).stack == old(self).stack.take(old(self).stack.len() - 3).push(Value::None)
    //@end

    // c[i]   (stack: c, i): anything but a string, tuple or vector is a TypeError
    //@fn file=yarel/src/vm.rs path=Vm::get_item_impl ret=r
    //@  rewrite R1
    //@  requires old(self).stack.len() >= 2, old(self).vec_ok(1)
    //@  ensures @indexing_a_non_indexable_value_is_a_type_error !(old(self).top(1) is ObjString || old(self).top(1) is ObjTuple || old(self).top(1) is ObjVec) ==> final(self).raised == Some(ErrorKind::TypeError) && final(self).vecs == old(self).vecs
    //@end

    // v[i] on a vector: container and index are replaced by the element (or by a new vector for a range)
    // (C01 / C10: the slice is a NEW object — its allocation may run a collection, in the checked configuration it always
    // does —, so container and index must still be on the stack, where the collector finds them, when it is allocated)
    //@fn file=yarel/src/vm.rs path=Vm::vec_get_item ret=r props=C13,C02,C01,C10
    //@  subst ".try_as_obj_vec().expect(\"Expected ObjVec\")" => ".try_as_obj_vec().unwrap()"
    //@  subst "self.slice_get_item(&vec.borrow().elements, \"Vec\")?" => "self.slice_get_item_of_vec(vec)?"
    //@  substx "let $1 = Root::new(RefCell::new(ObjVec::with_elements(class, values))); Value::ObjVec($2.as_gc())" => "self.new_vec_value(class, values)"
    //@  requires old(self).stack.len() >= 2, old(self).top(1) is ObjVec, old(self).vec_ok(1)
    //@  ensures @an_integer_index_yields_exactly_that_element (r is Ok && old(self).top(0) is Number) ==> (old(self).idx(0, 1) is Some && final(self).stack == old(self).stack.take(old(self).stack.len() - 2).push(old(self).vec_at(1)[old(self).idx(0, 1)->0]))
    //@  ensures r is Err ==> final(self).stack == old(self).stack
    //@  ensures forall|i: int| #[trigger] old(self).vecs.dom().contains(i) ==> final(self).vecs.dom().contains(i) && final(self).vecs[i] == old(self).vecs[i]
    //@end

    //@fn file=yarel/src/vm.rs path=Vm::tuple_get_item ret=r props=C13,C02,C01,C10
    //@  subst ".try_as_obj_tuple().expect(\"Expected ObjTuple\")" => ".try_as_obj_tuple().unwrap()"
    //@  subst "let tuple = self.new_root_obj_tuple(values); Value::ObjTuple(tuple.as_gc())" => "{ let tuple = self.new_root_obj_tuple(values); Value::ObjTuple(tuple.as_gc()) }"
    //@  requires old(self).stack.len() >= 2, old(self).top(1) is ObjTuple
    //@  ensures @an_integer_index_yields_exactly_that_element (r is Ok && old(self).top(0) is Number) ==> ({ let es = old(self).top(1)->ObjTuple_0.obj().elements@; let i = old(self).top(0).index_in(es.len() as int); i is Some && final(self).stack == old(self).stack.take(old(self).stack.len() - 2).push(es[i->0]) })
    //@  ensures r is Err ==> final(self).stack == old(self).stack
    //@end
}

// Vec.push(x) / Vec.pop()   (natives: receiver below the arguments)
//@fn file=yarel/src/core.rs path=vec_push ret=r
//@  rewrite R1 R11
//@  subst ".try_as_obj_vec().expect(\"Expected ObjVec\")" => ".try_as_obj_vec().unwrap()"
//@  subst "vec.borrow().elements.len()" => "vm.vec_len_of(vec)"
//@  subst "vec.borrow_mut().elements.push(vm.peek(0));" => "let verif_x = vm.peek(0); vm.vec_elements_mut(vec).push(verif_x);"
//@  requires old(vm).stack.len() >= 2, old(vm).top(1) is ObjVec, old(vm).vec_ok(1)
//@  ensures @push_appends_exactly_one_element (num_args == 1 && old(vm).vecs[old(vm).top(1)->ObjVec_0.id()].len() < VEC_ELEMS_MAX) ==> r is Ok && final(vm).vecs == old(vm).vecs.insert(old(vm).top(1)->ObjVec_0.id(), old(vm).vecs[old(vm).top(1)->ObjVec_0.id()].push(old(vm).top(0)))
//@  ensures @a_full_vector_is_reported_and_unchanged (num_args != 1 || old(vm).vecs[old(vm).top(1)->ObjVec_0.id()].len() >= VEC_ELEMS_MAX) ==> r is Err && final(vm).vecs == old(vm).vecs
//@  ensures final(vm).stack == old(vm).stack
//@end

//@fn file=yarel/src/core.rs path=vec_pop ret=r
//@  rewrite R1
//@  subst ".try_as_obj_vec().expect(\"Expected ObjVec\")" => ".try_as_obj_vec().unwrap()"
//@  subst "let mut borrowed_vec = vec.borrow_mut(); borrowed_vec.elements.pop().ok_or_else(|| { Error::with_message( ErrorKind::RuntimeError, \"Cannot pop from empty Vec instance.\", ) })" => "vm.vec_elements_mut(vec).pop().ok_or(error_with_message(ErrorKind::RuntimeError))"
//@  requires old(vm).stack.len() >= 1, old(vm).top(0) is ObjVec, old(vm).vec_ok(0)
//@  ensures @pop_removes_and_returns_the_last_element (num_args == 0 && old(vm).vecs[old(vm).top(0)->ObjVec_0.id()].len() > 0) ==> r == Ok::<Value, Error>(old(vm).vecs[old(vm).top(0)->ObjVec_0.id()].last()) && final(vm).vecs == old(vm).vecs.insert(old(vm).top(0)->ObjVec_0.id(), old(vm).vecs[old(vm).top(0)->ObjVec_0.id()].drop_last())
//@  ensures @popping_an_empty_vector_is_a_reported_error (num_args == 0 && old(vm).vecs[old(vm).top(0)->ObjVec_0.id()].len() == 0) ==> (r matches Err(e) && e.kind is RuntimeError) && final(vm).vecs[old(vm).top(0)->ObjVec_0.id()] =~= old(vm).vecs[old(vm).top(0)->ObjVec_0.id()]
//@  ensures final(vm).stack == old(vm).stack
//@end

} // verus!
fn main() {}
