//@unit tryc
//@property C08
// Compile-time side of "a try statement that has been left by any path never intercepts later exceptions, and handling
// one exception never disables an outer handler" (yarel/src/compiler.rs): the code emitted for try / return / break /
// continue must keep the run-time handler stack of the function balanced.
//
// `hdepth` (ghost, per function being compiled) is the compile-time model of the number of handler records the
// function has installed when control reaches the code position being emitted: PushExcHandler installs one,
// PopExcHandler and JumpFinally remove exactly one (unit `exc`: Vm::pop_exc_handler_impl, Vm::jump_finally_impl), and
// unwinding to a handler removes exactly that one before control arrives at its catch address (unit `exc`:
// Vm::unwind_stack) — so the catch code is entered with the depth the try statement was entered with, which is also
// the depth after the try block's own PopExcHandler: the linear bookkeeping below is exact at the catch entry.
use vstd::prelude::*;
verus! {

global size_of usize == 8;

//@enum file=yarel/src/chunk.rs name=OpCode discr=opcode_byte
//@enum file=yarel/src/compiler.rs name=FunctionKind eq=1
//@enum file=yarel/src/compiler.rs name=CompilerError
//@enum file=yarel/src/scanner.rs name=TokenKind

// `OpCode::X as u8` (R21): the discriminant of the #[repr(u8)] enum
#[verifier::external_body]
fn opcode_u8(op: OpCode) -> (r: u8) ensures r == opcode_byte(op) { op as u8 }
#[verifier::external_body]
fn function_kind_eq(a: &FunctionKind, b: FunctionKind) -> (r: bool) ensures r == (*a == b) { unimplemented!() }

// effect of one emitted opcode on the handler stack at run time
pub open spec fn heffect(b: u8) -> int {
    if b == opcode_byte(OpCode::PushExcHandler) { 1 }
    else if b == opcode_byte(OpCode::PopExcHandler) || b == opcode_byte(OpCode::JumpFinally) { -1 }
    else { 0 }
}

//@struct file=yarel/src/chunk.rs name=Chunk keepfields=code
//@struct file=yarel/src/compiler.rs name=Compiler keepfields=kind,chunk,try_depth,loop_stack addfield "pub ghost hdepth: int"
impl Compiler {
    //@fn file=yarel/src/compiler.rs path=Compiler::current_loop_header ret=r
    //@  subst "self.loop_stack.last().copied()" => "option_copied(self.loop_stack.last())"
    //@  ensures r is Some <==> self.loop_stack@.len() > 0
    //@  ensures r matches Some(h) ==> h == self.loop_stack@.last()
    //@end
    #[verifier::external_body]
    fn push_break(&mut self, pos: usize) -> (r: Result<(), CompilerError>)
        ensures final(self).ctl() == old(self).ctl(), final(self).chunk == old(self).chunk,
    { unimplemented!() }
    // everything the handler bookkeeping depends on
    pub open spec fn ctl(&self) -> (int, usize, FunctionKind, Seq<(usize, usize, usize)>) {
        (self.hdepth, self.try_depth, self.kind, self.loop_stack@)
    }
    // the compiler's own counter of enclosing try blocks agrees with the handler model; loops recorded it at their header
    pub open spec fn coupled(&self) -> bool {
        self.hdepth == self.try_depth && (forall|i: int| 0 <= i < self.loop_stack@.len() ==> (#[trigger] self.loop_stack@[i]).2 <= self.try_depth)
    }
}
#[verifier::external_body]
fn option_copied(o: Option<&(usize, usize, usize)>) -> (r: Option<(usize, usize, usize)>)
    ensures o is None ==> r is None, o matches Some(p) ==> r == Some(*p),
{ o.copied() }

// the parser as far as this unit is concerned: the innermost function being compiled, and whether an error is on record
pub struct Parser { pub comp: Compiler, pub ghost had_error: bool,
                    pub ghost own_pushes: int,   // PushExcHandler instructions emitted by the statement being compiled itself
                    pub ghost own_pads: int }    // CloseUpvalue instructions emitted by it (the landing pad that drops the exception variable)

impl Parser {
    pub open spec fn code(&self) -> Seq<u8> { self.comp.chunk.code@ }
    // nothing but diagnostics happens
    pub open spec fn quiet(&self, o: &Parser) -> bool { self.comp == o.comp && (self.had_error ==> o.had_error) && self.same_own(o) }
    pub open spec fn same_own(&self, o: &Parser) -> bool { self.own_pushes == o.own_pushes && self.own_pads == o.own_pads }
    // code is appended / patched, handler bookkeeping untouched
    pub open spec fn balanced(&self, o: &Parser) -> bool { self.comp.ctl() == o.comp.ctl() && (self.had_error ==> o.had_error) && self.same_own(o) }

    // compiler.rs compiler() / compiler_mut() / chunk(): the innermost compiler and its chunk
    #[verifier::external_body]
    fn compiler(&self) -> (r: &Compiler) ensures *r == self.comp { unimplemented!() }
    #[verifier::external_body]
    fn compiler_mut(&mut self) -> (r: &mut Compiler) ensures *r == old(self).comp, final(self).comp == *final(r), final(self).had_error == old(self).had_error, old(self).same_own(final(self)) { unimplemented!() }
    #[verifier::external_body]
    fn chunk(&self) -> (r: &Chunk) ensures *r == self.comp.chunk { unimplemented!() }

    // ---- emitters (their byte-level contracts are proved in unit `compiler`; here: what they do to the handler model)
    #[verifier::external_body]
    fn emit_byte(&mut self, byte: u8)
        ensures final(self).own_pushes == old(self).own_pushes + (if byte == opcode_byte(OpCode::PushExcHandler) { 1int } else { 0int }),
            final(self).own_pads == old(self).own_pads + (if byte == opcode_byte(OpCode::CloseUpvalue) { 1int } else { 0int }),
            final(self).code() == old(self).code().push(byte), final(self).comp.hdepth == old(self).comp.hdepth + heffect(byte),
            final(self).comp.try_depth == old(self).comp.try_depth,
            final(self).comp.kind == old(self).comp.kind, final(self).comp.loop_stack == old(self).comp.loop_stack, final(self).had_error == old(self).had_error,
    { unimplemented!() }
    #[verifier::external_body]
    fn emit_bytes(&mut self, bytes: [u8; 2])
        ensures old(self).same_own(final(self)), final(self).code() == old(self).code().push(bytes[0]).push(bytes[1]), final(self).comp.hdepth == old(self).comp.hdepth + heffect(bytes[0]),
            final(self).comp.try_depth == old(self).comp.try_depth,
            final(self).comp.kind == old(self).comp.kind, final(self).comp.loop_stack == old(self).comp.loop_stack, final(self).had_error == old(self).had_error,
    { unimplemented!() }
    #[verifier::external_body]
    fn emit_jump(&mut self, instruction: OpCode) -> (r: usize)
        ensures old(self).same_own(final(self)), final(self).code() == old(self).code().push(opcode_byte(instruction)).push(0xffu8).push(0xffu8),
            final(self).comp.hdepth == old(self).comp.hdepth + heffect(opcode_byte(instruction)),
            final(self).comp.try_depth == old(self).comp.try_depth,
            final(self).comp.kind == old(self).comp.kind, final(self).comp.loop_stack == old(self).comp.loop_stack, final(self).had_error == old(self).had_error,
    { unimplemented!() }
    #[verifier::external_body]
    fn emit_loop(&mut self, loop_start: usize) ensures old(self).balanced(final(self)) { unimplemented!() }
    #[verifier::external_body]
    fn emit_scope_end(&mut self, pop_locals: bool, scope_depth: usize) ensures old(self).balanced(final(self)) { unimplemented!() }
    #[verifier::external_body]
    fn patch_jump(&mut self, offset: usize) ensures old(self).balanced(final(self)), final(self).code().len() == old(self).code().len() { unimplemented!() }
    #[verifier::external_body]
    fn patch_offset_at(&mut self, pos: usize, from: usize) ensures old(self).balanced(final(self)), final(self).code().len() == old(self).code().len() { unimplemented!() }
    #[verifier::external_body]
    fn begin_scope(&mut self) ensures old(self).balanced(final(self)), final(self).code() == old(self).code() { unimplemented!() }
    #[verifier::external_body]
    fn end_scope(&mut self) ensures old(self).balanced(final(self)) { unimplemented!() }
    #[verifier::external_body]
    fn declare_variable(&mut self) ensures old(self).balanced(final(self)), final(self).code() == old(self).code() { unimplemented!() }
    #[verifier::external_body]
    fn mark_initialised(&mut self) ensures old(self).balanced(final(self)), final(self).code() == old(self).code() { unimplemented!() }
    // statements and expressions nested inside: assumed handler-balanced (this is the induction hypothesis of the
    // whole-program argument; for try / return / break / continue it is what this unit proves or refutes)
    #[verifier::external_body]
    fn block(&mut self) ensures old(self).balanced(final(self)) { unimplemented!() }
    #[verifier::external_body]
    fn expression(&mut self) ensures old(self).balanced(final(self)) { unimplemented!() }
    // ---- token stream / diagnostics
    #[verifier::external_body]
    fn consume(&mut self, kind: TokenKind, message: &str) ensures old(self).quiet(final(self)) { unimplemented!() }
    #[verifier::external_body]
    fn match_token(&mut self, kind: TokenKind) -> bool ensures old(self).quiet(final(self)), final(self).had_error == old(self).had_error { unimplemented!() }
    #[verifier::external_body]
    fn error(&mut self, message: &str) ensures final(self).comp == old(self).comp, final(self).had_error, old(self).same_own(final(self)) { unimplemented!() }
    #[verifier::external_body]
    fn error_at_current(&mut self, message: &str) ensures final(self).comp == old(self).comp, final(self).had_error, old(self).same_own(final(self)) { unimplemented!() }
    #[verifier::external_body]
    fn compiler_error(&mut self, error: CompilerError) ensures final(self).comp == old(self).comp, final(self).had_error, old(self).same_own(final(self)) { unimplemented!() }

    // One `opcode` per try block between this point and try-nesting depth `outer_try_depth`.
    //@fn file=yarel/src/compiler.rs path=Parser::emit_try_exits
    //@  requires outer_try_depth <= old(self).comp.try_depth
    //@  ensures final(self).code().len() == old(self).code().len() + (old(self).comp.try_depth - outer_try_depth)
    //@  ensures final(self).comp.hdepth == old(self).comp.hdepth + (old(self).comp.try_depth - outer_try_depth) * heffect(opcode)
    //@  ensures final(self).comp.try_depth == old(self).comp.try_depth, final(self).comp.kind == old(self).comp.kind, final(self).comp.loop_stack == old(self).comp.loop_stack, final(self).had_error == old(self).had_error
    //@  ensures old(self).comp.try_depth > outer_try_depth ==> final(self).code().last() == opcode
    //@  ensures old(self).comp.try_depth == outer_try_depth ==> final(self).code() == old(self).code()
    //@  loop 0 iter it
    //@  loop 0 invariant it.snapshot.start == outer_try_depth, it.snapshot.end == old(self).comp.try_depth
    //@  loop 0 invariant self.code().len() == old(self).code().len() + it.index@, self.comp.hdepth == old(self).comp.hdepth + it.index@ * heffect(opcode)
    //@  loop 0 invariant self.comp.try_depth == old(self).comp.try_depth, self.comp.kind == old(self).comp.kind, self.comp.loop_stack == old(self).comp.loop_stack, self.had_error == old(self).had_error
    //@  loop 0 invariant it.index@ > 0 ==> self.code().last() == opcode
    //@  loop 0 invariant it.index@ == 0 ==> self.code() == old(self).code()
    //@  at loop0.start proof { assert((it.index@ + 1) * heffect(opcode) == it.index@ * heffect(opcode) + heffect(opcode)) by (nonlinear_arith); }
    //@end

    // try statement: whatever path control takes through the emitted code (normal end of the try block, exception
    // caught by the catch block, exception passing through the finally block), the function's handler stack is as
    // deep afterwards as before, and a `return` parked by JumpFinally finds an EndFinally at the handler's finally
    // address (otherwise the parked return would never resume).
    //@fn file=yarel/src/compiler.rs path=Parser::try_statement props=C08,C04,C06
    //@  rewrite R21
    //@  requires old(self).comp.coupled(), old(self).comp.try_depth < usize::MAX
    //@  ensures @handlers_balanced_after_try_statement final(self).had_error || final(self).comp.hdepth == old(self).comp.hdepth
    //@  ensures @every_handler_installed_for_a_catch_block_has_a_landing_pad_that_drops_the_exception_variable final(self).had_error || final(self).own_pads - old(self).own_pads == final(self).own_pushes - old(self).own_pushes - 1
    //@  ensures @parked_return_resumes_at_end_finally final(self).had_error || final(self).code().last() == opcode_byte(OpCode::EndFinally)
    //@  ensures final(self).comp.try_depth == old(self).comp.try_depth, final(self).comp.loop_stack@ == old(self).comp.loop_stack@
    //@  assert @try_block_compiled_one_level_deeper before_stmt "self.compiler_mut().try_depth -= 1#1" self.comp.hdepth == old(self).comp.hdepth + 1 && self.comp.try_depth == old(self).comp.try_depth + 1
    //@  assert @catch_block_runs_under_a_handler_that_leads_to_the_finally_block before_stmt "self.compiler_mut().try_depth -= 1#2" self.comp.hdepth == old(self).comp.hdepth + 1 && self.comp.try_depth == old(self).comp.try_depth + 1
    //@  assert @the_catch_blocks_own_handler_is_removed_before_the_finally_block before_stmt "self.patch_jump(catch_jump_pos)" self.had_error || self.comp.hdepth == old(self).comp.hdepth
    //@end

    // return: when the Return instruction executes, the function must have removed every handler it installed: one
    // JumpFinally per enclosing try block (each removes the innermost handler and runs that try statement's finally).
    //@fn file=yarel/src/compiler.rs path=Parser::emit_return
    //@  rewrite R21
    //@  requires old(self).comp.coupled()
    //@  assert @return_leaves_no_handler_installed before_stmt "self.emit_byte(opcode_u8(OpCode::Return))" self.comp.hdepth == 0
    //@  ensures final(self).comp.try_depth == old(self).comp.try_depth
    //@end
    //@fn file=yarel/src/compiler.rs path=Parser::return_statement
    //@  rewrite R21
    //@  requires old(self).comp.coupled()
    //@  assert @return_leaves_no_handler_installed before_stmt "self.emit_byte(opcode_u8(OpCode::Return))" self.comp.hdepth == 0
    //@end

    // break / continue: the jump leaves every try block entered since the loop header; their handlers must have been
    // removed by the time control arrives at the loop exit / loop header (`loop_stack.last().2`: the depth there).
    //@fn file=yarel/src/compiler.rs path=Parser::break_statement
    //@  rewrite R21
    //@  requires old(self).comp.coupled()
    //@  assert @break_removes_handlers_of_left_try_blocks before_stmt "let break_pos = self.emit_jump(" self.comp.hdepth == self.comp.loop_stack@.last().2
    //@  assert @break_out_of_a_try_statement_runs_its_finally_block after_stmt "self.emit_try_exits(" old(self).comp.try_depth > try_depth ==> self.code().last() == opcode_byte(OpCode::JumpFinally)
    //@end
    //@fn file=yarel/src/compiler.rs path=Parser::continue_statement
    //@  rewrite R21
    //@  requires old(self).comp.coupled()
    //@  assert @continue_removes_handlers_of_left_try_blocks before_stmt "self.emit_loop(" self.comp.hdepth == self.comp.loop_stack@.last().2
    //@  assert @continue_out_of_a_try_statement_runs_its_finally_block after_stmt "self.emit_try_exits(" old(self).comp.try_depth > try_depth ==> self.code().last() == opcode_byte(OpCode::JumpFinally)
    //@end
}

} // verus!
fn main() {}
