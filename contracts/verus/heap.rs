//@unit heap
//@property C16
// Heap pacing and accounting (yarel/src/memory.rs: Heap::{allocate_raw, collect, collect_if_required, default}).
use vstd::prelude::*;
verus! {

global size_of usize == 8;

// The literal growth factor and initial budget in the contracts below come from the PROPERTY statement
// ("growth factor (2)", "initial budget (64 KiB)"); the constants the code uses are extracted from common.rs.
//@const file=yarel/src/common.rs name=HEAP_INIT_BYTES_MAX
//@const file=yarel/src/common.rs name=HEAP_GROWTH_FACTOR

// ------------------------------------------------------------------ collector core and allocation primitives (assumed)
// `objects: Vec<Pin<Box<GcBox<dyn GcManaged>>>>` — opaque; total_bytes is the sum of size_of_val(data) over it.
#[verifier::external_body]
pub struct Objects { _p: u8 }
pub uninterp spec fn total_bytes(o: Objects) -> nat;
pub uninterp spec fn count(o: Objects) -> nat;
pub uninterp spec fn holds_box<T>(o: Objects, p: GcBoxPtr<T>) -> bool;   // the heap owns the box p points to

#[verifier::external_body]
#[verifier::reject_recursive_types(T)]
pub struct GcBoxPtr<T> { p: core::marker::PhantomData<T> }
#[verifier::external_body]
#[verifier::reject_recursive_types(T)]
pub struct PinnedBox<T> { p: core::marker::PhantomData<T> }
// the GcBox<T> a pinned box holds: header (colour, root count) + data
pub struct GcBoxS<T> { pub header: u64, pub data: T }
impl<T> std::ops::Deref for PinnedBox<T> {
    type Target = GcBoxS<T>;
    #[verifier::external_body]
    fn deref(&self) -> (r: &GcBoxS<T>) { unimplemented!() }
}

pub trait GcManaged { }

pub uninterp spec fn spec_size_of<T>() -> nat;
// size_of_val of an arbitrary value: NOT related to the payload size the sweep subtracts (size_of_val(&obj.data))
pub uninterp spec fn spec_size_of_val<X>(x: X) -> nat;
#[verifier::external_body]
fn mem_size_of_val<X>(x: &X) -> (r: usize) ensures r as nat == spec_size_of_val::<X>(*x) { core::mem::size_of_val(x) }
#[verifier::external_body]
fn mem_size_of<T>() -> (r: usize) ensures r as nat == spec_size_of::<T>() { core::mem::size_of::<T>() }

//@struct file=yarel/src/memory.rs name=Heap map "Vec<Pin<Box<GcBox<dyn GcManaged>>>>" => "Objects"

impl Objects {
    // objects.push(boxed): one more object of size_of::<T>() bytes
    #[verifier::external_body]
    fn push<T>(&mut self, b: PinnedBox<T>)
        ensures total_bytes(*final(self)) == total_bytes(*old(self)) + spec_size_of::<T>(), count(*final(self)) == count(*old(self)) + 1,
            holds_box(*final(self), box_ptr(b)),
    { unimplemented!() }
}

// Box::pin(GcBox { colour: White, num_roots: 0, data }) and the raw pointer taken from it (unsafe code, trusted)
pub uninterp spec fn box_ptr<T>(b: PinnedBox<T>) -> GcBoxPtr<T>;
#[verifier::external_body]
fn verif_new_box<T>(data: T) -> (r: (PinnedBox<T>, GcBoxPtr<T>)) ensures box_ptr(r.0) == r.1 { unimplemented!() }

impl Heap {
    // accounting invariant; the bound keeps `bytes_allocated * 2` and `+= size` inside usize (machine-integer assumption)
    spec fn wf(&self) -> bool {
        self.bytes_allocated as nat == total_bytes(self.objects) && self.bytes_allocated <= usize::MAX / 4
    }

    // Collector core (memory.rs mark_roots / trace_references / sweep): iterator adapters over dyn objects, trusted.
    #[verifier::external_body]
    fn mark_roots(&mut self)
        ensures final(self).objects == old(self).objects, final(self).bytes_allocated == old(self).bytes_allocated,
            final(self).collection_threshold == old(self).collection_threshold,
    { unimplemented!() }
    #[verifier::external_body]
    fn trace_references(&mut self)
        ensures final(self).objects == old(self).objects, final(self).bytes_allocated == old(self).bytes_allocated,
            final(self).collection_threshold == old(self).collection_threshold,
    { unimplemented!() }
    // sweep reports exactly the bytes of the objects it removes
    #[verifier::external_body]
    fn sweep(&mut self) -> (freed: usize)
        ensures freed as nat + total_bytes(final(self).objects) == total_bytes(old(self).objects),
            count(final(self).objects) <= count(old(self).objects),
            final(self).bytes_allocated == old(self).bytes_allocated, final(self).collection_threshold == old(self).collection_threshold,
    { unimplemented!() }

    //@fn file=yarel/src/memory.rs path=Heap::collect
    //@  rewrite R10 R11
    //@  requires old(self).wf()
    //@  ensures final(self).wf(), final(self).bytes_allocated <= old(self).bytes_allocated
    //@  ensures final(self).collection_threshold == 2 * final(self).bytes_allocated
    //@  ensures count(final(self).objects) <= count(old(self).objects)
    //@end

    //@fn file=yarel/src/memory.rs path=Heap::collect_if_required
    //@  requires old(self).wf()
    //@  ensures final(self).wf(), final(self).bytes_allocated <= old(self).bytes_allocated
    //@  ensures *final(self) == *old(self) || final(self).collection_threshold == 2 * final(self).bytes_allocated
    //@  ensures final(self).bytes_allocated <= final(self).collection_threshold
    //@  ensures count(final(self).objects) <= count(old(self).objects)
    //@end

    // allocate_raw with `cfg!(any(debug_assertions, feature = "debug_stress_gc"))` turned into the parameter
    // cfg_checked (R10): the contract is proved for BOTH values, i.e. for the checked and the optimised configuration.
    //@fn file=yarel/src/memory.rs path=Heap::allocate_raw ret=r props=C16,C10
    //@  rewrite R10 R12
    //@  subst "let mut boxed = Box::pin(GcBox { colour: Cell::new(Colour::White), num_roots: Cell::new(0), _pin: PhantomPinned, data, });" => "let (boxed, gc_box_ptr) = verif_new_box(data);" count=1
    //@  subst "let gc_box_ptr = unsafe { GcBoxPtr::new_unchecked(boxed.as_mut().get_unchecked_mut()) };" => "" count=1
    //@  sig "T: 'static + GcManaged" => "T: GcManaged"
    //@  requires old(self).wf(), spec_size_of::<T>() <= usize::MAX / 4, old(self).bytes_allocated + spec_size_of::<T>() <= usize::MAX / 4
    //@  ensures final(self).wf()
    //@  ensures final(self).bytes_allocated - spec_size_of::<T>() <= final(self).collection_threshold
    //@  ensures final(self).collection_threshold == old(self).collection_threshold || final(self).collection_threshold == 2 * (final(self).bytes_allocated - spec_size_of::<T>())
    //@  ensures final(self).bytes_allocated <= old(self).bytes_allocated + spec_size_of::<T>()
    //@  ensures count(final(self).objects) <= count(old(self).objects) + 1
    //@  ensures holds_box(final(self).objects, r)
    //@end
}

impl Heap {
    //@fn file=yarel/src/memory.rs path="<Default for Heap>::default" ret=r
    //@  rewrite R11
    //@  subst "objects: Vec::new()," => "objects: verif_no_objects()," count=1
    //@  ensures r.wf(), r.bytes_allocated == 0, r.collection_threshold == 65536
    //@end
}
#[verifier::external_body]
fn verif_no_objects() -> (r: Objects) ensures total_bytes(r) == 0, count(r) == 0 { unimplemented!() }

// Property-level consequence of the contracts above (no code): between collections the heap exceeds
// max(2 x bytes after the previous collection, 64 KiB) by at most the allocation just made.
//@lemma name=lemma_heap_bound props=C16
proof fn lemma_heap_bound(thr_after_prev_collect: int, survivors: int, before: int, after: int, size: int)
    requires
        thr_after_prev_collect == 2 * survivors || thr_after_prev_collect == 65536,
        after - size <= thr_after_prev_collect,      // allocate_raw post#2
    ensures after <= (if 2 * survivors >= 65536 { 2 * survivors } else { 65536 }) + size,
{ }

} // verus!
fn main() {}
