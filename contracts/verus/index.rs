//@unit index
//@property C13
// Index normalisation, slicing bounds and the native iterators (value.rs, object.rs).
use vstd::prelude::*;
use std::ops::Deref;
#[allow(unused_imports)]
use std::cmp;
verus! {

global size_of usize == 8;

// R18: std::cmp::max / min on isize (std, trusted)
#[verifier::external_body]
fn verif_max(a: isize, b: isize) -> (r: isize) ensures r == (if a >= b { a } else { b }) { core::cmp::max(a, b) }
#[verifier::external_body]
fn verif_min(a: isize, b: isize) -> (r: isize) ensures r == (if a <= b { a } else { b }) { core::cmp::min(a, b) }

// ------------------------------------------------------------------ environment stand-ins (assumed)
#[verifier::external_body]
#[verifier::accept_recursive_types(T)]
pub struct Gc<T> { p: core::marker::PhantomData<T> }
impl<T> Clone for Gc<T> { #[verifier::external_body] fn clone(&self) -> (r: Self) ensures r == *self { Gc { p: core::marker::PhantomData } } }
impl<T> Copy for Gc<T> {}
impl<T> Gc<T> {
    pub uninterp spec fn obj(&self) -> T;     // the object a managed pointer designates (kept alive by C01)
}
impl<T> Deref for Gc<T> {
    type Target = T;
    #[verifier::external_body]
    fn deref(&self) -> (r: &T) ensures *r == self.obj() { unimplemented!() }
}

// RefCell stand-in: `.borrow()` gives the content; dynamic borrow flags are not modelled (C02 residual)
pub struct RefCell<T> { pub v: T }
impl<T> RefCell<T> {
    #[verifier::external_body]
    pub fn borrow(&self) -> (r: &T) ensures *r == self.v { &self.v }
}
pub struct Cell<T> { pub v: T }
pub struct ObjClass { }

// `Value`: the real enum restricted to the variants the extracted bodies name (the rest collapsed into Other).
//@enum file=yarel/src/value.rs name=Value keep=Boolean,Number,ObjString,ObjRange,None other=Other
pub uninterp spec fn value_int(v: Value) -> Option<int>;   // Some(i) iff v is a Number holding the mathematical integer i
pub broadcast axiom fn axiom_value_int_number(v: Value)
    ensures (#[trigger] value_int(v)) is Some ==> v is Number;
#[verifier::external_body]
fn number_of_isize(i: isize) -> (v: Value) ensures value_int(v) == Some(i as int), v is Number { unimplemented!() }
#[verifier::external_body]
fn number_of_usize(i: usize) -> (v: Value) ensures value_int(v) == Some(i as int), v is Number { unimplemented!() }

//@enum file=yarel/src/error.rs name=ErrorKind
pub struct Error { pub kind: ErrorKind }
#[verifier::external_body]
fn verif_error(kind: ErrorKind) -> (e: Error) ensures e.kind == kind { Error { kind } }   // R1: message text dropped

// utils::validate_integer: contract proved by Kani on the real function over all f64 (unit utils):
// Ok(i) iff the value is an integral number; i is that integer when |n| < 2^63 (saturated beyond); Err kinds as stated.
pub mod utils {
    use super::*;
    #[verifier::external_body]
    pub fn validate_integer(value: Value) -> (r: Result<isize, Error>)
        ensures
            r matches Ok(i) ==> value_int(value) matches Some(n) && (i as int == n || (n > isize::MAX && i == isize::MAX) || (n < isize::MIN && i == isize::MIN)),
            r matches Err(e) ==> value_int(value) is None && (e.kind is ValueError || e.kind is TypeError),
    { unimplemented!() }
    //@reflect_helpers file=yarel/src/utils.rs prefix=utils::
}

// ObjString: the byte string with its char-boundary predicate (std `str` byte reasoning is outside Verus).
#[verifier::external_body]
pub struct ObjString { _p: u8 }
impl ObjString {
    pub uninterp spec fn blen(&self) -> nat;
    pub uninterp spec fn is_cb(&self, i: int) -> bool;
    pub uninterp spec fn bytes(&self) -> Seq<u8>;      // the UTF-8 byte sequence (bytes().len() == blen())
    #[verifier::external_body]
    pub fn len(&self) -> (r: usize) ensures r == self.blen(), r <= isize::MAX { unimplemented!() }   // std: a str is at most isize::MAX bytes
    #[verifier::external_body]
    pub fn is_char_boundary(&self, i: usize) -> (r: bool) ensures r == self.is_cb(i as int) { unimplemented!() }
    // `as_str()` gives the same byte string (the stand-in does not distinguish ObjString from its &str)
    #[verifier::external_body]
    pub fn as_str(&self) -> (r: &ObjString) ensures *r == *self { unimplemented!() }
    #[verifier::external_body]
    pub fn is_empty(&self) -> (r: bool) ensures r == (self.blen() == 0) { unimplemented!() }
    #[verifier::external_body]
    pub fn as_bytes(&self) -> (r: &[u8]) ensures r@ == self.bytes() { unimplemented!() }
    // `s.chars().count()`: the number of characters = the number of character boundaries below the length (std, trusted)
    #[verifier::external_body]
    pub fn char_count(&self) -> (r: usize) ensures r as int == nb(*self, self.blen() as int), r <= self.blen(), r <= isize::MAX { unimplemented!() }

    //@fn file=yarel/src/object.rs path=ObjString::validate_char_boundary ret=r props=C13,C02
    //@  rewrite R1
    //@  ensures r is Ok <==> self.is_cb(pos as int)
    //@  ensures r matches Err(e) ==> e.kind is IndexError
    //@end
}
// R8: `&s[a..b]` on str. std panics unless a <= b <= len and both are char boundaries: that IS the obligation.
pub struct StrSlice { pub ghost src: ObjString, pub ghost a: int, pub ghost b: int }
#[verifier::external_body]
pub fn str_slice(s: &ObjString, a: usize, b: usize) -> (r: StrSlice)
    requires a <= b <= s.blen(), s.is_cb(a as int), s.is_cb(b as int),
    ensures r.src == *s, r.a == a, r.b == b,
{ unimplemented!() }
// `slice == other` on str: byte comparison (std, trusted)
#[verifier::external_body]
pub fn str_slice_eq(x: &StrSlice, y: &ObjString) -> (r: bool)
    ensures r == (x.src.bytes().subrange(x.a, x.b) == y.bytes())
{ unimplemented!() }
pub broadcast axiom fn axiom_bytes_len(s: ObjString)
    ensures #[trigger] s.bytes().len() == s.blen();
// UTF-8 is self-synchronising: where a valid UTF-8 string occurs inside another as bytes, it starts and ends on
// character boundaries (a property of the encoding; std's str::find relies on it too). Assumed.
pub broadcast axiom fn axiom_utf8_match_on_boundaries(s: ObjString, p: ObjString, i: int)
    requires 0 <= i && i + p.blen() <= s.blen() && #[trigger] s.bytes().subrange(i, i + p.blen()) == p.bytes() && p.blen() > 0
    ensures s.is_cb(i) && s.is_cb(i + p.blen());
// std facts about str::is_char_boundary (documented behaviour of std, assumed)
pub broadcast axiom fn axiom_cb_ends(s: ObjString)
    ensures s.is_cb(0) && s.is_cb(#[trigger] s.blen() as int);
pub broadcast axiom fn axiom_cb_beyond(s: ObjString, i: int)
    requires i > s.blen()
    ensures !#[trigger] s.is_cb(i);
// Valid UTF-8 (String's type invariant): at a character boundary inside the string stands a lead byte, and the next
// boundary is exactly the encoded width of that lead byte further on. Assumed (a property of the encoding).
pub open spec fn utf8_width(b: u8) -> int { if b < 0x80 { 1 } else if b < 0xE0 { 2 } else if b < 0xF0 { 3 } else { 4 } }
pub broadcast axiom fn axiom_utf8_char(s: ObjString, i: int)
    requires 0 <= i < s.blen(), s.is_cb(i)
    ensures ({
        let b = #[trigger] s.bytes()[i];
        let w = utf8_width(b);
        &&& !(0x80 <= b < 0xC2) && b <= 0xF4
        &&& i + w <= s.blen() && s.is_cb(i + w)
        &&& forall|j: int| i < j < i + w ==> !s.is_cb(j)
    });
pub broadcast group axiom_cb { axiom_cb_ends, axiom_cb_beyond }

pub open spec fn norm(x: int, limit: int) -> int { if x < 0 { x + limit } else { x } }

// ------------------------------------------------------------------ C13: indices and ranges
impl Value {
    //@fn file=yarel/src/value.rs path=Value::try_as_bounded_index ret=r props=C13,C02
    //@  rewrite R1
    //@  requires bound >= 0
    //@  ensures r matches Ok(k) ==> value_int(*self) matches Some(n) && 0 <= norm(n, bound as int) < bound && k as int == norm(n, bound as int)
    //@  ensures r matches Err(e) ==> (value_int(*self) is None && (e.kind is ValueError || e.kind is TypeError)) || (value_int(*self) matches Some(n) && !(0 <= norm(n, bound as int) < bound) && e.kind is IndexError)
    //@end
}

//@struct file=yarel/src/object.rs name=ObjRange
impl ObjRange {
    //@fn file=yarel/src/object.rs path=ObjRange::make_bounded_range ret=r props=C13,C02
    //@  rewrite R1 R18
    //@  requires limit >= 0
    //@  ensures r matches Ok((b, e)) ==> 0 <= norm(self.begin as int, limit as int) < limit && 0 <= norm(self.end as int, limit as int) <= limit
    //@  ensures r matches Ok((b, e)) ==> b as int == norm(self.begin as int, limit as int) && e as int == (if norm(self.end as int, limit as int) >= b { norm(self.end as int, limit as int) } else { b as int })
    //@  ensures r matches Ok((b, e)) ==> b <= e <= limit
    //@  ensures r matches Err(e) ==> e.kind is IndexError && !(0 <= norm(self.begin as int, limit as int) < limit && 0 <= norm(self.end as int, limit as int) <= limit)
    //@end
}


// ------------------------------------------------------------------ C13: natives that slice strings / index sequences
// Vm stand-in: only the operand-stack accessors the extracted natives use (assumed: dispatch delivers the receiver kind
// the native is registered on — R7 — and peek/pop/poke do not change the strings they hand out).
#[verifier::external_body]
pub struct Vm { _p: u8 }
impl Vm {
    pub uninterp spec fn slot(&self, depth: int) -> Value;
    #[verifier::external_body]
    pub fn peek(&self, depth: usize) -> (r: Value) ensures r == self.slot(depth as int) { unimplemented!() }
    // the string slices handed to the intern table so far (ghost log): what a string-producing native RETURNS is the
    // string made from the last one (C11: the intern table makes the object with exactly those bytes)
    pub uninterp spec fn interned(&self) -> Seq<StrSlice>;
    #[verifier::external_body]
    pub fn pop(&mut self) -> (r: Value) ensures final(self).interned() == old(self).interned() { unimplemented!() }
    #[verifier::external_body]
    pub fn poke(&mut self, depth: usize, value: Value) ensures final(self).interned() == old(self).interned() { unimplemented!() }
    #[verifier::external_body]
    pub fn new_gc_obj_string(&mut self, data: StrSlice) -> (r: Gc<ObjString>)
        ensures forall|d: int| final(self).slot(d) == old(self).slot(d), final(self).interned() == old(self).interned().push(data)
    { unimplemented!() }

    //@fn file=yarel/src/vm.rs path=Vm::string_get_item ret=r props=C13,C02
    //@  rewrite R1 R8
    //@  subst ".try_as_obj_string() .expect(\"Expected ObjString.\")" => ".try_as_obj_string().unwrap()"
    //@  requires old(self).slot(1) is ObjString
    //@  ensures r matches Err(e) ==> e.kind is IndexError || e.kind is TypeError || e.kind is ValueError
    //@  ensures @a_string_range_selects_exactly_the_bytes_between_its_normalised_bounds (r is Ok && old(self).slot(0) is ObjRange) ==> ({ let st = old(self).slot(1)->ObjString_0.obj(); let rg = old(self).slot(0)->ObjRange_0.obj(); let l = st.blen() as int; let b = norm(rg.begin as int, l); let e0 = norm(rg.end as int, l); let e = if e0 >= b { e0 } else { b }; final(self).interned() == old(self).interned().push(StrSlice { src: st, a: b, b: e }) && st.is_cb(b) && st.is_cb(e) })
    //@  ensures @a_string_range_that_starts_or_ends_inside_a_character_is_an_index_error_empty_or_not (old(self).slot(0) is ObjRange) ==> ({ let st = old(self).slot(1)->ObjString_0.obj(); let rg = old(self).slot(0)->ObjRange_0.obj(); let l = st.blen() as int; let b = norm(rg.begin as int, l); let e0 = norm(rg.end as int, l); let e = if e0 >= b { e0 } else { b }; (!st.is_cb(b) || !st.is_cb(e)) ==> (r matches Err(er) && er.kind is IndexError) && final(self).interned() == old(self).interned() })
    //@  ensures @an_integer_index_selects_exactly_the_character_that_starts_there (r is Ok && old(self).slot(0) is Number) ==> ({ let st = old(self).slot(1)->ObjString_0.obj(); let l = st.blen() as int; value_int(old(self).slot(0)) matches Some(n) && final(self).interned().len() == old(self).interned().len() + 1 && ({ let sl = final(self).interned().last(); sl.src == st && sl.a == norm(n, l) && 0 <= sl.a < sl.b <= l && st.is_cb(sl.a) && st.is_cb(sl.b) && (forall|j: int| sl.a < j < sl.b ==> !st.is_cb(j)) && final(self).interned().drop_last() == old(self).interned() }) })
    //@  ensures @an_integer_index_inside_a_character_is_an_index_error (old(self).slot(0) is Number && value_int(old(self).slot(0)) is Some) ==> ({ let st = old(self).slot(1)->ObjString_0.obj(); let l = st.blen() as int; let k = norm(value_int(old(self).slot(0))->0, l); (!(0 <= k < l) || !st.is_cb(k)) ==> (r matches Err(er) && er.kind is IndexError) })
    //@  at body.start broadcast use axiom_cb; broadcast use axiom_value_int_number; broadcast use axiom_bytes_len; broadcast use axiom_utf8_char;
    //@  loop 0 invariant self.interned() == old(self).interned(), forall|j: int| begin < j < end ==> !string.obj().is_cb(j)
    //@  loop 0 invariant begin < end <= string.obj().blen(), string.obj().blen() <= isize::MAX, string.obj().is_cb(begin as int), begin < string.obj().blen()
    //@  loop 0 decreases string.obj().blen() - end
    //@  at loop0.start proof { axiom_cb_ends(string.obj()); }
    //@end

    //@fn file=yarel/src/vm.rs path=Vm::slice_get_item ret=r props=C13,C02
    //@  rewrite R1
    //@  subst "Vec::from(&elements[begin..end])" => "vec_from_slice(elements, begin, end)" count=1
    //@  requires elements@.len() <= isize::MAX
    //@  ensures r matches Ok(IndexResult::Scalar(v)) ==> old(self).slot(0) is Number && (value_int(old(self).slot(0)) matches Some(n) && 0 <= norm(n, elements@.len() as int) < elements@.len() && v == elements@[norm(n, elements@.len() as int)])
    //@  ensures r matches Ok(IndexResult::Slice(vs)) ==> (old(self).slot(0) matches Value::ObjRange(rg) && { let l = elements@.len() as int; let b = norm(rg.obj().begin as int, l); let e0 = norm(rg.obj().end as int, l); let e = if e0 >= b { e0 } else { b }; 0 <= b < l && 0 <= e0 <= l && vs@ == elements@.subrange(b, e) })
    //@  ensures r matches Err(e) ==> e.kind is IndexError || e.kind is TypeError || e.kind is ValueError
    //@  at body.start broadcast use axiom_value_int_number;
    //@end
}
//@enum file=yarel/src/vm.rs name=IndexResult
#[verifier::external_body]
fn vec_from_slice(elements: &[Value], begin: usize, end: usize) -> (r: Vec<Value>)
    requires begin <= end <= elements@.len(),      // std slicing panics otherwise: the obligation
    ensures r@ == elements@.subrange(begin as int, end as int),
{ unimplemented!() }
impl Value {
    //@fn file=yarel/src/value.rs path=Value::try_as_obj_string ret=r
    //@  ensures r is Some <==> self is ObjString
    //@  ensures r matches Some(g) ==> *self == Value::ObjString(g)
    //@end
}


// ------------------------------------------------------------------ C13: String.find against the byte-level reference model
// the reference model: does `sub` occur in `s` at byte offset i
pub open spec fn occurs_at(s: ObjString, sub: ObjString, i: int) -> bool {
    0 <= i && i + sub.blen() <= s.blen() && s.bytes().subrange(i, i + sub.blen()) == sub.bytes()
}
//@fn file=yarel/src/core.rs path=check_num_args ret=r props=C13,C02
//@  rewrite R1
//@  ensures r is Ok <==> num_args == expected
//@  ensures r matches Err(e) ==> e.kind is TypeError
//@end

//@fn file=yarel/src/core.rs path=string_find ret=r props=C13,C02
//@  rewrite R1 R3 R16 R17
//@  subst ".try_as_obj_string().expect(\"Expected ObjString.\")" => ".try_as_obj_string().unwrap()"
//@  subst "&string[i..i + substring.len()]" => "str_slice(string.as_str(), i, i + substring.len())"
//@  subst "slice == substring.as_str()" => "str_slice_eq(&slice, substring.as_str())"
//@  subst "Value::Number(i as f64)" => "number_of_usize(i)"
//@  requires old(vm).slot(2) is ObjString
//@  ensures r matches Err(e) ==> e.kind is IndexError || e.kind is TypeError || e.kind is ValueError
//@  ensures r is Ok ==> num_args == 2 && (old(vm).slot(1) matches Value::ObjString(sub) && old(vm).slot(2) matches Value::ObjString(s) && value_int(old(vm).slot(0)) matches Some(n) && sub.obj().blen() > 0 && 0 <= norm(n, s.obj().blen() as int) < s.obj().blen() && s.obj().is_cb(norm(n, s.obj().blen() as int)))
//@  ensures r matches Ok(v) ==> (old(vm).slot(1) matches Value::ObjString(sub) && old(vm).slot(2) matches Value::ObjString(s) && value_int(old(vm).slot(0)) matches Some(n) && { let st = norm(n, s.obj().blen() as int); ((v is None) ==> forall|i: int| st <= i ==> !occurs_at(s.obj(), sub.obj(), i)) && ((!(v is None)) ==> (value_int(v) matches Some(i) && st <= i && occurs_at(s.obj(), sub.obj(), i) && forall|j: int| st <= j < i ==> !occurs_at(s.obj(), sub.obj(), j))) })
//@  at body.start broadcast use axiom_cb; broadcast use axiom_value_int_number; broadcast use axiom_bytes_len; broadcast use axiom_utf8_match_on_boundaries;
//@  loop 0 iter it
//@  loop 0 invariant string.obj().blen() <= isize::MAX, substring.obj().blen() > 0, start < string.obj().blen(), num_args == 2
//@  loop 0 invariant old(vm).slot(2) == Value::ObjString(string) && old(vm).slot(1) == Value::ObjString(substring) && string.obj().is_cb(start as int)
//@  loop 0 invariant value_int(old(vm).slot(0)) matches Some(n) && norm(n, string.obj().blen() as int) == start
//@  loop 0 invariant it.snapshot.end <= string.obj().blen(), it.snapshot.end + substring.obj().blen() > string.obj().blen(), it.snapshot.start == start
//@  loop 0 invariant forall|j: int| start <= j < start + it.index@ ==> !occurs_at(string.obj(), substring.obj(), j)
//@  loop 0 invariant vm.slot(0) == old(vm).slot(0) && vm.slot(1) == old(vm).slot(1) && vm.slot(2) == old(vm).slot(2)
//@  at loop0.start broadcast use axiom_cb; broadcast use axiom_bytes_len; broadcast use axiom_utf8_match_on_boundaries; broadcast use axiom_value_int_number;
//@end


// number of character boundaries in [0, i): the index of the character that starts at a boundary i
pub open spec fn nb(s: ObjString, i: int) -> int
    decreases i
{
    if i <= 0 { 0 } else { nb(s, i - 1) + (if s.is_cb(i - 1) { 1int } else { 0int }) }
}
proof fn lemma_nb_mono(s: ObjString, a: int, b: int)
    requires 0 <= a <= b
    ensures nb(s, a) <= nb(s, b)
    decreases b - a
{
    if a < b { lemma_nb_mono(s, a, b - 1); }
}
proof fn lemma_nb_bounds(s: ObjString, i: int)
    requires 0 <= i
    ensures 0 <= nb(s, i) <= i
    decreases i
{
    if i > 0 { lemma_nb_bounds(s, i - 1); }
}

//@fn file=yarel/src/core.rs path=string_char_byte_index ret=r props=C13,C02
//@  rewrite R1
//@  subst ".try_as_obj_string().expect(\"Expected ObjString.\")" => ".try_as_obj_string().unwrap()"
//@  subst "string.as_str().chars().count()" => "string.as_str().char_count()"
//@  subst "Value::Number(i as f64)" => "number_of_usize(i)"
//@  requires old(vm).slot(1) is ObjString
//@  ensures r matches Err(e) ==> e.kind is IndexError || e.kind is TypeError || e.kind is ValueError
//@  ensures r matches Ok(v) ==> num_args == 1 && (old(vm).slot(1) matches Value::ObjString(s) && value_int(old(vm).slot(0)) matches Some(n) && value_int(v) matches Some(i) && { let cnt = nb(s.obj(), s.obj().blen() as int); 0 <= norm(n, cnt) < cnt && 0 <= i < s.obj().blen() && s.obj().is_cb(i) && nb(s.obj(), i) == norm(n, cnt) })
//@  ensures num_args == 1 && (old(vm).slot(1) matches Value::ObjString(s) && value_int(old(vm).slot(0)) matches Some(n) && 0 <= norm(n, nb(s.obj(), s.obj().blen() as int)) < nb(s.obj(), s.obj().blen() as int)) ==> r is Ok
//@  at body.start broadcast use axiom_cb; broadcast use axiom_value_int_number;
//@  loop 0 iter it
//@  loop 0 invariant it.snapshot.start == 0, string.obj().blen() <= it.snapshot.end <= string.obj().blen() + 1, string.obj().blen() <= isize::MAX
//@  loop 0 invariant char_count as int == nb(string.obj(), it.index@ as int), char_count <= char_index, char_index < nb(string.obj(), string.obj().blen() as int)
//@  loop 0 invariant old(vm).slot(1) == Value::ObjString(string), num_args == 1
//@  loop 0 invariant value_int(old(vm).slot(0)) matches Some(n) && norm(n, nb(string.obj(), string.obj().blen() as int)) == char_index
//@  at loop0.start proof { lemma_nb_bounds(string.obj(), i as int); axiom_cb_ends(string.obj()); }
//@  before_stmt "Err(verif_error(" proof { lemma_nb_mono(string.obj(), string.obj().blen() as int, string.obj().blen() as int + 1); }
//@end

// ------------------------------------------------------------------ C18 / C13: native iterators
//@struct file=yarel/src/object.rs name=ObjStringIter
impl ObjStringIter {
    pub open spec fn wf(&self) -> bool { self.pos <= self.iterable.obj().blen() && self.iterable.obj().is_cb(self.pos as int) }

    //@fn file=yarel/src/object.rs path=ObjStringIter::next ret=r props=C13,C18,C02
    //@  requires old(self).wf()
    //@  ensures final(self).wf(), final(self).iterable == old(self).iterable
    //@  ensures r is None <==> old(self).pos == old(self).iterable.obj().blen()
    //@  ensures r is None ==> final(self).pos == old(self).pos
    //@  ensures r matches Some((a, b)) ==> a == old(self).pos && b == final(self).pos && a < b <= old(self).iterable.obj().blen()
    //@  ensures r matches Some((a, b)) ==> forall|j: int| a < j < b ==> !old(self).iterable.obj().is_cb(j)
    //@  at body.start broadcast use axiom_cb; broadcast use axiom_bytes_len; broadcast use axiom_utf8_char;
    //@  loop 0 invariant self.iterable == old(self).iterable, old_pos < self.pos <= self.iterable.obj().blen(), old_pos == old(self).pos
    //@  loop 0 invariant forall|j: int| old_pos < j < self.pos ==> !self.iterable.obj().is_cb(j)
    //@  loop 0 decreases self.iterable.obj().blen() - self.pos
    //@end
}

//@struct file=yarel/src/object.rs name=ObjVec
//@struct file=yarel/src/object.rs name=ObjVecIter
impl ObjVecIter {
    //@fn file=yarel/src/object.rs path=ObjVecIter::next ret=r props=C18,C02
    //@  ensures final(self).iterable == old(self).iterable
    //@  ensures old(self).current < old(self).iterable.obj().v.elements@.len() ==> r == Some(old(self).iterable.obj().v.elements@[old(self).current as int]) && final(self).current == old(self).current + 1
    //@  ensures old(self).current >= old(self).iterable.obj().v.elements@.len() ==> r is None && final(self).current == old(self).current
    //@end
}

//@struct file=yarel/src/object.rs name=ObjTuple
//@struct file=yarel/src/object.rs name=ObjTupleIter
impl ObjTupleIter {
    //@fn file=yarel/src/object.rs path=ObjTupleIter::next ret=r props=C18,C02
    //@  ensures final(self).iterable == old(self).iterable
    //@  ensures old(self).current < old(self).iterable.obj().elements@.len() ==> r == Some(old(self).iterable.obj().elements@[old(self).current as int]) && final(self).current == old(self).current + 1
    //@  ensures old(self).current >= old(self).iterable.obj().elements@.len() ==> r is None && final(self).current == old(self).current
    //@end
}

//@struct file=yarel/src/object.rs name=ObjRangeIter
impl ObjRangeIter {
    // ascending: step 1 and begin <= current <= end; descending: step -1 and end <= current <= begin (either when empty)
    pub open spec fn wf(&self) -> bool {
        let (b, e) = (self.iterable.obj().begin, self.iterable.obj().end);
        (self.step == 1 && b <= self.current <= e) || (self.step == -1 && e <= self.current <= b)
    }

    //@fn file=yarel/src/object.rs path=ObjRangeIter::new ret=r props=C18
    //@  ensures r.wf() && r.current == iterable.obj().begin && r.iterable == iterable
    //@end

    //@fn file=yarel/src/object.rs path=ObjRangeIter::next ret=r props=C18,C02
    //@  subst "Value::Number(self.current as f64)" => "number_of_isize(self.current)" count=1
    //@  requires old(self).wf()
    //@  ensures final(self).wf(), final(self).iterable == old(self).iterable, final(self).step == old(self).step
    //@  ensures old(self).current == old(self).iterable.obj().end ==> r is None && final(self).current == old(self).current
    //@  ensures old(self).current != old(self).iterable.obj().end ==> (r matches Some(v) && value_int(v) == Some(old(self).current as int)) && final(self).current == old(self).current + old(self).step
    //@end
}

// What a whole iteration yields, derived from the two contracts above only: begin, begin±1, …, end∓1, then None forever.
spec fn range_seq(b: int, e: int) -> Seq<int>
    decreases (if b < e { e - b } else { b - e })
{
    if b == e { Seq::empty() } else if b < e { seq![b] + range_seq(b + 1, e) } else { seq![b] + range_seq(b - 1, e) }
}
//@lemma name=lemma_range_iteration props=C18
proof fn lemma_range_iteration(b: int, e: int, cur: int)
    requires (b < e && b <= cur <= e) || (b >= e && e <= cur <= b),
    ensures
        // from state `cur`, repeatedly applying the `next` contract yields exactly range_seq(cur, e)
        cur == e ==> range_seq(cur, e).len() == 0,
        cur != e ==> range_seq(cur, e)[0] == cur && range_seq(cur, e).subrange(1, range_seq(cur, e).len() as int) == range_seq(if b < e { cur + 1 } else { cur - 1 }, e),
        range_seq(cur, e).len() == (if cur <= e { e - cur } else { cur - e }),
    decreases (if cur < e { e - cur } else { cur - e })
{
    if cur != e {
        let nxt = if b < e { cur + 1 } else { cur - 1 };
        lemma_range_iteration(b, e, nxt);
        assert(range_seq(cur, e) =~= seq![cur] + range_seq(nxt, e));
        assert((seq![cur] + range_seq(nxt, e)).subrange(1, range_seq(cur, e).len() as int) =~= range_seq(nxt, e));
    }
}

} // verus!
fn main() {}
