//@unit declc
//@property C06
// Compile-time side of declarations (yarel/src/compiler.rs Parser::var_declaration, fn_declaration, parse_variable,
// define_variable, identifier_constant, parameter_list) and of the leaf expression parsers that name things
// (Parser::dot, index, literal, string, variable, throw_statement):
//   * a variable declared in a block is a NEW local under the declared name; it is not in scope while its own
//     initialiser is compiled (depth None) and in scope from the end of the declaration on;
//   * a function declared in a block IS in scope while its body is compiled (it can call itself);
//   * a declaration at the top level of a module or function-less script defines the global whose NAME is the
//     declared identifier (DefineGlobal + the constant holding that name) — what a later snippet of a session sees;
//   * every parameter is an initialised local of the function, in order, and counts once towards the arity.
//
// Stubs carry the contracts proved elsewhere: declare_variable / mark_initialised / make_constant / emit_* in unit
// `compiler`, function() in unit `closc`, named_variable / binary_assign in unit `flowc`, the token pump in `tokens`.
use vstd::prelude::*;
verus! {

global size_of usize == 8;

//@enum file=yarel/src/chunk.rs name=OpCode
//@enum file=yarel/src/scanner.rs name=TokenKind eq=1
//@enum file=yarel/src/compiler.rs name=FunctionKind eq=1
//@struct file=yarel/src/scanner.rs name=Token
//@struct file=yarel/src/compiler.rs name=Local

pub uninterp spec fn opcode_byte(op: OpCode) -> u8;
#[verifier::external_body]
fn opcode_u8(op: OpCode) -> (r: u8) ensures r == opcode_byte(op) { op as u8 }
// R6: writer (`to_ne_bytes`) and the VM's reader (decode unit: read_short) are inverse
pub uninterp spec fn u16_of(b0: u8, b1: u8) -> int;
#[verifier::external_body]
fn u16_to_ne_bytes(x: u16) -> (r: [u8; 2]) ensures u16_of(r[0], r[1]) == x as int { x.to_ne_bytes() }

#[verifier::external_body]
pub struct Value { _p: u8 }
pub struct ObjString { pub hash: u64 }
#[verifier::external_body]
#[verifier::reject_recursive_types(T)]
pub struct Gc<T> { _p: core::marker::PhantomData<T> }
// the characters a string constant holds
pub uninterp spec fn str_of(v: Value) -> Seq<char>;
pub uninterp spec fn gc_str(g: Gc<ObjString>) -> Seq<char>;
// R14: Vm::new_gc_obj_string (C10, unit store): the string object for exactly these characters
#[verifier::external_body]
fn verif_intern(s: &str) -> (r: Gc<ObjString>) ensures gc_str(r) == s@ { unimplemented!() }
impl Value {
    #[verifier::external_body]
    #[allow(non_snake_case)]
    fn ObjString(g: Gc<ObjString>) -> (r: Value) ensures str_of(r) == gc_str(g) { unimplemented!() }
}
impl Clone for Token { #[verifier::external_body] fn clone(&self) -> (r: Self) ensures r == *self { unimplemented!() } }
#[verifier::external_body]
fn string_as_str(s: &String) -> (r: &str) ensures r@ == s@ { unimplemented!() }

pub struct Chunk { pub code: Vec<u8> }
pub struct ObjFunction { pub arity: usize }
pub struct Compiler { pub chunk: Chunk, pub locals: Vec<Local>, pub scope_depth: usize, pub function: ObjFunction }

pub struct Parser {
    pub comp: Compiler,
    pub previous: Token,
    pub current: Token,
    pub ghost consts: Seq<Value>,                        // the constant table of the function being compiled
    pub ghost had_error: bool,                           // a compile error is on record
    pub ghost toks_left: nat,                            // tokens the scanner has not handed out yet (unit tokens)
    pub ghost fns: Seq<FunctionKind>,                    // function() calls, in order
    pub ghost named: Seq<(Seq<char>, bool)>,             // named_variable(name, can_assign) calls, in order
}

pub open spec fn same_shape(a: Seq<Local>, b: Seq<Local>) -> bool {
    a.len() == b.len() && forall|i: int| #![trigger a[i]] #![trigger b[i]] 0 <= i < a.len() ==> a[i].name == b[i].name && a[i].depth == b[i].depth
}

impl Parser {
    pub open spec fn code(&self) -> Seq<u8> { self.comp.chunk.code@ }
    pub open spec fn locals(&self) -> Seq<Local> { self.comp.locals@ }
    // emitted code and constants are only ever appended to
    pub open spec fn grows(&self, o: &Parser) -> bool {
        &&& self.code().len() <= o.code().len() && (forall|i: int| 0 <= i < self.code().len() ==> #[trigger] o.code()[i] == self.code()[i])
        &&& self.consts.len() <= o.consts.len() && (forall|i: int| 0 <= i < self.consts.len() ==> #[trigger] o.consts[i] == self.consts[i])
        &&& (self.had_error ==> o.had_error)
        &&& o.toks_left <= self.toks_left
        &&& o.comp.scope_depth == self.comp.scope_depth && o.comp.function == self.comp.function
    }
    // nothing but the token window (and possibly the error list) changes
    pub open spec fn quiet(&self, o: &Parser) -> bool {
        &&& self.comp == o.comp && self.consts == o.consts && self.fns == o.fns && self.named == o.named
        &&& (self.had_error ==> o.had_error) && o.toks_left <= self.toks_left
    }
    pub open spec fn ends_with_op(&self, op: OpCode, operand: int) -> bool {
        let c = self.code();
        c.len() >= 3 && c[c.len() - 3] == opcode_byte(op) && u16_of(c[c.len() - 2], c[c.len() - 1]) == operand
    }
    pub open spec fn names_constant(&self, idx: int, name: Seq<char>) -> bool { 0 <= idx < self.consts.len() && str_of(self.consts[idx]) == name }

    #[verifier::external_body]
    fn compiler(&self) -> (r: &Compiler) ensures *r == self.comp { unimplemented!() }
    #[verifier::external_body]
    fn compiler_mut(&mut self) -> (r: &mut Compiler)
        ensures *r == old(self).comp, final(self).comp == *final(r), final(self).consts == old(self).consts, final(self).had_error == old(self).had_error, final(self).toks_left == old(self).toks_left,
            final(self).previous == old(self).previous, final(self).current == old(self).current, final(self).fns == old(self).fns, final(self).named == old(self).named
    { unimplemented!() }

    // ---- the token pump (unit tokens)
    #[verifier::external_body]
    fn consume(&mut self, kind: TokenKind, message: &str)
        ensures old(self).quiet(final(self)), !final(self).had_error ==> (final(self).previous.kind == kind && final(self).previous == old(self).current)
    { unimplemented!() }
    #[verifier::external_body]
    fn match_token(&mut self, kind: TokenKind) -> (r: bool)
        ensures old(self).quiet(final(self)), r ==> final(self).previous.kind == kind && final(self).previous == old(self).current && final(self).toks_left < old(self).toks_left,
            !r ==> final(self).previous == old(self).previous && final(self).current == old(self).current && final(self).had_error == old(self).had_error
    { unimplemented!() }
    #[verifier::external_body]
    fn check(&self, kind: TokenKind) -> (r: bool) ensures r == (self.current.kind == kind) { unimplemented!() }
    #[verifier::external_body]
    fn error(&mut self, message: &str) ensures old(self).quiet(final(self)), final(self).had_error, final(self).previous == old(self).previous, final(self).current == old(self).current, final(self).toks_left == old(self).toks_left { unimplemented!() }
    #[verifier::external_body]
    fn error_at_current(&mut self, message: &str) ensures old(self).quiet(final(self)), final(self).had_error, final(self).previous == old(self).previous, final(self).current == old(self).current, final(self).toks_left == old(self).toks_left { unimplemented!() }
    // attribute checks report at most an error
    #[verifier::external_body]
    fn check_no_attributes(&mut self) ensures old(self).quiet(final(self)), final(self).previous == old(self).previous, final(self).current == old(self).current, final(self).toks_left == old(self).toks_left { unimplemented!() }
    #[verifier::external_body]
    fn check_supported_attributes(&mut self, what: &str) ensures old(self).quiet(final(self)), final(self).previous == old(self).previous, final(self).current == old(self).current, final(self).toks_left == old(self).toks_left { unimplemented!() }

    // ---- emitters and the constant table (byte-level contracts: unit compiler)
    #[verifier::external_body]
    fn emit_byte(&mut self, byte: u8)
        ensures final(self).code() == old(self).code().push(byte), old(self).same_but_code(final(self))
    { unimplemented!() }
    #[verifier::external_body]
    fn emit_bytes(&mut self, bytes: [u8; 2])
        ensures final(self).code() == old(self).code().push(bytes[0]).push(bytes[1]), old(self).same_but_code(final(self))
    { unimplemented!() }
    #[verifier::external_body]
    fn emit_constant_op(&mut self, opcode: OpCode, constant: u16)
        ensures final(self).code().len() == old(self).code().len() + 3, (forall|i: int| 0 <= i < old(self).code().len() ==> #[trigger] final(self).code()[i] == old(self).code()[i]), final(self).ends_with_op(opcode, constant as int), old(self).same_but_code(final(self))
    { unimplemented!() }
    // compiler/Parser::make_constant: the index of a constant equal to `value`, or an error is on record
    #[verifier::external_body]
    fn make_constant(&mut self, value: Value) -> (r: u16)
        ensures final(self).comp == old(self).comp, final(self).previous == old(self).previous, final(self).current == old(self).current, final(self).toks_left == old(self).toks_left, final(self).fns == old(self).fns, final(self).named == old(self).named,
            old(self).grows(final(self)), final(self).had_error || ((r as int) < final(self).consts.len() && final(self).consts[r as int] == value)
    { unimplemented!() }
    // compiler/Parser::emit_constant: Constant + the index make_constant returns for the value
    #[verifier::external_body]
    fn emit_constant(&mut self, value: Value)
        ensures old(self).grows(final(self)), final(self).comp.locals == old(self).comp.locals, final(self).previous == old(self).previous, final(self).current == old(self).current, final(self).toks_left == old(self).toks_left, final(self).fns == old(self).fns, final(self).named == old(self).named,
            final(self).code().len() == old(self).code().len() + 3, final(self).had_error || exists|i: int| #[trigger] final(self).ends_with_op(OpCode::Constant, i) && 0 <= i < final(self).consts.len() && final(self).consts[i] == value
    { unimplemented!() }
    pub open spec fn same_but_code(&self, o: &Parser) -> bool {
        &&& self.comp.locals == o.comp.locals && self.comp.scope_depth == o.comp.scope_depth && self.comp.function == o.comp.function
        &&& self.consts == o.consts && self.had_error == o.had_error && self.toks_left == o.toks_left && self.previous == o.previous && self.current == o.current && self.fns == o.fns && self.named == o.named
    }

    // ---- scopes (unit compiler: Parser::declare_variable, Parser::mark_initialised)
    // at depth 0 nothing; in a block a new, not yet initialised local under the name of the token just consumed (a
    // duplicate or the 257th local is reported, the duplicate is still declared)
    #[verifier::external_body]
    fn declare_variable(&mut self)
        ensures old(self).grows(final(self)), final(self).code() == old(self).code(), final(self).consts == old(self).consts, final(self).previous == old(self).previous, final(self).current == old(self).current, final(self).toks_left == old(self).toks_left, final(self).fns == old(self).fns, final(self).named == old(self).named,
            old(self).comp.scope_depth == 0 ==> final(self).comp == old(self).comp && final(self).had_error == old(self).had_error,
            final(self).locals() == old(self).locals() || (old(self).comp.scope_depth > 0 && final(self).locals() == old(self).locals().push(final(self).locals().last()) && final(self).locals().last().name@ == old(self).previous.source@ && final(self).locals().last().depth is None && !final(self).locals().last().is_captured),
            old(self).comp.scope_depth > 0 && !final(self).had_error ==> final(self).locals().len() == old(self).locals().len() + 1, final(self).locals().len() >= old(self).locals().len()
    { unimplemented!() }
    // the newest local becomes visible at the current depth (nothing at depth 0)
    #[verifier::external_body]
    fn mark_initialised(&mut self)
        requires old(self).comp.scope_depth > 0 ==> old(self).locals().len() > 0
        ensures old(self).grows(final(self)), final(self).code() == old(self).code(), final(self).consts == old(self).consts, final(self).previous == old(self).previous, final(self).current == old(self).current, final(self).toks_left == old(self).toks_left, final(self).had_error == old(self).had_error, final(self).fns == old(self).fns, final(self).named == old(self).named,
            old(self).comp.scope_depth == 0 ==> final(self).comp == old(self).comp,
            old(self).comp.scope_depth > 0 ==> final(self).locals().len() == old(self).locals().len() && (forall|i: int| 0 <= i < old(self).locals().len() - 1 ==> #[trigger] final(self).locals()[i] == old(self).locals()[i]) && final(self).locals().last().name == old(self).locals().last().name
                && final(self).locals().last().depth == Some(old(self).comp.scope_depth) && final(self).locals().last().is_captured == old(self).locals().last().is_captured
    { unimplemented!() }

    // ---- nested constructs: code and constants are appended; the locals of THIS function keep names and depths
    #[verifier::external_body]
    fn expression(&mut self) ensures old(self).grows(final(self)), same_shape(old(self).locals(), final(self).locals()), final(self).fns == old(self).fns, final(self).named == old(self).named, final(self).code().len() > old(self).code().len() { unimplemented!() }
    // closc/Parser::function: compiles a function of the given kind and emits the Closure instruction for it
    #[verifier::external_body]
    fn function(&mut self, kind: FunctionKind) ensures old(self).grows(final(self)), same_shape(old(self).locals(), final(self).locals()), final(self).fns == old(self).fns.push(kind), final(self).named == old(self).named, final(self).code().len() >= old(self).code().len() + 3 { unimplemented!() }
    // flowc/Parser::named_variable: read of, or store to, the variable the token names
    #[verifier::external_body]
    fn named_variable(&mut self, name: Token, can_assign: bool) ensures old(self).grows(final(self)), same_shape(old(self).locals(), final(self).locals()), final(self).fns == old(self).fns, final(self).named == old(self).named.push((name.source@, can_assign)) { unimplemented!() }
    #[verifier::external_body]
    fn match_binary_assignment(&mut self) -> (r: bool) ensures old(self).quiet(final(self)) { unimplemented!() }
    // flowc/Parser::binary_assign: Get-op with the same operand, the right operand, the operator
    #[verifier::external_body]
    fn binary_assign(&mut self, get_op: OpCode, arg: u16)
        ensures old(self).grows(final(self)), same_shape(old(self).locals(), final(self).locals()), final(self).fns == old(self).fns, final(self).named == old(self).named,
            final(self).code().len() >= old(self).code().len() + 4, final(self).code()[old(self).code().len() as int] == opcode_byte(get_op), u16_of(final(self).code()[old(self).code().len() as int + 1], final(self).code()[old(self).code().len() as int + 2]) == arg
    { unimplemented!() }
    // compiler/Parser::argument_list
    #[verifier::external_body]
    fn argument_list(&mut self, right_delim: TokenKind, count_msg: &str, delim_msg: &str) -> (r: u8) ensures old(self).grows(final(self)), same_shape(old(self).locals(), final(self).locals()), final(self).fns == old(self).fns, final(self).named == old(self).named { unimplemented!() }

    // the constant that holds a token's text
    //@fn file=yarel/src/compiler.rs path=Parser::identifier_constant ret=r props=C06,C15,C04
    //@  rewrite R14
    //@  ensures old(self).grows(final(self)), final(self).comp == old(self).comp, final(self).previous == old(self).previous, final(self).current == old(self).current, final(self).toks_left == old(self).toks_left, final(self).fns == old(self).fns, final(self).named == old(self).named
    //@  ensures @the_constant_of_an_identifier_holds_its_text final(self).had_error || final(self).names_constant(r as int, token.source@)
    //@end

    //@fn file=yarel/src/compiler.rs path=Parser::parse_variable ret=r props=C06,C15,C04
    //@  ensures old(self).grows(final(self)), final(self).code() == old(self).code(), final(self).fns == old(self).fns, final(self).named == old(self).named
    //@  ensures @a_declaration_at_depth_zero_declares_no_local old(self).comp.scope_depth == 0 ==> final(self).comp == old(self).comp
    //@  ensures @a_global_is_named_by_the_declared_identifier old(self).comp.scope_depth == 0 && !final(self).had_error ==> final(self).names_constant(r as int, final(self).previous.source@)
    //@  ensures @a_declaration_in_a_block_adds_one_local_under_the_declared_name_not_yet_in_scope old(self).comp.scope_depth > 0 && !final(self).had_error ==> final(self).locals() == old(self).locals().push(final(self).locals().last()) && final(self).locals().last().name@ == final(self).previous.source@ && final(self).locals().last().depth is None && !final(self).locals().last().is_captured
    //@  ensures final(self).locals().len() >= old(self).locals().len(), final(self).locals().len() <= old(self).locals().len() + 1, forall|i: int| 0 <= i < old(self).locals().len() ==> #[trigger] final(self).locals()[i] == old(self).locals()[i]
    //@  ensures !final(self).had_error ==> final(self).previous == old(self).current && final(self).previous.kind == TokenKind::Identifier
    //@end

    //@fn file=yarel/src/compiler.rs path=Parser::define_variable props=C06,C15,C04
    //@  rewrite R21 R6
    //@  requires old(self).comp.scope_depth > 0 ==> old(self).locals().len() > 0
    //@  ensures old(self).grows(final(self)), final(self).consts == old(self).consts, final(self).had_error == old(self).had_error, final(self).fns == old(self).fns, final(self).named == old(self).named, final(self).previous == old(self).previous, final(self).current == old(self).current, final(self).toks_left == old(self).toks_left
    //@  ensures @defining_a_global_emits_the_definition_of_that_name old(self).comp.scope_depth == 0 ==> final(self).code().len() == old(self).code().len() + 3 && final(self).ends_with_op(OpCode::DefineGlobal, global as int) && final(self).comp.locals == old(self).comp.locals
    //@  ensures @defining_a_local_emits_nothing_and_brings_the_newest_local_into_scope old(self).comp.scope_depth > 0 ==> final(self).code() == old(self).code() && final(self).locals().len() == old(self).locals().len() && (forall|i: int| 0 <= i < old(self).locals().len() - 1 ==> #[trigger] final(self).locals()[i] == old(self).locals()[i]) && final(self).locals().last().name == old(self).locals().last().name && final(self).locals().last().depth == Some(old(self).comp.scope_depth)
    //@end

    // var NAME [= E];
    //@fn file=yarel/src/compiler.rs path=Parser::var_declaration props=C06,C15,C04,C03
    //@  rewrite R21
    //@  requires old(self).locals().len() > 0
    //@  after_stmt "let#1" let ghost nm = self.previous.source@; let ghost depth = self.comp.scope_depth;
    //@  assert @a_variable_is_not_in_scope_while_its_own_initialiser_is_compiled before_stmt "self.expression();" depth > 0 && !self.had_error ==> self.locals() == old(self).locals().push(self.locals().last()) && self.locals().last().name@ == nm && self.locals().last().depth is None
    //@  assert @a_variable_without_initialiser_starts_as_nil after_stmt "self.emit_byte(" self.code() == old(self).code().push(opcode_byte(OpCode::Nil))
    //@  assert @a_block_variable_is_in_scope_after_its_declaration_under_the_declared_name after_stmt "self.define_variable(" depth > 0 && !self.had_error ==> self.locals().len() == old(self).locals().len() + 1 && same_shape(self.locals().drop_last(), old(self).locals()) && self.locals().last().name@ == nm && self.locals().last().depth == Some(depth)
    //@  assert @a_top_level_variable_defines_the_global_of_the_declared_name after_stmt "self.define_variable(" depth == 0 && !self.had_error ==> same_shape(self.locals(), old(self).locals()) && exists|i: int| #[trigger] self.ends_with_op(OpCode::DefineGlobal, i) && self.names_constant(i, nm)
    //@  ensures @a_variable_declaration_leaves_no_local_undefined_whatever_errors_it_reported all_defined(old(self).locals()) ==> all_defined(final(self).locals())
    //@  ensures old(self).grows(final(self)), final(self).code().len() > old(self).code().len(), final(self).fns == old(self).fns, final(self).named == old(self).named
    //@end

    // fn NAME(params) { body }
    //@fn file=yarel/src/compiler.rs path=Parser::fn_declaration props=C06,C15,C04,C03
    //@  requires old(self).locals().len() > 0
    //@  after_stmt "let#1" let ghost nm = self.previous.source@; let ghost depth = self.comp.scope_depth;
    //@  assert @a_function_declared_in_a_block_is_in_scope_inside_its_own_body before_stmt "self.function(" depth > 0 && !self.had_error ==> self.locals().len() == old(self).locals().len() + 1 && self.locals().last().name@ == nm && self.locals().last().depth == Some(depth)
    //@  assert @a_top_level_function_defines_the_global_of_the_declared_name after_stmt "self.define_variable(" depth == 0 && !self.had_error ==> same_shape(self.locals(), old(self).locals()) && exists|i: int| #[trigger] self.ends_with_op(OpCode::DefineGlobal, i) && self.names_constant(i, nm)
    //@  ensures @a_function_declaration_leaves_no_local_undefined_whatever_errors_it_reported all_defined(old(self).locals()) ==> all_defined(final(self).locals())
    //@  ensures @a_function_declaration_compiles_one_plain_function final(self).fns == old(self).fns.push(FunctionKind::Function)
    //@  ensures old(self).grows(final(self)), final(self).named == old(self).named
    //@end

    // (p1, p2, …
    //@fn file=yarel/src/compiler.rs path=Parser::parameter_list props=C06,C04,C03
    //@  requires old(self).comp.scope_depth > 0, old(self).locals().len() > 0, old(self).comp.function.arity <= 256, old(self).comp.function.arity + old(self).toks_left < 0x7fff_ffff_ffff_ffff
    //@  ensures old(self).code() == final(self).code(), final(self).comp.scope_depth == old(self).comp.scope_depth, old(self).had_error ==> final(self).had_error, final(self).fns == old(self).fns, final(self).named == old(self).named
    //@  ensures @every_parameter_is_a_local_in_scope_and_counts_once !final(self).had_error ==> final(self).locals().len() - old(self).locals().len() == final(self).comp.function.arity - old(self).comp.function.arity && params_in_scope(final(self).locals(), old(self).locals().len() as int, old(self).comp.scope_depth) && final(self).locals().subrange(0, old(self).locals().len() as int) == old(self).locals()
    //@  ensures @a_parameter_list_leaves_no_local_undefined_whatever_errors_it_reported all_defined(old(self).locals()) ==> all_defined(final(self).locals())
    //@  ensures @more_than_255_parameters_are_a_compile_error final(self).comp.function.arity > 256 ==> final(self).had_error
    //@  loop 0 invariant self.code() == old(self).code(), self.comp.scope_depth == old(self).comp.scope_depth, old(self).had_error ==> self.had_error, self.fns == old(self).fns, self.named == old(self).named, self.consts.len() >= old(self).consts.len(), self.toks_left <= old(self).toks_left
    //@  loop 0 invariant self.comp.function.arity >= old(self).comp.function.arity, self.locals().len() > 0, old(self).comp.scope_depth > 0, old(self).comp.function.arity + old(self).toks_left < 0x7fff_ffff_ffff_ffff
    //@  loop 0 invariant_except_break self.comp.function.arity + self.toks_left <= old(self).comp.function.arity + old(self).toks_left
    //@  loop 0 invariant self.comp.function.arity > 256 ==> self.had_error
    //@  loop 0 invariant all_defined(old(self).locals()) ==> all_defined(self.locals())
    //@  loop 0 invariant !self.had_error ==> self.locals().len() - old(self).locals().len() == self.comp.function.arity - old(self).comp.function.arity && params_in_scope(self.locals(), old(self).locals().len() as int, old(self).comp.scope_depth) && self.locals().subrange(0, old(self).locals().len() as int) =~= old(self).locals()
    //@  loop 0 decreases self.toks_left
    //@end

    // throw E;
    //@fn file=yarel/src/compiler.rs path=Parser::throw_statement props=C08,C04
    //@  rewrite R21
    //@  ensures @a_throw_statement_raises_the_value_of_its_expression final(self).code().last() == opcode_byte(OpCode::Throw) && final(self).code().len() >= old(self).code().len() + 2
    //@  ensures old(self).grows(final(self)), same_shape(old(self).locals(), final(self).locals())
    //@end

    // E.name   E.name = V   E.name OP= V   E.name(args)
    //@fn file=yarel/src/compiler.rs path=Parser::dot props=C07,C04
    //@  rewrite R21
    //@  after_stmt "let#1" let ghost nm = s.previous.source@; let ghost n0 = s.code().len();
    //@  assert @a_property_access_names_the_identifier_after_the_dot at body.end !s.had_error ==> s.names_constant(name as int, nm)
    //@  assert @a_plain_property_expression_reads_the_property at body.end !can_assign ==> s.code().len() >= n0 + 3 && ((s.code().len() == n0 + 3 && s.ends_with_op(OpCode::GetProperty, name as int)) || (s.code()[s.code().len() - 4] == opcode_byte(OpCode::Invoke) && u16_of(s.code()[s.code().len() - 3], s.code()[s.code().len() - 2]) == name))
    //@  assert @a_compound_property_assignment_reads_and_writes_the_same_property after_stmt "s.binary_assign(" s.code()[n0 as int] == opcode_byte(OpCode::CopyTop) && s.code()[n0 as int + 1] == opcode_byte(OpCode::GetProperty) && u16_of(s.code()[n0 as int + 2], s.code()[n0 as int + 3]) == name
    //@  assert @a_property_assignment_ends_in_the_store_to_that_property after_stmt "s.emit_constant_op(#1" s.ends_with_op(OpCode::SetProperty, name as int)
    //@  assert @a_compound_property_assignment_ends_in_the_store_to_that_property after_stmt "s.emit_constant_op(#2" s.ends_with_op(OpCode::SetProperty, name as int)
    //@  ensures old(s).grows(final(s)), same_shape(old(s).locals(), final(s).locals())
    //@end

    // E[I]   E[I] = V
    //@fn file=yarel/src/compiler.rs path=Parser::index props=C13,C04
    //@  subst "opcode as u8" => "opcode_u8(opcode)"
    //@  ensures @an_index_expression_reads_or_stores_the_item (final(s).code().last() == opcode_byte(OpCode::GetItem) || (can_assign && final(s).code().last() == opcode_byte(OpCode::SetItem))) && final(s).code().len() >= old(s).code().len() + 2
    //@  ensures old(s).grows(final(s)), same_shape(old(s).locals(), final(s).locals())
    //@end

    // true / false / nil
    //@fn file=yarel/src/compiler.rs path=Parser::literal props=C05,C04
    //@  rewrite R21
    //@  ensures @a_literal_keyword_pushes_the_value_it_names (old(s).previous.kind == TokenKind::True ==> final(s).code() == old(s).code().push(opcode_byte(OpCode::True))) && (old(s).previous.kind == TokenKind::False ==> final(s).code() == old(s).code().push(opcode_byte(OpCode::False))) && (old(s).previous.kind == TokenKind::Nil ==> final(s).code() == old(s).code().push(opcode_byte(OpCode::Nil)))
    //@  ensures old(s).grows(final(s)), final(s).comp.locals == old(s).comp.locals
    //@end

    // "text"
    //@fn file=yarel/src/compiler.rs path=Parser::string props=C13,C11,C04
    //@  rewrite R14
    //@  ensures @a_string_literal_denotes_the_scanned_text final(s).had_error || exists|i: int| #[trigger] final(s).ends_with_op(OpCode::Constant, i) && final(s).names_constant(i, old(s).previous.source@)
    //@  ensures old(s).grows(final(s)), final(s).comp.locals == old(s).comp.locals, final(s).code().len() == old(s).code().len() + 3
    //@end

    // NAME in an expression
    //@fn file=yarel/src/compiler.rs path=Parser::variable props=C06,C04
    //@  ensures @an_identifier_denotes_the_variable_of_that_name final(s).named == old(s).named.push((old(s).previous.source@, can_assign))
    //@  ensures old(s).grows(final(s)), same_shape(old(s).locals(), final(s).locals())
    //@end
}

// no local is left declared-but-undefined: Parser::emit_scope_end (unit compiler) unwraps the depth of every local it
// discards, so an undefined local left behind by a statement is a host panic at the end of the block
pub open spec fn all_defined(l: Seq<Local>) -> bool { forall|i: int| 0 <= i < l.len() ==> (#[trigger] l[i]).depth is Some }

// the locals from index n on are in scope at depth d (parameters of the function being compiled)
pub open spec fn params_in_scope(l: Seq<Local>, n: int, d: usize) -> bool {
    forall|i: int| n <= i < l.len() ==> (#[trigger] l[i]).depth == Some(d)
}

} // verus!
fn main() {}
