//@unit compnew
//@property C07
// A new function compiler (yarel/src/compiler.rs Compiler::new, FunctionKind::is_bound, Parser::new_compiler;
// yarel/src/object.rs ObjFunction::new): every function starts with exactly ONE local — slot 0, in scope at depth 0,
// not captured — whose NAME says what the slot holds: `self` in a method or initialiser (the receiver, which
// Parser::self_ / super_ resolve by that name: unit superc), `Self` in a static method (the class the method was
// invoked through: Parser::cap_self), nameless in a plain function (no program text can name it); the arity counts
// that slot (so a declared parameter list of n names gives arity n + 1: unit declc), nothing is captured, no code,
// no loop and no try block is open. (A script's slot 0 is also called `self`; Parser::self_ refuses `self` outside a class
// before any lookup: unit superc.)
use vstd::prelude::*;
verus! {

global size_of usize == 8;

#[verifier::external_body]
#[verifier::accept_recursive_types(T)]
pub struct Gc<T> { p: core::marker::PhantomData<T> }
impl<T> Clone for Gc<T> { #[verifier::external_body] fn clone(&self) -> (r: Self) ensures r == *self { Gc { p: core::marker::PhantomData } } }
impl<T> Copy for Gc<T> {}
impl<T> Gc<T> {
    #[verifier::external_body]
    fn dangling() -> (r: Gc<T>) { unimplemented!() }
}
#[verifier::external_body]
pub struct Value { _p: u8 }
pub struct ObjString { pub hash: u64 }
#[verifier::external_body]
pub struct ConstMap { _p: u8 }

//@enum file=yarel/src/compiler.rs name=FunctionKind eq=1
//@struct file=yarel/src/compiler.rs name=Local
//@struct file=yarel/src/compiler.rs name=Upvalue
//@struct file=yarel/src/object.rs name=ObjFunction
//@struct file=yarel/src/chunk.rs name=Chunk map "HashMap<Value, usize>" => "ConstMap"
//@struct file=yarel/src/compiler.rs name=Compiler

impl Chunk {
    // chunk.rs Chunk::new = Default::default(): no code, no lines, no constants
    #[verifier::external_body]
    fn new() -> (r: Chunk) ensures r.code@.len() == 0, r.lines@.len() == 0, r.constants@.len() == 0 { unimplemented!() }
}
#[verifier::external_body]
fn vec_new<T>() -> (r: Vec<T>) ensures r@.len() == 0 { Vec::new() }
#[verifier::external_body]
fn vec_of_one<T>(x: T) -> (r: Vec<T>) ensures r@ == seq![x] { unimplemented!() }
#[verifier::external_body]
fn str_to_owned(s: &str) -> (r: String) ensures r@ == s@ { unimplemented!() }

impl ObjFunction {
    //@fn file=yarel/src/object.rs path=ObjFunction::new ret=r props=C07,C04
    //@  ensures r.name == name && r.arity == arity && r.upvalue_count == upvalue_count && r.chunk == chunk && r.module_path == module_path
    //@end
}

impl FunctionKind {
    // the kinds whose parameter list must start with `self` (Parser::function)
    //@fn file=yarel/src/compiler.rs path=FunctionKind::is_bound ret=r props=C07
    //@  ensures @methods_and_initialisers_take_a_receiver_parameter r == (*self is Method || *self is Initialiser)
    //@end
}

// what slot 0 is called inside a function of this kind
pub open spec fn slot0_name(kind: FunctionKind) -> Seq<char> {
    match kind {
        FunctionKind::StaticMethod => "Self"@,
        FunctionKind::Function => ""@,
        _ => "self"@,
    }
}

impl Compiler {
    //@fn file=yarel/src/compiler.rs path=Compiler::new ret=r props=C07,C04,C06
    //@  at body.start proof { reveal_strlit("Self"); reveal_strlit("self"); reveal_strlit(""); }
    //@  subst "Vec::new()" => "vec_new()"
    //@  subst "locals: vec![Local {" => "locals: vec_of_one(Local {"
    //@  subst "}]," => "}),"
    //@  substx "name: if $1 { $2 } else if $3 { $4 } else { $5 } .to_owned()," => "name: str_to_owned(if $1 { $2 } else if $3 { $4 } else { $5 }),"
    //@  ensures @a_function_starts_with_one_local_slot_zero_named_for_what_it_holds r.locals@.len() == 1 && r.locals@[0].name@ == slot0_name(kind) && r.locals@[0].depth == Some(0usize) && !r.locals@[0].is_captured
    //@  ensures @a_plain_function_cannot_name_its_slot_zero (kind is Function) == (r.locals@[0].name@.len() == 0)
    //@  ensures @the_arity_counts_slot_zero_and_nothing_is_captured_yet r.function.arity == 1 && r.function.upvalue_count == 0 && r.upvalues@.len() == 0
    //@  ensures @a_new_function_has_no_code_and_nothing_open r.chunk.code@.len() == 0 && r.chunk.lines@.len() == 0 && r.scope_depth == 0 && r.try_depth == 0 && r.lambda_count == 0 && r.loop_stack@.len() == 0 && r.break_stack@.len() == 0
    //@  ensures r.kind == kind && r.function.name == name && r.function.module_path == module_path
    //@end
}

pub struct Parser { pub compilers: Vec<Compiler> }
impl Parser {
    //@fn file=yarel/src/compiler.rs path=Parser::new_compiler props=C07,C04,C06
    //@  ensures @a_nested_function_gets_a_compiler_of_its_own_on_top_of_the_enclosing_ones final(self).compilers@.len() == old(self).compilers@.len() + 1 && final(self).compilers@.subrange(0, old(self).compilers@.len() as int) =~= old(self).compilers@
    //@  ensures final(self).compilers@.last().kind == kind && final(self).compilers@.last().locals@.len() == 1 && final(self).compilers@.last().locals@[0].name@ == slot0_name(kind) && final(self).compilers@.last().function.arity == 1
    //@end
}

} // verus!
fn main() {}
