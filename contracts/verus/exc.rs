//@unit exc
//@property C08
// Run-time side of exception delivery (yarel/src/vm.rs, yarel/src/object.rs): a fiber keeps a stack of handler
// records; `throw` / a failing operation unwinds to the innermost record of the ACTIVE fiber, restores the value stack
// and the call stack to the heights recorded when the handler was installed, delivers the exception value on top, and
// removes exactly that record (outer handlers stay installed).
use vstd::prelude::*;
verus! {

global size_of usize == 8;

// ------------------------------------------------------------------ environment stand-ins (assumed)
#[verifier::external_body]
#[verifier::accept_recursive_types(T)]
pub struct Gc<T> { p: core::marker::PhantomData<T> }
impl<T> Clone for Gc<T> { #[verifier::external_body] fn clone(&self) -> (r: Self) ensures r == *self { Gc { p: core::marker::PhantomData } } }
impl<T> Copy for Gc<T> {}
impl<T> Gc<T> { pub uninterp spec fn obj(&self) -> T; }
impl<T> std::ops::Deref for Gc<T> {
    type Target = T;
    #[verifier::external_body]
    fn deref(&self) -> (r: &T) ensures *r == self.obj() { unimplemented!() }
}
// chunk.rs Chunk: the code and the parallel line table (line of the token that caused each byte)
pub struct Chunk { pub code: Vec<u8>, pub lines: Vec<i32> }
impl Chunk {
    pub uninterp spec fn base(&self) -> int;      // the address of code[0] (code addresses are modelled by integers)
    // chunk.rs code_offset: `ptr as usize - &self.code[0] as usize` — empty code or an address below the code is a host panic
    #[verifier::external_body]
    pub fn code_offset(&self, ptr: usize) -> (r: usize)
        requires self.code@.len() > 0, ptr >= self.base()
        ensures r == ptr - self.base()
    { unimplemented!() }
}
pub struct ObjModule { }
pub struct RefCell<T> { pub v: T }
pub struct ObjString { }
impl ObjString { #[verifier::external_body] pub fn is_empty(&self) -> bool { unimplemented!() } }
pub struct ObjFunction { pub chunk: Gc<Chunk>, pub name: Gc<ObjString> }
// object.rs ObjClosure: the function it runs and the module whose globals it sees (upvalues: unit `upvalues`)
pub struct ObjClosure { pub function: Gc<ObjFunction>, pub module: Gc<RefCell<ObjModule>> }
// "address a lies inside the code of closure c's function" (chunk.code.as_ptr_range().contains(&a))
pub uninterp spec fn in_code(c: Gc<ObjClosure>, a: usize) -> bool;
pub struct CodeRange { pub ghost c: Gc<ObjClosure> }
impl CodeRange {
    #[verifier::external_body]
    pub fn contains(&self, a: &usize) -> (r: bool) ensures r == in_code(self.c, *a) { unimplemented!() }
}
#[verifier::external_body]
fn code_range(c: &Gc<ObjClosure>) -> (r: CodeRange) ensures r.c == *c { unimplemented!() }

#[verifier::external_body]
pub struct Value { _p: u8 }
impl Clone for Value { #[verifier::external_body] fn clone(&self) -> (r: Self) ensures r == *self { Value { _p: 0 } } }
impl Copy for Value {}
impl Value {
    pub uninterp spec fn nil() -> Value;
    #[verifier::external_body] #[allow(non_upper_case_globals)]
    fn none_value() -> (r: Value) ensures r == Value::nil() { unimplemented!() }
}
//@enum file=yarel/src/error.rs name=ErrorKind
// host-side error: its kind and (ghost) the source lines named by the trace entries added so far
pub struct Error { pub kind: ErrorKind, pub ghost trace: Seq<i32> }
// one trace entry under construction: which line it names
pub struct TraceMsg { pub ghost line: i32 }
impl TraceMsg {
    #[verifier::external_body] pub fn new() -> TraceMsg { unimplemented!() }
}
// `write!(new_msg, "[{}, line {}] in ", *module.borrow(), chunk.lines[instruction])`
#[verifier::external_body]
fn trace_head(msg: &mut TraceMsg, module: Gc<RefCell<ObjModule>>, line: i32) ensures final(msg).line == line { unimplemented!() }
// R22: the function-name part of the entry
#[verifier::external_body]
fn verif_write(msg: &mut TraceMsg) ensures final(msg).line == old(msg).line { unimplemented!() }
impl Error {
    #[verifier::external_body]
    pub fn add_message(&mut self, message: &TraceMsg) ensures final(self).kind == old(self).kind, final(self).trace == old(self).trace.push(message.line) { unimplemented!() }
    #[verifier::external_body]
    pub fn clone(&self) -> (r: Error) ensures r == *self { unimplemented!() }
}

//@const file=yarel/src/common.rs name=FRAMES_MAX
//@const file=yarel/src/common.rs name=LOCALS_MAX
//@const file=yarel/src/object.rs name=STACK_MAX

// stack.rs Stack<Value, STACK_MAX> by contract (its own contract is proved by the Kani unit `stack`, both build
// configurations): `view` is the live part of the array.
pub struct StackS { pub ghost view: Seq<Value> }
impl StackS {
    #[verifier::external_body]
    pub fn len(&self) -> (r: usize) ensures r == self.view.len() { unimplemented!() }
    #[verifier::external_body]
    pub fn peek(&self, depth: usize) -> (r: &Value)
        requires depth < self.view.len()
        ensures *r == self.view[self.view.len() - 1 - depth]
    { unimplemented!() }
    #[verifier::external_body]
    pub fn push(&mut self, data: Value)
        requires old(self).view.len() < STACK_MAX
        ensures final(self).view == old(self).view.push(data)
    { unimplemented!() }
    #[verifier::external_body]
    pub fn pop(&mut self) -> (r: Option<Value>)
        requires old(self).view.len() > 0
        ensures r == Some(old(self).view.last()), final(self).view == old(self).view.drop_last()
    { unimplemented!() }
    #[verifier::external_body]
    pub fn truncate(&mut self, size: usize)
        requires size <= old(self).view.len()
        ensures final(self).view == old(self).view.take(size as int)
    { unimplemented!() }
    #[verifier::external_body]
    pub fn peek_mut(&mut self, depth: usize) -> (r: &mut Value)
        requires depth < old(self).view.len()
        ensures *r == old(self).view[old(self).view.len() - 1 - depth], final(self).view == old(self).view.update(old(self).view.len() - 1 - depth, *final(r))
    { unimplemented!() }
}

pub uninterp spec fn u16_of(b0: u8, b1: u8) -> int;
// code addresses are modelled by offsets (`*const u8` -> usize); `ip.offset(n)` is ip + n
#[verifier::external_body]
fn ip_offset(ip: usize, n: usize) -> (r: usize)
    requires ip + n <= usize::MAX
    ensures r == ip + n
{ unimplemented!() }

//@struct file=yarel/src/object.rs name=CallFrame map "*const u8" => "usize"
//@struct file=yarel/src/object.rs name=ExcHandler map "*const u8" => "usize"
impl ExcHandler {
    //@fn file=yarel/src/object.rs path=ExcHandler::has_catch_block ret=r
    //@  ensures r == (self.finally_ip == self.catch_ip)
    //@end
}
//@struct file=yarel/src/object.rs name=ObjFiber keepfields=stack,frames,exc_handlers,return_value,pending_exception,return_ip,return_handler_count,return_frame_count,pending_frame_count,error_ip map "Stack<Value, STACK_MAX>" => "StackS" map "*const u8" => "usize"

impl ObjFiber {
    // Every installed handler refers to heights that still exist, and inner handlers were installed at heights not
    // below outer ones.
    pub open spec fn handlers_ok(&self) -> bool {
        let hs = self.exc_handlers@;
        &&& self.stack.view.len() <= STACK_MAX
        &&& (forall|i: int| 0 <= i < hs.len() ==> (#[trigger] hs[i]).init_stack_size <= self.stack.view.len() && 1 <= hs[i].frame_count <= self.frames@.len())
        &&& (forall|i: int, j: int| 0 <= i < j < hs.len() ==> (#[trigger] hs[i]).init_stack_size <= (#[trigger] hs[j]).init_stack_size && hs[i].frame_count <= hs[j].frame_count)
    }

    //@fn file=yarel/src/object.rs path=ObjFiber::push_exc_handler
    //@  sig "catch_ip: *const u8" => "catch_ip: usize"
    //@  sig "finally_ip: *const u8" => "finally_ip: usize"
    //@  requires old(self).handlers_ok(), old(self).frames@.len() >= 1
    //@  ensures final(self).exc_handlers@.len() == old(self).exc_handlers@.len() + 1 && final(self).exc_handlers@.drop_last() == old(self).exc_handlers@
    //@  ensures final(self).exc_handlers@.last().catch_ip == catch_ip && final(self).exc_handlers@.last().finally_ip == finally_ip
    //@  ensures final(self).exc_handlers@.last().init_stack_size == old(self).stack.view.len() && final(self).exc_handlers@.last().frame_count == old(self).frames@.len()
    //@  ensures final(self).stack == old(self).stack, final(self).frames == old(self).frames, final(self).handlers_ok()
    //@end

    //@fn file=yarel/src/object.rs path=ObjFiber::pop_exc_handler ret=r
    //@  requires old(self).handlers_ok()
    //@  ensures old(self).exc_handlers@.len() == 0 ==> r is None && final(self).exc_handlers@ == old(self).exc_handlers@
    //@  ensures old(self).exc_handlers@.len() > 0 ==> r == Some(old(self).exc_handlers@.last()) && final(self).exc_handlers@ == old(self).exc_handlers@.drop_last()
    //@  ensures final(self).stack == old(self).stack, final(self).frames == old(self).frames, final(self).handlers_ok()
    //@  ensures final(self).return_ip == old(self).return_ip, final(self).return_value == old(self).return_value, final(self).error_ip == old(self).error_ip, final(self).pending_exception == old(self).pending_exception, final(self).return_handler_count == old(self).return_handler_count && final(self).return_frame_count == old(self).return_frame_count && final(self).pending_frame_count == old(self).pending_frame_count
    //@end

    //@fn file=yarel/src/object.rs path=ObjFiber::take_return_data ret=r
    //@  sig "*const u8" => "usize"
    //@  subst "Value::None" => "Value::none_value()"
    //@  ensures old(self).return_ip is Some ==> r == Some((old(self).return_value, old(self).return_ip->0)) && final(self).return_ip is None
    //@  ensures old(self).return_ip is None ==> r is None && final(self).return_value == old(self).return_value && final(self).return_ip is None
    //@  ensures final(self).stack == old(self).stack, final(self).frames == old(self).frames, final(self).exc_handlers == old(self).exc_handlers
    //@  ensures final(self).pending_exception == old(self).pending_exception, final(self).error_ip == old(self).error_ip, final(self).return_handler_count == old(self).return_handler_count && final(self).return_frame_count == old(self).return_frame_count && final(self).pending_frame_count == old(self).pending_frame_count
    //@end

    // The failure address handed to the trace builder must lie in the code of the frame it is stored into: it is turned
    // into a line number by indexing that frame's chunk (Chunk::code_offset + lines[..]) — a foreign address is a host
    // panic (checked build: subtraction overflow) or a wild index (optimised build).
    //@fn file=yarel/src/object.rs path=ObjFiber::store_error_ip_or props=C17,C02
    //@  sig "*const u8" => "usize"
    //@  subst "frame.closure.function.chunk.code.as_ptr_range()" => "code_range(&frame.closure)"
    //@  requires old(self).frames@.len() > 0, in_code(old(self).frames@.last().closure, alternative)
    //@  ensures @reported_address_lies_in_the_reporting_frame final(self).frames@.len() == old(self).frames@.len() && in_code(final(self).frames@.last().closure, final(self).frames@.last().ip) && final(self).frames@.last().closure == old(self).frames@.last().closure
    //@  ensures final(self).frames@.drop_last() == old(self).frames@.drop_last(), final(self).stack == old(self).stack, final(self).exc_handlers == old(self).exc_handlers
    //@end

    // object.rs close_upvalues(index): closes captured variables from slot `index` up; touches neither stack content
    // nor handlers (its own contract: unit `upvalues`)
    #[verifier::external_body]
    fn close_upvalues(&mut self, index: usize) ensures *final(self) == *old(self) { unimplemented!() }
    #[verifier::external_body]
    fn current_frame(&self) -> (r: Option<&CallFrame>)
        ensures self.frames@.len() > 0 ==> (r matches Some(f) && *f == self.frames@.last()), self.frames@.len() == 0 ==> r is None
    { unimplemented!() }
    #[verifier::external_body]
    fn current_frame_mut(&mut self) -> (r: Option<&mut CallFrame>)
        requires old(self).frames@.len() > 0
        ensures r matches Some(f) && *f == old(self).frames@.last() && final(self).frames@ == old(self).frames@.drop_last().push(*final(f))
            && final(f).slot_base == f.slot_base && final(f).closure == f.closure,
            final(self).stack == old(self).stack, final(self).exc_handlers == old(self).exc_handlers,
            final(self).return_ip == old(self).return_ip, final(self).return_value == old(self).return_value,
            final(self).error_ip == old(self).error_ip, final(self).pending_exception == old(self).pending_exception, final(self).return_handler_count == old(self).return_handler_count && final(self).return_frame_count == old(self).return_frame_count && final(self).pending_frame_count == old(self).pending_frame_count,
    { unimplemented!() }
}

// a native function object as far as Vm::call_native is concerned
pub struct ObjNativeS { pub manages_stack: bool }
// the VM as far as this unit is concerned: instruction pointer, "exception in flight" flag, content of the active fiber
pub struct Vm { pub ip: usize, pub handling_exception: bool, pub fib: ObjFiber, pub ghost code: Seq<u8>,
                pub active_chunk: Gc<Chunk>, pub active_module: Gc<RefCell<ObjModule>> }

impl Vm {
    // The interpreter caches the innermost frame of the active fiber: where to continue, whose code, whose globals.
    pub open spec fn view_ok(&self) -> bool {
        &&& self.fib.frames@.len() > 0
        &&& self.ip == self.fib.frames@.last().ip
        &&& self.active_chunk == self.fib.frames@.last().closure.obj().function.obj().chunk
        &&& self.active_module == self.fib.frames@.last().closure.obj().module
    }

    #[verifier::external_body]
    fn active_fiber(&self) -> (r: &ObjFiber) ensures *r == self.fib { unimplemented!() }
    #[verifier::external_body]
    fn active_fiber_mut(&mut self) -> (r: &mut ObjFiber)
        ensures *r == old(self).fib, final(self).fib == *final(r), final(self).ip == old(self).ip,
            final(self).handling_exception == old(self).handling_exception, final(self).code == old(self).code,
    { unimplemented!() }
    // vm.rs read_short: u16::from_ne_bytes of the two bytes at ip, ip advances by 2. `u16_of` is the same
    // uninterpreted decoding the compiler's encoders are proved against (unit compiler, C04) and the jump handlers are
    // proved with (unit flowvm)
    #[verifier::external_body]
    fn read_short(&mut self) -> (r: u16)
        ensures final(self).ip == old(self).ip + 2, final(self).fib == old(self).fib, final(self).handling_exception == old(self).handling_exception,
            final(self).code == old(self).code,
            r as int == u16_of(old(self).code[old(self).ip as int], old(self).code[old(self).ip as int + 1]),
    { unimplemented!() }
    // load_frame: ip / active chunk / active module := those of the current frame
    //@fn file=yarel/src/vm.rs path=Vm::load_frame props=C08,C14,C09
    //@  requires old(self).fib.frames@.len() > 0
    //@  ensures final(self).fib == old(self).fib, final(self).handling_exception == old(self).handling_exception, final(self).code == old(self).code
    //@  ensures final(self).ip == old(self).fib.frames@.last().ip
    //@  ensures @cached_view_is_the_innermost_frames final(self).view_ok()
    //@end
    #[verifier::external_body]
    fn new_error_from_value(&mut self, value: Value) -> Error
        ensures final(self).fib == old(self).fib, final(self).handling_exception == old(self).handling_exception, final(self).ip == old(self).ip
    { unimplemented!() }

    //@fn file=yarel/src/vm.rs path=Vm::peek ret=r
    //@  requires depth < self.fib.stack.view.len()
    //@  ensures r == self.fib.stack.view[self.fib.stack.view.len() - 1 - depth]
    //@end
    //@fn file=yarel/src/vm.rs path=Vm::push
    //@  requires old(self).fib.stack.view.len() < STACK_MAX
    //@  ensures final(self).fib.stack.view == old(self).fib.stack.view.push(value), final(self).fib.frames == old(self).fib.frames, final(self).fib.exc_handlers == old(self).fib.exc_handlers
    //@  ensures final(self).ip == old(self).ip, final(self).handling_exception == old(self).handling_exception
    //@  ensures final(self).fib.return_ip == old(self).fib.return_ip, final(self).fib.return_value == old(self).fib.return_value, final(self).fib.error_ip == old(self).fib.error_ip, final(self).fib.pending_exception == old(self).fib.pending_exception, final(self).fib.return_handler_count == old(self).fib.return_handler_count && final(self).fib.return_frame_count == old(self).fib.return_frame_count && final(self).fib.pending_frame_count == old(self).fib.pending_frame_count
    //@end
    //@fn file=yarel/src/vm.rs path=Vm::pop ret=r
    //@  requires old(self).fib.stack.view.len() > 0
    //@  ensures r == old(self).fib.stack.view.last(), final(self).fib.stack.view == old(self).fib.stack.view.drop_last(), final(self).fib.frames == old(self).fib.frames, final(self).fib.exc_handlers == old(self).fib.exc_handlers
    //@  ensures final(self).ip == old(self).ip, final(self).handling_exception == old(self).handling_exception
    //@  ensures final(self).fib.return_ip == old(self).fib.return_ip, final(self).fib.return_value == old(self).fib.return_value, final(self).fib.error_ip == old(self).fib.error_ip, final(self).fib.pending_exception == old(self).fib.pending_exception, final(self).fib.return_handler_count == old(self).fib.return_handler_count && final(self).fib.return_frame_count == old(self).fib.return_frame_count && final(self).fib.pending_frame_count == old(self).fib.pending_frame_count
    //@end

    // the remaining operand-stack helpers every handler unit uses by contract (items, classes, hmap, fiberx, …)
    //@fn file=yarel/src/vm.rs path=Vm::stack_size ret=r props=C02,C08
    //@  ensures r == self.fib.stack.view.len()
    //@end
    //@fn file=yarel/src/vm.rs path=Vm::poke props=C02,C08
    //@  requires depth < old(self).fib.stack.view.len()
    //@  ensures @poke_overwrites_exactly_the_slot_at_that_depth final(self).fib.stack.view == old(self).fib.stack.view.update(old(self).fib.stack.view.len() - 1 - depth, value), final(self).code == old(self).code, final(self).fib.frames == old(self).fib.frames, final(self).fib.exc_handlers == old(self).fib.exc_handlers
    //@  ensures final(self).ip == old(self).ip, final(self).handling_exception == old(self).handling_exception
    //@  ensures final(self).fib.return_ip == old(self).fib.return_ip, final(self).fib.return_value == old(self).fib.return_value, final(self).fib.error_ip == old(self).fib.error_ip, final(self).fib.pending_exception == old(self).fib.pending_exception, final(self).fib.return_handler_count == old(self).fib.return_handler_count && final(self).fib.return_frame_count == old(self).fib.return_frame_count && final(self).fib.pending_frame_count == old(self).fib.pending_frame_count
    //@end
    //@fn file=yarel/src/vm.rs path=Vm::discard props=C02,C08
    //@  requires num <= old(self).fib.stack.view.len()
    //@  ensures @discard_drops_exactly_the_topmost_slots final(self).fib.stack.view == old(self).fib.stack.view.take(old(self).fib.stack.view.len() - num), final(self).code == old(self).code, final(self).fib.frames == old(self).fib.frames, final(self).fib.exc_handlers == old(self).fib.exc_handlers
    //@  ensures final(self).ip == old(self).ip, final(self).handling_exception == old(self).handling_exception
    //@  ensures final(self).fib.return_ip == old(self).fib.return_ip, final(self).fib.return_value == old(self).fib.return_value, final(self).fib.error_ip == old(self).fib.error_ip, final(self).fib.pending_exception == old(self).fib.pending_exception, final(self).fib.return_handler_count == old(self).fib.return_handler_count && final(self).fib.return_frame_count == old(self).fib.return_frame_count && final(self).fib.pending_frame_count == old(self).fib.pending_frame_count
    //@end

    // PushExcHandler: the record notes where the catch code and the finally code start (relative operands) and the
    // current heights of both stacks.
    //@fn file=yarel/src/vm.rs path=Vm::push_exc_handler_impl
    //@  rewrite R20
    //@  requires old(self).fib.handlers_ok(), old(self).fib.frames@.len() >= 1, old(self).ip + 4 + 0x20000 <= usize::MAX
    //@  ensures final(self).fib.handlers_ok(), final(self).fib.exc_handlers@.len() == old(self).fib.exc_handlers@.len() + 1
    //@  ensures final(self).fib.exc_handlers@.drop_last() == old(self).fib.exc_handlers@
    //@  ensures final(self).fib.exc_handlers@.last().init_stack_size == old(self).fib.stack.view.len() && final(self).fib.exc_handlers@.last().frame_count == old(self).fib.frames@.len()
    //@  ensures final(self).fib.exc_handlers@.last().catch_ip == old(self).ip + 4 + u16_of(old(self).code[old(self).ip as int], old(self).code[old(self).ip as int + 1])
    //@  ensures final(self).fib.exc_handlers@.last().finally_ip == final(self).fib.exc_handlers@.last().catch_ip + u16_of(old(self).code[old(self).ip as int + 2], old(self).code[old(self).ip as int + 3])
    //@  ensures final(self).ip == old(self).ip + 4, final(self).fib.stack == old(self).fib.stack, final(self).fib.frames == old(self).fib.frames
    //@end

    // PopExcHandler: exactly the innermost record goes
    //@fn file=yarel/src/vm.rs path=Vm::pop_exc_handler_impl
    //@  requires old(self).fib.handlers_ok()
    //@  ensures final(self).fib.handlers_ok(), final(self).fib.stack == old(self).fib.stack, final(self).fib.frames == old(self).fib.frames
    //@  ensures old(self).fib.exc_handlers@.len() > 0 ==> final(self).fib.exc_handlers@ == old(self).fib.exc_handlers@.drop_last()
    //@  ensures old(self).fib.exc_handlers@.len() == 0 ==> final(self).fib.exc_handlers@ == old(self).fib.exc_handlers@
    //@end

    // Delivery. The exception value is on top of the stack. No handler in this fiber: reported as an error, nothing
    // changes. Otherwise: the innermost handler h is removed and only h; the value stack is what it was when h was
    // installed (the handling function's variables intact) plus the exception value; the call stack is cut back to
    // h's frame; execution continues at h's catch address.
    //@fn file=yarel/src/vm.rs path=Vm::unwind_stack ret=r props=C08,C14,C17,C02
    //@  requires old(self).fib.handlers_ok(), old(self).fib.stack.view.len() > 0
    //@  requires old(self).fib.exc_handlers@.len() > 0 ==> old(self).fib.exc_handlers@.last().init_stack_size < STACK_MAX
    //@  ensures old(self).fib.exc_handlers@.len() == 0 ==> r is Err && final(self).fib.stack == old(self).fib.stack && final(self).fib.frames == old(self).fib.frames && final(self).fib.exc_handlers@ == old(self).fib.exc_handlers@
    //@  ensures @an_undelivered_exception_keeps_its_failure_address old(self).fib.exc_handlers@.len() == 0 ==> final(self).fib.error_ip == old(self).fib.error_ip
    //@  ensures old(self).fib.exc_handlers@.len() > 0 ==> r is Ok
    //@  ensures old(self).fib.exc_handlers@.len() > 0 ==> final(self).fib.exc_handlers@ == old(self).fib.exc_handlers@.drop_last()
    //@  ensures @catch_block_receives_the_exception_on_top_of_the_handlers_slots (old(self).fib.exc_handlers@.len() > 0 && old(self).fib.exc_handlers@.last().finally_ip != old(self).fib.exc_handlers@.last().catch_ip) ==> final(self).fib.stack.view == old(self).fib.stack.view.take(old(self).fib.exc_handlers@.last().init_stack_size as int).push(old(self).fib.stack.view.last())
    //@  ensures @exception_waits_in_the_fiber_while_the_finally_block_runs (old(self).fib.exc_handlers@.len() > 0 && old(self).fib.exc_handlers@.last().finally_ip == old(self).fib.exc_handlers@.last().catch_ip) ==> final(self).fib.pending_exception == old(self).fib.stack.view.last()
    //@  ensures @a_waiting_exception_remembers_the_frame_whose_finally_block_it_waits_in (r is Ok && final(self).handling_exception) ==> final(self).fib.pending_frame_count == old(self).fib.exc_handlers@.last().frame_count
    //@  ensures @exception_leaving_a_finally_block_cancels_its_parked_return (old(self).fib.exc_handlers@.len() > 0 && old(self).fib.exc_handlers@.len() - 1 < old(self).fib.return_handler_count) ==> final(self).fib.return_ip is None
    //@  ensures @exception_caught_inside_a_finally_block_keeps_the_parked_return (old(self).fib.exc_handlers@.len() > 0 && old(self).fib.exc_handlers@.len() - 1 >= old(self).fib.return_handler_count) ==> final(self).fib.return_ip == old(self).fib.return_ip && final(self).fib.return_value == old(self).fib.return_value
    //@  ensures @finally_block_is_entered_at_the_height_of_the_normal_path (old(self).fib.exc_handlers@.len() > 0 && old(self).fib.exc_handlers@.last().finally_ip == old(self).fib.exc_handlers@.last().catch_ip) ==> final(self).fib.stack.view == old(self).fib.stack.view.take(old(self).fib.exc_handlers@.last().init_stack_size as int)
    //@  ensures old(self).fib.exc_handlers@.len() > 0 ==> final(self).fib.frames@.len() == old(self).fib.exc_handlers@.last().frame_count && final(self).fib.frames@.drop_last() == old(self).fib.frames@.take(old(self).fib.exc_handlers@.last().frame_count - 1)
    //@  ensures old(self).fib.exc_handlers@.len() > 0 ==> final(self).ip == old(self).fib.exc_handlers@.last().catch_ip && final(self).fib.frames@.last().slot_base == old(self).fib.frames@[old(self).fib.exc_handlers@.last().frame_count - 1].slot_base
    //@  ensures old(self).fib.exc_handlers@.len() > 0 ==> final(self).handling_exception == (old(self).fib.exc_handlers@.last().finally_ip == old(self).fib.exc_handlers@.last().catch_ip)
    //@  ensures final(self).fib.handlers_ok()
    //@  ensures @handler_runs_with_the_code_and_globals_of_its_own_frame old(self).fib.exc_handlers@.len() > 0 ==> final(self).view_ok()
    //@  ensures @caught_exception_leaves_no_failure_address (r is Ok && !final(self).handling_exception) ==> final(self).fib.error_ip is None
    //@end

    // the frame's saved address lies behind at least one instruction of its own code, whose line table is as long as
    // the code (Chunk::write appends to both: unit compiler)
    pub open spec fn frame_ok(f: CallFrame) -> bool {
        let c = f.closure.obj().function.obj().chunk.obj();
        c.code@.len() > 0 && c.lines@.len() == c.code@.len() && c.base() < f.ip <= c.base() + c.code@.len()
    }
    pub open spec fn line_of(f: CallFrame) -> i32 {
        let c = f.closure.obj().function.obj().chunk.obj();
        c.lines@[f.ip - c.base() - 1]
    }
    #[verifier::external_body]
    fn reset_stack(&mut self) ensures final(self).ip == old(self).ip, final(self).code == old(self).code { unimplemented!() }

    // The trace of an uncaught failure: one entry per active call, innermost first, each naming the line of the
    // instruction that call was executing; building it never indexes outside a line table.
    //@fn file=yarel/src/vm.rs path=Vm::runtime_error ret=r props=C17,C02
    //@  subst "let mut new_msg = String::new();" => "let mut new_msg = TraceMsg::new();"
    //@  subst "write!( new_msg, \"[{}, line {}] in \", *module.borrow(), chunk.lines[instruction] ) .expect(\"Unable to write error to buffer.\");" => "trace_head(&mut new_msg, module, chunk.lines[instruction]);"
    //@  rewrite R5 R22
    //@  subst "error.add_message(new_msg.as_str());" => "error.add_message(&new_msg);"
    //@  requires old(self).fib.frames@.len() > 0, in_code(old(self).fib.frames@.last().closure, old(self).ip)
    //@  requires forall|i: int| 0 <= i < old(self).fib.frames@.len() - 1 ==> Self::frame_ok(#[trigger] old(self).fib.frames@[i])
    //@  requires forall|c: Gc<ObjClosure>, a: usize| #[trigger] in_code(c, a) ==> Self::frame_ok(CallFrame { closure: c, ip: a, slot_base: 0 })
    //@  after_stmt "self.active_fiber_mut().store_error_ip_or(ip);" let ghost fs = self.fib.frames@; proof { assert(fs.drop_last() == old(self).fib.frames@.drop_last()); assert(Self::frame_ok(CallFrame { closure: fs.last().closure, ip: fs.last().ip, slot_base: 0 })); assert forall|i: int| 0 <= i < fs.len() - 1 implies #[trigger] fs[i] == old(self).fib.frames@[i] by { assert(fs[i] == fs.drop_last()[i]); assert(old(self).fib.frames@.drop_last()[i] == old(self).fib.frames@[i]); } assert forall|i: int| 0 <= i < fs.len() implies Self::frame_ok(#[trigger] fs[i]) by { if i < fs.len() - 1 { assert(fs[i] == old(self).fib.frames@[i]); } } }
    //@  loop 0 invariant self.fib.frames@ == fs, fs.len() == old(self).fib.frames@.len(), __k0 <= fs.len(), forall|i: int| 0 <= i < fs.len() ==> Self::frame_ok(#[trigger] fs[i])
    //@  loop 0 invariant error.kind == old(error).kind, error.trace.len() == old(error).trace.len() + (fs.len() - __k0), forall|i: int| __k0 <= i < fs.len() ==> error.trace[old(error).trace.len() + (fs.len() - 1 - i)] == Self::line_of(#[trigger] fs[i])
    //@  loop 0 invariant forall|j: int| 0 <= j < old(error).trace.len() ==> error.trace[j] == old(error).trace[j]
    //@  loop 0 invariant forall|i: int| 0 <= i < fs.len() - 1 ==> fs[i] == old(self).fib.frames@[i]
    //@  loop 0 decreases __k0
    //@  at loop0.start let ghost t0 = error.trace;
    //@  at loop0.end proof { assert(error.trace == t0.push(Self::line_of(fs[__k0 as int]))); assert forall|i: int| __k0 <= i < fs.len() implies error.trace[old(error).trace.len() + (fs.len() - 1 - i)] == Self::line_of(#[trigger] fs[i]) by { if i > __k0 { assert(t0[old(error).trace.len() + (fs.len() - 1 - i)] == Self::line_of(fs[i])); } } }
    //@  before_stmt "self.reset_stack();" proof { assert forall|i: int| 0 <= i < fs.len() - 1 implies error.trace[old(error).trace.len() + (fs.len() - 1 - i)] == Self::line_of(#[trigger] old(self).fib.frames@[i]) by { assert(fs[i] == old(self).fib.frames@[i]); assert(error.trace[old(error).trace.len() + (fs.len() - 1 - i)] == Self::line_of(fs[i])); } }
    //@  ensures @one_trace_entry_per_active_call final(error).trace.len() == old(error).trace.len() + old(self).fib.frames@.len()
    //@  ensures @outer_calls_are_listed_after_inner_ones_with_the_line_they_were_executing forall|i: int| 0 <= i < old(self).fib.frames@.len() - 1 ==> final(error).trace[old(error).trace.len() + (old(self).fib.frames@.len() - 1 - i)] == Self::line_of(#[trigger] old(self).fib.frames@[i])
    //@  ensures final(error).kind == old(error).kind, r == *final(error)
    //@end

    // A failing built-in operation: the error becomes an exception object and is delivered like a thrown value; if
    // nobody catches it, the trace is built from the address of the failing instruction (C17), as for `throw`.
    #[verifier::external_body]
    fn new_root_obj_err_from_error(&mut self, error: Error) -> (r: Value)
        ensures final(self).fib == old(self).fib, final(self).handling_exception == old(self).handling_exception, final(self).ip == old(self).ip, final(self).code == old(self).code
    { unimplemented!() }
    //@fn file=yarel/src/vm.rs path=Vm::try_handle_error ret=r props=C08,C17
    //@  subst "let obj_err = self.new_root_obj_err_from_error(error); self.push(Value::ObjInstance(obj_err.as_gc()));" => "let obj_err = self.new_root_obj_err_from_error(error); self.push(obj_err);"
    //@  requires old(self).fib.handlers_ok(), old(self).fib.stack.view.len() < STACK_MAX
    //@  requires old(self).fib.exc_handlers@.len() > 0 ==> old(self).fib.exc_handlers@.last().init_stack_size < STACK_MAX
    //@  ensures @a_failing_operation_is_delivered_to_the_innermost_handler old(self).fib.exc_handlers@.len() > 0 ==> r is Ok && final(self).fib.exc_handlers@ == old(self).fib.exc_handlers@.drop_last() && final(self).ip == old(self).fib.exc_handlers@.last().catch_ip
    //@  ensures @an_uncaught_failure_reports_the_address_of_the_failing_instruction old(self).fib.exc_handlers@.len() == 0 ==> r is Err && final(self).fib.error_ip == Some(old(self).ip)
    //@  ensures final(self).fib.handlers_ok()
    //@end

    // Calling a native function (host-provided built-in): its error surfaces as a catchable value delivered to the
    // innermost handler; uncaught, the trace names the address of the call. A native that does not manage the stack
    // itself has its arguments removed and its result put in the callee slot.
    // set_native_arity / take_native_arity: bookkeeping for Vm::native_arg (not part of this unit's state)
    #[verifier::external_body]
    fn note_native_arity(&mut self, n: Option<usize>) ensures *final(self) == *old(self) { unimplemented!() }
    // `(native.function)(self, arg_count)`: a native that does not manage the stack leaves the active fiber's stacks as
    // they are (it reads its arguments through peek); one that does (Fiber.call / Fiber.yield) is outside this contract
    #[verifier::external_body]
    fn run_native(&mut self, native: &ObjNativeS, arg_count: usize) -> (r: Result<Value, Error>)
        ensures !native.manages_stack ==> final(self).fib == old(self).fib && final(self).ip == old(self).ip && final(self).handling_exception == old(self).handling_exception && final(self).code == old(self).code,
            // a FAILING stack-managing native (unit fiberx: a rejected Fiber.call changes nothing, a rejected Fiber.yield
            // has already taken its argument off the stack) removes at most its own arguments, leaves everything from
            // the callee slot down — and frames, handlers, instruction pointer — as they were
            (native.manages_stack && r is Err) ==> arg_count < old(self).fib.stack.view.len() ==> (final(self).fib.stack.view.len() >= old(self).fib.stack.view.len() - arg_count && final(self).fib.stack.view.len() <= old(self).fib.stack.view.len()
                && final(self).fib.stack.view.take(old(self).fib.stack.view.len() - arg_count) == old(self).fib.stack.view.take(old(self).fib.stack.view.len() - arg_count)
                && final(self).fib.frames == old(self).fib.frames && final(self).fib.exc_handlers == old(self).fib.exc_handlers && final(self).ip == old(self).ip && final(self).handling_exception == old(self).handling_exception && final(self).code == old(self).code
                && final(self).fib.return_ip == old(self).fib.return_ip && final(self).fib.return_value == old(self).fib.return_value && final(self).fib.return_handler_count == old(self).fib.return_handler_count && final(self).fib.return_frame_count == old(self).fib.return_frame_count && final(self).fib.pending_frame_count == old(self).fib.pending_frame_count && final(self).fib.pending_exception == old(self).fib.pending_exception),
    { unimplemented!() }

    //@fn file=yarel/src/vm.rs path=Vm::call_native ret=r props=C08,C17,C02,C09
    //@  sig "native: Gc<ObjNative>" => "native: &ObjNativeS"
    //@  subst "self.active_fiber_mut().set_native_arity(arg_count);" => "self.note_native_arity(Some(arg_count));"
    //@  subst "self.active_fiber_mut().take_native_arity();" => "self.note_native_arity(None);"
    //@  subst "let function = native.function;" => ""
    //@  subst "let result = function(self, arg_count);" => "let result = self.run_native(native, arg_count);"
    //@  subst "let exc_object = self.new_root_obj_err_from_error(error); self.poke(0, Value::ObjInstance(exc_object.as_gc()));" => "let exc_object = self.new_root_obj_err_from_error(error); self.poke(0, exc_object);"
    //@  requires old(self).fib.handlers_ok(), arg_count < old(self).fib.stack.view.len()
    //@  requires forall|i: int| 0 <= i < old(self).fib.exc_handlers@.len() ==> (#[trigger] old(self).fib.exc_handlers@[i]).init_stack_size <= old(self).fib.stack.view.len() - arg_count - 1
    //@  requires old(self).fib.exc_handlers@.len() > 0 ==> old(self).fib.exc_handlers@.last().init_stack_size < STACK_MAX
    //@  ensures @a_failing_native_is_delivered_to_the_innermost_handler (!native.manages_stack && r is Ok && final(self).fib.exc_handlers@ != old(self).fib.exc_handlers@) ==> final(self).fib.exc_handlers@ == old(self).fib.exc_handlers@.drop_last() && final(self).ip == old(self).fib.exc_handlers@.last().catch_ip
    //@  ensures @an_uncaught_native_failure_reports_the_address_of_the_call (!native.manages_stack && r is Err) ==> old(self).fib.exc_handlers@.len() == 0 && final(self).fib.error_ip == Some(old(self).ip)
    //@  ensures @the_result_replaces_callee_and_arguments (!native.manages_stack && r is Ok && final(self).fib.exc_handlers@ == old(self).fib.exc_handlers@) ==> final(self).fib.stack.view.len() == old(self).fib.stack.view.len() - arg_count && final(self).fib.stack.view.drop_last() == old(self).fib.stack.view.take(old(self).fib.stack.view.len() - arg_count - 1)
    //@  ensures !native.manages_stack ==> final(self).fib.handlers_ok()
    //@  assert @a_failed_native_leaves_the_handling_functions_variables_intact before_stmt "self.unwind_stack()?" old(self).fib.exc_handlers@.len() > 0 ==> ({ let h = old(self).fib.exc_handlers@.last().init_stack_size as int; self.fib.exc_handlers == old(self).fib.exc_handlers && self.fib.stack.view.len() > h && self.fib.stack.view.take(h) =~= old(self).fib.stack.view.take(h) })
    //@end

    // throw: marks the exception as in flight and delivers it
    //@fn file=yarel/src/vm.rs path=Vm::throw_impl ret=r
    //@  requires old(self).fib.handlers_ok(), old(self).fib.stack.view.len() > 0
    //@  requires old(self).fib.exc_handlers@.len() > 0 ==> old(self).fib.exc_handlers@.last().init_stack_size < STACK_MAX
    //@  ensures old(self).fib.exc_handlers@.len() == 0 ==> r is Err
    //@  ensures old(self).fib.exc_handlers@.len() > 0 ==> r is Ok && final(self).fib.exc_handlers@ == old(self).fib.exc_handlers@.drop_last() && final(self).ip == old(self).fib.exc_handlers@.last().catch_ip
    //@  ensures final(self).fib.handlers_ok()
    //@end

    // JumpFinally (`return` inside a try block): the return value and the address of the Return instruction are
    // parked, the try statement's handler is removed (and only it), its block's slots are discarded, and execution
    // continues at the handler's finally address.
    //@fn file=yarel/src/vm.rs path=Vm::jump_finally_impl
    //@  requires old(self).fib.handlers_ok(), old(self).fib.stack.view.len() > 0, old(self).fib.exc_handlers@.len() > 0
    //@  requires old(self).fib.exc_handlers@.last().init_stack_size < old(self).fib.stack.view.len()
    //@  ensures final(self).fib.exc_handlers@ == old(self).fib.exc_handlers@.drop_last()
    //@  ensures final(self).fib.stack.view == old(self).fib.stack.view.take(old(self).fib.exc_handlers@.last().init_stack_size as int)
    //@  ensures final(self).fib.return_ip == Some(old(self).ip) && final(self).fib.return_value == old(self).fib.stack.view.last()
    //@  ensures @parked_return_remembers_the_handlers_outside_its_finally_block final(self).fib.return_handler_count == final(self).fib.exc_handlers@.len()
    //@  ensures @parked_return_remembers_the_frame_it_belongs_to final(self).fib.return_frame_count == old(self).fib.frames@.len()
    //@  ensures final(self).ip == old(self).fib.exc_handlers@.last().finally_ip, final(self).fib.frames == old(self).fib.frames
    //@  ensures final(self).fib.handlers_ok()
    //@end

    // EndFinally: an exception still in flight continues to the next handler out; a parked return resumes (value back
    // on the stack, execution at the parked Return instruction); otherwise fall through.
    //@fn file=yarel/src/vm.rs path=Vm::end_finally_impl ret=r
    //@  subst "Value::None" => "Value::none_value()"
    //@  requires old(self).fib.handlers_ok()
    //@  requires old(self).fib.stack.view.len() < STACK_MAX
    //@  requires old(self).handling_exception && old(self).fib.exc_handlers@.len() > 0 ==> old(self).fib.exc_handlers@.last().init_stack_size < STACK_MAX - 1
    //@  ensures !old(self).handling_exception && old(self).fib.return_ip is None ==> r is Ok && final(self).fib.stack == old(self).fib.stack && final(self).ip == old(self).ip && final(self).fib.exc_handlers == old(self).fib.exc_handlers
    //@  ensures (!old(self).handling_exception && old(self).fib.return_ip is Some) ==> r is Ok && final(self).ip == old(self).fib.return_ip->0 && final(self).fib.stack.view == old(self).fib.stack.view.push(old(self).fib.return_value) && final(self).fib.return_ip is None && final(self).fib.exc_handlers == old(self).fib.exc_handlers
    //@  ensures old(self).handling_exception && old(self).fib.exc_handlers@.len() == 0 ==> r is Err
    //@  ensures @a_re_raised_exception_that_finds_a_handler_continues_there_whatever_return_is_parked (old(self).handling_exception && old(self).fib.exc_handlers@.len() > 0) ==> r is Ok && final(self).ip == old(self).fib.exc_handlers@.last().catch_ip && final(self).fib.exc_handlers@ == old(self).fib.exc_handlers@.drop_last()
    //@  ensures @pending_exception_is_re_raised_to_the_next_handler (old(self).handling_exception && old(self).fib.exc_handlers@.len() > 0 && old(self).fib.return_ip is None) ==> r is Ok && final(self).fib.exc_handlers@ == old(self).fib.exc_handlers@.drop_last()
    //@  ensures (old(self).handling_exception && old(self).fib.exc_handlers@.len() > 0 && old(self).fib.return_ip is None) ==> final(self).ip == old(self).fib.exc_handlers@.last().catch_ip
    //@  ensures ((old(self).handling_exception && old(self).fib.exc_handlers@.len() > 0 && old(self).fib.return_ip is None) && old(self).fib.exc_handlers@.last().finally_ip != old(self).fib.exc_handlers@.last().catch_ip) ==> final(self).fib.stack.view =~= old(self).fib.stack.view.take(old(self).fib.exc_handlers@.last().init_stack_size as int).push(old(self).fib.pending_exception)
    //@  ensures ((old(self).handling_exception && old(self).fib.exc_handlers@.len() > 0 && old(self).fib.return_ip is None) && old(self).fib.exc_handlers@.last().finally_ip == old(self).fib.exc_handlers@.last().catch_ip) ==> final(self).fib.pending_exception == old(self).fib.pending_exception
    //@  ensures final(self).fib.handlers_ok()
    //@end
}

} // verus!
fn main() {}
