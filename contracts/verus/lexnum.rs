//@unit lexnum
//@property C19
// "Number lexing never absorbs a following `.` that starts a method call or range, so `1.len`, `1..3` and `1.5` are
// told apart for every digit string" (yarel/src/scanner.rs Scanner::number and the cursor helpers it is built from).
//
// The source text is a Rust `String`; Verus has no `str` byte reasoning, so the text is modelled as in unit `index`: an
// opaque string with its UTF-8 byte sequence `bytes()`, length `blen()` and character-boundary predicate `is_cb()`
// (std facts about them are axioms); `&s[a..b]` becomes `str_slice(s, a, b)` whose precondition IS std's panic
// condition (R8), and a `&str` result becomes the triple (source, a, b).
use vstd::prelude::*;
verus! {

global size_of usize == 8;

#[verifier::external_body]
pub struct SrcText { _p: u8 }
impl SrcText {
    pub uninterp spec fn blen(&self) -> nat;
    pub uninterp spec fn is_cb(&self, i: int) -> bool;
    pub uninterp spec fn bytes(&self) -> Seq<u8>;
    #[verifier::external_body]
    pub fn len(&self) -> (r: usize) ensures r == self.blen(), r <= isize::MAX { unimplemented!() }
    #[verifier::external_body]
    pub fn is_char_boundary(&self, i: usize) -> (r: bool) ensures r == self.is_cb(i as int) { unimplemented!() }
}
pub struct StrSlice { pub ghost src: SrcText, pub ghost a: int, pub ghost b: int }
impl StrSlice {
    pub open spec fn view(&self) -> Seq<u8> { self.src.bytes().subrange(self.a, self.b) }
}
#[verifier::external_body]
pub fn str_slice(s: &SrcText, a: usize, b: usize) -> (r: StrSlice)
    requires a <= b <= s.blen(), s.is_cb(a as int), s.is_cb(b as int),
    ensures r.src == *s, r.a == a, r.b == b,
{ unimplemented!() }
// the literal "" (peek_next at the end of the text)
#[verifier::external_body]
pub fn empty_slice(s: &SrcText) -> (r: StrSlice) ensures r.src == *s, r.a == r.b, 0 <= r.a <= s.blen() { unimplemented!() }
// `slice == "."`: byte comparison with the one-byte literal (std, trusted)
#[verifier::external_body]
pub fn slice_is_dot(x: &StrSlice) -> (r: bool) ensures r == (x@ =~= seq![0x2eu8]) { unimplemented!() }

pub broadcast axiom fn axiom_bytes_len(s: SrcText)
    ensures #[trigger] s.bytes().len() == s.blen(), s.blen() <= isize::MAX;   // std: a str is at most isize::MAX bytes
pub broadcast axiom fn axiom_cb_ends(s: SrcText)
    ensures s.is_cb(0) && s.is_cb(#[trigger] s.blen() as int);
// valid UTF-8 (String's type invariant): at a character boundary inside the text stands a lead byte and the next
// boundary is exactly the encoded width further on
pub open spec fn utf8_width(b: u8) -> int { if b < 0x80 { 1 } else if b < 0xE0 { 2 } else if b < 0xF0 { 3 } else { 4 } }
pub broadcast axiom fn axiom_utf8_char(s: SrcText, i: int)
    requires 0 <= i < s.blen(), s.is_cb(i)
    ensures ({
        let b = #[trigger] s.bytes()[i];
        let w = utf8_width(b);
        &&& !(0x80 <= b < 0xC2) && b <= 0xF4
        &&& i + w <= s.blen() && s.is_cb(i + w)
        &&& forall|j: int| i < j < i + w ==> !s.is_cb(j)
    });

pub open spec fn dig(b: u8) -> bool { 0x30 <= b <= 0x39 }
// scanner.rs is_digit(s): `!s.is_empty() && s.chars().all(|c| c.is_ascii_digit())` — on a str that is: non-empty and
// every byte an ASCII digit (a multi-byte character has no byte in 0x30..0x39); std iterator adapters, by contract
#[verifier::external_body]
fn is_digit(s: StrSlice) -> (r: bool)
    ensures r == (s.a < s.b && forall|k: int| s.a <= k < s.b ==> dig(#[trigger] s.src.bytes()[k]))
{ unimplemented!() }

// number of consecutive ASCII digits starting at byte i
pub open spec fn digit_run(bs: Seq<u8>, i: int) -> int
    decreases bs.len() - i
{
    if 0 <= i < bs.len() && dig(bs[i]) { 1 + digit_run(bs, i + 1) } else { 0 }
}
pub proof fn lemma_digit_run(bs: Seq<u8>, i: int, j: int)
    requires 0 <= i <= j <= bs.len(), forall|k: int| i <= k < j ==> dig(#[trigger] bs[k]), j == bs.len() || !dig(bs[j])
    ensures digit_run(bs, i) == j - i
    decreases j - i
{
    if i < j { lemma_digit_run(bs, i + 1, j); }
}
// where the reference lexer ends a number whose integer digits start at byte i
pub open spec fn number_end(bs: Seq<u8>, i: int) -> int {
    let j = i + digit_run(bs, i);
    if j + 1 < bs.len() && bs[j] == 0x2e && dig(bs[j + 1]) { j + 1 + digit_run(bs, j + 1) } else { j }
}

//@enum file=yarel/src/scanner.rs name=TokenKind
pub struct Token { pub kind: TokenKind }
//@struct file=yarel/src/scanner.rs name=Scanner map "String" => "SrcText"

impl Scanner {
    pub open spec fn wf(&self) -> bool { self.current <= self.source.blen() && self.source.is_cb(self.current as int) }
    // the character at byte i (i a boundary) ends at r: next boundary, nothing in between
    pub open spec fn char_end(&self, i: int, r: int) -> bool {
        if i < self.source.blen() { i < r <= self.source.blen() && self.source.is_cb(r) && (forall|j: int| i < j < r ==> !self.source.is_cb(j)) } else { r == self.source.blen() }
    }

    #[verifier::external_body]
    fn make_token(&self, kind: TokenKind) -> (r: Token) ensures r.kind == kind { unimplemented!() }

    //@fn file=yarel/src/scanner.rs path=Scanner::get_next_char_boundary ret=r
    //@  requires start <= self.source.blen()
    //@  ensures self.char_end(start as int, r as int)
    //@  at body.start broadcast use axiom_cb_ends; broadcast use axiom_bytes_len; proof { assert(self.source.bytes().len() == self.source.blen()); }
    //@  loop 0 iter it
    //@  loop 0 invariant it.snapshot.start == start + 1, it.snapshot.end == self.source.blen()
    //@  loop 0 invariant forall|j: int| start < j < start + 1 + it.index@ ==> !self.source.is_cb(j)
    //@end
    //@fn file=yarel/src/scanner.rs path=Scanner::is_at_end ret=r
    //@  ensures r == (self.current >= self.source.blen())
    //@end
    //@fn file=yarel/src/scanner.rs path=Scanner::advance ret=r
    //@  rewrite R8
    //@  sig "-> &str" => "-> StrSlice"
    //@  subst "str_slice(self.source," => "str_slice(&self.source,"
    //@  requires old(self).wf()
    //@  ensures final(self).wf(), old(self).char_end(old(self).current as int, final(self).current as int)
    //@  ensures final(self).source == old(self).source, final(self).start == old(self).start
    //@  ensures r.src == old(self).source && r.a == old(self).current && r.b == final(self).current
    //@  at body.start broadcast use axiom_cb_ends;
    //@end
    //@fn file=yarel/src/scanner.rs path=Scanner::peek ret=r
    //@  rewrite R8
    //@  sig "-> &str" => "-> StrSlice"
    //@  subst "str_slice(self.source," => "str_slice(&self.source,"
    //@  requires self.wf()
    //@  ensures r.src == self.source && r.a == self.current && self.char_end(self.current as int, r.b)
    //@  at body.start broadcast use axiom_cb_ends;
    //@end
    //@fn file=yarel/src/scanner.rs path=Scanner::peek_next ret=r
    //@  rewrite R8
    //@  sig "-> &str" => "-> StrSlice"
    //@  subst "str_slice(self.source," => "str_slice(&self.source,"
    //@  subst "\"\"" => "empty_slice(&self.source)"
    //@  requires self.wf()
    //@  ensures r.src == self.source
    //@  ensures self.current >= self.source.blen() ==> r.a == r.b
    //@  ensures self.current < self.source.blen() ==> self.char_end(self.current as int, r.a) && self.char_end(r.a, r.b)
    //@  at body.start broadcast use axiom_cb_ends;
    //@end

    // The number token that starts at `start` (its first digit already consumed) ends exactly where the reference
    // lexer `number_end` ends it: after the integer digits, plus `.` and the fraction digits only if a digit follows
    // the `.` — so `1.len` and `1..3` leave the `.` to the next token and `1.5` is one token.
    //@fn file=yarel/src/scanner.rs path=Scanner::number ret=r
    //@  subst "self.peek() == \".\"" => "slice_is_dot(&self.peek())"
    //@  requires old(self).wf()
    //@  ensures @number_token_ends_where_the_reference_lexer_ends_it final(self).current == number_end(old(self).source.bytes(), old(self).current as int)
    //@  ensures final(self).wf(), final(self).source == old(self).source, final(self).start == old(self).start, r.kind is Number
    //@  at body.start broadcast use axiom_cb_ends; broadcast use axiom_bytes_len; broadcast use axiom_utf8_char; let ghost bs = self.source.bytes(); let ghost i0 = self.current as int;
    //@  loop 0 invariant bs == self.source.bytes(), i0 == old(self).current, self.wf(), self.source == old(self).source, self.start == old(self).start, i0 <= self.current, forall|k: int| i0 <= k < self.current ==> dig(#[trigger] bs[k])
    //@  loop 0 decreases self.source.blen() - self.current
    //@  at loop0.start broadcast use axiom_cb_ends; broadcast use axiom_bytes_len; broadcast use axiom_utf8_char;
    //@  before_stmt "if slice_is_dot(&self.peek())" let ghost j = self.current as int; proof { lemma_digit_run(bs, i0, j); }
    //@  loop 1 invariant bs == self.source.bytes(), i0 == old(self).current, self.wf(), self.source == old(self).source, self.start == old(self).start, j + 1 <= self.current, forall|k: int| j + 1 <= k < self.current ==> dig(#[trigger] bs[k])
    //@  loop 1 invariant j + 1 < bs.len() && bs[j] == 0x2e && dig(bs[j + 1]), digit_run(bs, i0) == j - i0
    //@  loop 1 decreases self.source.blen() - self.current
    //@  at loop1.before proof { assert(bs.subrange(j, self.current as int).len() == self.current - j); assert(bs.subrange(j, self.current as int)[0] == bs[j]); }
    //@  at loop1.start broadcast use axiom_cb_ends; broadcast use axiom_bytes_len; broadcast use axiom_utf8_char;
    //@  at body.tail proof { if self.current > j { lemma_digit_run(bs, j + 1, self.current as int); } }
    //@end
}

} // verus!
fn main() {}
