//@unit tokens
//@property C03
// The parser's token pump (yarel/src/compiler.rs Parser::advance, consume, synchronise) against the scanner's contract
// (unit `scan`: every token other than Eof consumes at least one character, the scanner never panics, at the end of
// the text it keeps answering Eof). Decided here: `advance` TERMINATES on every text — a run of lexical errors is
// reported token by token and each costs input —, leaves a non-Error token in `current`, and moves the stream on by
// exactly one token; `consume` consumes iff the kind matches and otherwise reports; error recovery (`synchronise`)
// terminates and only ever moves forward. These are the contracts the stubs `advance` / `consume` / `synchronise` of the
// parser units (pratt, compiler, flowc, tryc, classc) assume.
use vstd::prelude::*;
verus! {

global size_of usize == 8;

//@enum file=yarel/src/scanner.rs name=TokenKind eq=1
#[verifier::external_body]
pub struct Str { _p: u8 }
impl Clone for Str { #[verifier::external_body] fn clone(&self) -> (r: Self) ensures r == *self { unimplemented!() } }
impl Str { #[verifier::external_body] fn as_str(&self) -> (r: &str) { unimplemented!() } }
pub struct Token { pub kind: TokenKind, pub source: Str }
impl Clone for Token { #[verifier::external_body] fn clone(&self) -> (r: Self) ensures r == *self { unimplemented!() } }

// The scanner as a stream (its functions are under contract in unit `scan`): `toks_left` proper tokens are still to
// come, interleaved with Error tokens; every token that is not Eof costs at least one character of the remaining text;
// Eof is answered when, and for as long as, nothing is left.
pub struct Scanner { pub ghost chars_left: nat, pub ghost toks_left: nat }
impl Scanner {
    #[verifier::external_body]
    fn scan_token(&mut self) -> (r: Token)
        ensures
            r.kind is Eof ==> old(self).toks_left == 0 && *final(self) == *old(self),
            r.kind is Error ==> final(self).toks_left == old(self).toks_left && final(self).chars_left < old(self).chars_left,
            !(r.kind is Eof) && !(r.kind is Error) ==> old(self).toks_left > 0 && final(self).toks_left == old(self).toks_left - 1 && final(self).chars_left < old(self).chars_left,
    { unimplemented!() }
}
pub struct CellBool { pub v: bool }
impl CellBool {
    #[verifier::external_body] fn set(&mut self, b: bool) ensures final(self).v == b { unimplemented!() }
}

pub struct Parser { pub current: Token, pub previous: Token, pub scanner: Scanner, pub panic_mode: CellBool, pub ghost reports: nat }
impl Parser {
    // tokens still ahead, the current one included (the measure the parser units use for progress and termination)
    pub open spec fn tokens_left(&self) -> nat { if self.current.kind is Eof { 0 } else { self.scanner.toks_left + 1 } }
    // `current` is never an Error token, and once it is Eof the scanner has nothing more
    pub open spec fn stream_ok(&self) -> bool { !(self.current.kind is Error) && (self.current.kind is Eof ==> self.scanner.toks_left == 0) }
    // compiler.rs error_at_current (its own contract: unit diag — a report is on record afterwards): reads the current token
    #[verifier::external_body]
    fn error_at_current(&mut self, message: &str)
        ensures final(self).reports == old(self).reports + 1, final(self).current == old(self).current, final(self).previous == old(self).previous, final(self).scanner == old(self).scanner
    { unimplemented!() }

    //@fn file=yarel/src/compiler.rs path=Parser::advance
    //@  requires old(self).stream_ok()
    //@  ensures @advance_leaves_a_proper_token_or_eof final(self).stream_ok()
    //@  ensures @advance_moves_the_stream_on_by_exactly_one_token final(self).previous == old(self).current && final(self).tokens_left() == (if old(self).tokens_left() > 0 { (old(self).tokens_left() - 1) as nat } else { 0 })
    //@  ensures final(self).reports >= old(self).reports, final(self).scanner.chars_left <= old(self).scanner.chars_left
    //@  ensures @a_consumed_token_costs_input old(self).tokens_left() > 0 && !(final(self).current.kind is Eof) ==> final(self).scanner.chars_left < old(self).scanner.chars_left
    //@  loop 0 invariant_except_break self.scanner.toks_left == old(self).scanner.toks_left
    //@  loop 0 invariant self.previous == old(self).current, self.scanner.chars_left <= old(self).scanner.chars_left, self.reports >= old(self).reports
    //@  loop 0 ensures !(self.current.kind is Error), self.current.kind is Eof ==> self.scanner.toks_left == 0 && old(self).scanner.toks_left == 0
    //@  loop 0 ensures !(self.current.kind is Eof) ==> old(self).scanner.toks_left > 0 && self.scanner.toks_left == old(self).scanner.toks_left - 1 && self.scanner.chars_left < old(self).scanner.chars_left
    //@  loop 0 decreases self.scanner.chars_left
    //@end

    //@fn file=yarel/src/compiler.rs path=Parser::consume
    //@  requires old(self).stream_ok()
    //@  ensures final(self).stream_ok()
    //@  ensures @an_expected_token_is_consumed old(self).current.kind == kind ==> final(self).tokens_left() == (if old(self).tokens_left() > 0 { (old(self).tokens_left() - 1) as nat } else { 0 }) && final(self).previous == old(self).current
    //@  ensures @an_unexpected_token_is_reported_and_left_in_place old(self).current.kind != kind ==> final(self).reports == old(self).reports + 1 && final(self).current == old(self).current && final(self).tokens_left() == old(self).tokens_left()
    //@end

    //@fn file=yarel/src/compiler.rs path=Parser::synchronise
    //@  requires old(self).stream_ok()
    //@  ensures @recovery_only_moves_forward final(self).stream_ok() && final(self).tokens_left() <= old(self).tokens_left()
    //@  loop 0 invariant self.stream_ok(), self.tokens_left() <= old(self).tokens_left()
    //@  loop 0 decreases self.tokens_left()
    //@end
}

} // verus!
fn main() {}
