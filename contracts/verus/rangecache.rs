//@unit rangecache
//@property C16
// The range cache of the VM (yarel/src/vm.rs, Vm::build_range): a bounded set of rooted range objects.
use vstd::prelude::*;
verus! {

global size_of usize == 8;

// ------------------------------------------------------------------ environment stand-ins (assumed)
pub struct ObjClass { }
#[verifier::external_body]
#[verifier::accept_recursive_types(T)]
pub struct Gc<T> { p: core::marker::PhantomData<T> }
impl<T> Clone for Gc<T> { #[verifier::external_body] fn clone(&self) -> (r: Self) ensures r == *self { Gc { p: core::marker::PhantomData } } }
impl<T> Copy for Gc<T> {}
impl<T> Gc<T> { pub uninterp spec fn id(&self) -> int; }

// Root<T>: a counted handle; id() the heap cell, obj() its content. `as_mut` is memory.rs `unsafe fn as_mut`.
#[verifier::external_body]
#[verifier::accept_recursive_types(T)]
pub struct Root<T> { p: core::marker::PhantomData<T> }
impl<T> Root<T> {
    pub uninterp spec fn id(&self) -> int;
    pub uninterp spec fn obj(&self) -> T;
    #[verifier::external_body]
    pub fn as_gc(&self) -> (g: Gc<T>) ensures g.id() == self.id() { unimplemented!() }
    #[verifier::external_body]
    pub fn new(data: T) -> (r: Root<T>) ensures r.obj() == data { unimplemented!() }
    #[verifier::external_body]
    pub unsafe fn as_mut(&mut self) -> (r: &mut T)
        ensures *r == old(self).obj(), final(self).obj() == *final(r), final(self).id() == old(self).id(),
    { unimplemented!() }
}
impl<T> std::ops::Deref for Root<T> {
    type Target = T;
    #[verifier::external_body]
    fn deref(&self) -> (r: &T) ensures *r == self.obj() { unimplemented!() }
}
#[verifier::external_body]
pub struct Instant { _p: u8 }
#[verifier::external_body]
fn instant_now() -> Instant { unimplemented!() }

//@struct file=yarel/src/object.rs name=ObjRange
impl ObjRange {
    //@fn file=yarel/src/object.rs path=ObjRange::new ret=r
    //@  ensures r.begin == begin && r.end == end && r.class == class
    //@end
}
//@const file=yarel/src/vm.rs name=RANGE_CACHE_SIZE

pub type Cache = Vec<(Root<ObjRange>, Instant)>;

// std iterator adapters by contract: `iter().find(pred)` yields an element satisfying pred, or None if there is none;
// `iter().enumerate().max_by(..).map(|e| e.0)` yields the index of an element of a non-empty Vec.
#[verifier::external_body]
fn cache_find(cache: &Cache, begin: isize, end: isize) -> (r: Option<&(Root<ObjRange>, Instant)>)
    ensures
        r matches Some(e) ==> (exists|i: int| 0 <= i < cache@.len() && cache@[i] == *e) && e.0.obj().begin == begin && e.0.obj().end == end,
        r is None ==> forall|i: int| 0 <= i < cache@.len() ==> !((#[trigger] cache@[i]).0.obj().begin == begin && cache@[i].0.obj().end == end),
{ unimplemented!() }
#[verifier::external_body]
fn cache_oldest(cache: &Cache) -> (r: usize)
    requires cache@.len() > 0
    ensures r < cache@.len()
{ unimplemented!() }

#[verifier::external_body]
pub struct ClassStore { _p: u8 }
impl ClassStore {
    #[verifier::external_body]
    fn range_class(&self) -> Gc<ObjClass> { unimplemented!() }
}

//@struct file=yarel/src/vm.rs name=Vm keepfields=class_store,range_cache map "CoreClassStore" => "ClassStore" map "time::Instant" => "Instant"

impl Vm {
    // Allocation (memory.rs Root::new): the new cell is none of the cells the cache currently roots (live cells are
    // distinct — allocator assumption, placed here because only the VM knows what it roots)
    #[verifier::external_body]
    fn alloc_range(&self, data: ObjRange) -> (r: Root<ObjRange>)
        ensures r.obj() == data, forall|i: int| 0 <= i < self.range_cache@.len() ==> (#[trigger] self.range_cache@[i]).0.id() != r.id(),
    { unimplemented!() }

    // the cache never holds more than the configured 8 roots (so at most 8 ranges are pinned by it)
    pub open spec fn cache_ok(&self) -> bool {
        &&& self.range_cache@.len() <= 8
        // each cached root designates its own heap cell
        &&& forall|i: int, j: int| 0 <= i < self.range_cache@.len() && 0 <= j < self.range_cache@.len() && (#[trigger] self.range_cache@[i]).0.id() == (#[trigger] self.range_cache@[j]).0.id() ==> i == j
    }

    //@fn file=yarel/src/vm.rs path=Vm::build_range ret=r props=C16,C18,C05
    //@  subst "self .range_cache .iter() .find(|&(r, _)| r.begin == begin && r.end == end)" => "cache_find(&self.range_cache, begin, end)"
    //@  subst "self .range_cache .iter() .enumerate() .max_by(|first, second| first.1 .1.elapsed().cmp(&second.1 .1.elapsed())) .map(|e| e.0) .expect(\"Expect to find max given non-empty Vec.\")" => "cache_oldest(&self.range_cache)"
    //@  subst "time::Instant::now()" => "instant_now()"
    //@  subst "Root::new(ObjRange::new(class, begin, end))" => "self.alloc_range(ObjRange::new(class, begin, end))"
    //@  requires old(self).cache_ok()
    //@  ensures! final(self).cache_ok()
    //@  ensures exists|i: int| 0 <= i < final(self).range_cache@.len() && (#[trigger] final(self).range_cache@[i]).0.id() == r.id() && final(self).range_cache@[i].0.obj().begin == begin && final(self).range_cache@[i].0.obj().end == end
    //@  ensures! forall|i: int, j: int| 0 <= i < old(self).range_cache@.len() && 0 <= j < final(self).range_cache@.len() && (#[trigger] old(self).range_cache@[i]).0.id() == (#[trigger] final(self).range_cache@[j]).0.id() && final(self).range_cache@[j].0.id() != r.id() ==> old(self).range_cache@[i].0.obj() == final(self).range_cache@[j].0.obj()
    //@  ensures! (exists|i: int| 0 <= i < old(self).range_cache@.len() && (#[trigger] old(self).range_cache@[i]).0.id() == r.id()) ==> final(self).range_cache@ == old(self).range_cache@ && (forall|i: int| 0 <= i < old(self).range_cache@.len() ==> (#[trigger] final(self).range_cache@[i]).0.obj() == old(self).range_cache@[i].0.obj())
    //@  ensures! final(self).range_cache@.len() >= old(self).range_cache@.len()
    //@  after_stmt "self.range_cache[stale_pos] =" proof { assert(self.range_cache@[stale_pos as int].0.id() == range_gc.id()); }
    //@  after_stmt "self.range_cache.push(" proof { assert(self.range_cache@[self.range_cache@.len() - 1].0.id() == range_gc.id()); }
    //@end
}

} // verus!
fn main() {}
