//@unit errors
//@property C17
// "every uncaught runtime error reports the class of the failure (the same class a handler would have observed)":
// the two conversions between host-side `Error` kinds and language-side error classes (yarel/src/vm.rs
// Vm::new_root_obj_err_from_error, Vm::new_error_from_value) must be inverse on the runtime kinds.
use vstd::prelude::*;
use std::ops::Deref;
verus! {

global size_of usize == 8;

// ------------------------------------------------------------------ environment stand-ins (assumed)
#[verifier::external_body]
#[verifier::accept_recursive_types(T)]
pub struct Gc<T> { p: core::marker::PhantomData<T> }
impl<T> Clone for Gc<T> { #[verifier::external_body] fn clone(&self) -> (r: Self) ensures r == *self { Gc { p: core::marker::PhantomData } } }
impl<T> Copy for Gc<T> {}
impl<T> Gc<T> {
    pub uninterp spec fn id(&self) -> int;      // the heap cell
    pub uninterp spec fn obj(&self) -> T;       // its content when dereferenced
}
impl<T> Deref for Gc<T> {
    type Target = T;
    #[verifier::external_body]
    fn deref(&self) -> (r: &T) ensures *r == self.obj() { unimplemented!() }
}
// memory.rs `impl PartialEq for Gc<T>`: pointer identity
#[verifier::external_body]
fn gc_eq<T>(a: Gc<T>, b: Gc<T>) -> (r: bool) ensures r == (a.id() == b.id()) { unimplemented!() }
#[verifier::external_body]
#[verifier::accept_recursive_types(T)]
pub struct Root<T> { p: core::marker::PhantomData<T> }
impl<T> Root<T> {
    pub uninterp spec fn obj(&self) -> T;
}
pub struct RefCell<T> { pub v: T }
impl<T> RefCell<T> {
    #[verifier::external_body]
    pub fn borrow(&self) -> (r: &T) ensures *r == self.v { &self.v }
}

pub struct ObjString { }
pub struct ObjClass { pub name: Gc<ObjString> }
#[verifier::external_body]
pub struct FieldMap { _p: u8 }
pub struct ObjInstance { pub class: Gc<ObjClass>, pub fields: FieldMap }

//@enum file=yarel/src/error.rs name=ErrorKind
//@struct file=yarel/src/error.rs name=Error map "Vec<String>" => "Messages"
#[verifier::external_body]
pub struct Messages { _p: u8 }
impl Error {
    //@fn file=yarel/src/error.rs path=Error::kind ret=r
    //@  ensures r == self.kind
    //@end
    // error.rs messages(): the text lines (content outside this unit)
    #[verifier::external_body]
    pub fn messages(&self) -> (r: &Messages) { unimplemented!() }
}

//@enum file=yarel/src/value.rs name=Value keep=ObjInstance,ObjString,None other=Other
impl Value {
    //@fn file=yarel/src/value.rs path=Value::try_as_obj_instance ret=r
    //@  ensures r == (match *self { Value::ObjInstance(i) => Some(i), _ => None })
    //@end
}

// The language-side class of each runtime error kind (core.yl declares one class per kind; the class store hands out
// the class objects). Assumed: distinct declarations are distinct objects.
pub uninterp spec fn class_id_of(k: ErrorKind) -> int;
pub open spec fn is_runtime_kind(k: ErrorKind) -> bool { !(k is CompileError) }
pub broadcast proof fn axiom_error_classes_distinct(a: ErrorKind, b: ErrorKind)
    requires is_runtime_kind(a), is_runtime_kind(b), a != b
    ensures #[trigger] class_id_of(a) != #[trigger] class_id_of(b)
{ admit(); }

#[verifier::external_body]
pub struct ClassStore { _p: u8 }
impl ClassStore {
    #[verifier::external_body] fn attribute_error_class(&self) -> (r: Gc<ObjClass>) ensures r.id() == class_id_of(ErrorKind::AttributeError) { unimplemented!() }
    #[verifier::external_body] fn import_error_class(&self) -> (r: Gc<ObjClass>) ensures r.id() == class_id_of(ErrorKind::ImportError) { unimplemented!() }
    #[verifier::external_body] fn index_error_class(&self) -> (r: Gc<ObjClass>) ensures r.id() == class_id_of(ErrorKind::IndexError) { unimplemented!() }
    #[verifier::external_body] fn name_error_class(&self) -> (r: Gc<ObjClass>) ensures r.id() == class_id_of(ErrorKind::NameError) { unimplemented!() }
    #[verifier::external_body] fn runtime_error_class(&self) -> (r: Gc<ObjClass>) ensures r.id() == class_id_of(ErrorKind::RuntimeError) { unimplemented!() }
    #[verifier::external_body] fn type_error_class(&self) -> (r: Gc<ObjClass>) ensures r.id() == class_id_of(ErrorKind::TypeError) { unimplemented!() }
    #[verifier::external_body] fn value_error_class(&self) -> (r: Gc<ObjClass>) ensures r.id() == class_id_of(ErrorKind::ValueError) { unimplemented!() }
}

// what a handler observes for a host-side failure of kind k / what the host is told for an uncaught instance of class c
pub open spec fn class_for_kind(k: ErrorKind) -> int {
    if k is CompileError { class_id_of(ErrorKind::RuntimeError) } else { class_id_of(k) }
}
pub open spec fn kind_for_class(c: int) -> ErrorKind {
    if c == class_id_of(ErrorKind::AttributeError) { ErrorKind::AttributeError }
    else if c == class_id_of(ErrorKind::ImportError) { ErrorKind::ImportError }
    else if c == class_id_of(ErrorKind::IndexError) { ErrorKind::IndexError }
    else if c == class_id_of(ErrorKind::NameError) { ErrorKind::NameError }
    else if c == class_id_of(ErrorKind::RuntimeError) { ErrorKind::RuntimeError }
    else if c == class_id_of(ErrorKind::TypeError) { ErrorKind::TypeError }
    else if c == class_id_of(ErrorKind::ValueError) { ErrorKind::ValueError }
    else { ErrorKind::RuntimeError }
}

// string plumbing outside this unit
#[verifier::external_body]
fn joined_messages(m: &Messages) -> Gc<ObjString> { unimplemented!() }
#[verifier::external_body]
fn class_name_owned(c: Gc<ObjClass>) -> String { unimplemented!() }
#[verifier::external_body]
fn exception_owned() -> String { unimplemented!() }
#[verifier::external_body]
fn instance_context(i: &ObjInstance, key: Gc<ObjString>, default: Value) -> Value { unimplemented!() }
#[verifier::external_body]
fn unhandled_error(kind: ErrorKind, description: String, context: Value) -> (e: Error) ensures e.kind == kind { unimplemented!() }

pub struct Vm { pub class_store: ClassStore }
impl Vm {
    #[verifier::external_body]
    fn new_gc_obj_string(&mut self, data: &str) -> Gc<ObjString> { unimplemented!() }
    // vm.rs new_root_obj_err_with_class: a new instance of `class` whose `context` field holds the context value
    #[verifier::external_body]
    fn new_root_obj_err_with_class(&mut self, class: Gc<ObjClass>, context: Value) -> (r: Root<RefCell<ObjInstance>>)
        ensures r.obj().v.class == class
    { unimplemented!() }

    //@fn file=yarel/src/vm.rs path=Vm::new_root_obj_err_from_error ret=r
    //@  subst "self.new_gc_obj_string(&error.messages().join(\"\n\"))" => "joined_messages(error.messages())"
    //@  ensures r.obj().v.class.id() == class_for_kind(error.kind)
    //@end

    //@fn file=yarel/src/vm.rs path=Vm::new_error_from_value ret=r
    //@  subst "class == self.class_store.attribute_error_class()" => "gc_eq(class, self.class_store.attribute_error_class())"
    //@  subst "class == self.class_store.runtime_error_class()" => "gc_eq(class, self.class_store.runtime_error_class())"
    //@  subst "class == self.class_store.import_error_class()" => "gc_eq(class, self.class_store.import_error_class())"
    //@  subst "class == self.class_store.index_error_class()" => "gc_eq(class, self.class_store.index_error_class())"
    //@  subst "class == self.class_store.name_error_class()" => "gc_eq(class, self.class_store.name_error_class())"
    //@  subst "class == self.class_store.type_error_class()" => "gc_eq(class, self.class_store.type_error_class())"
    //@  subst "class == self.class_store.value_error_class()" => "gc_eq(class, self.class_store.value_error_class())"
    //@  subst "borrowed_instance .fields .get(&context_string) .map(|&v| v) .unwrap_or(value)" => "instance_context(borrowed_instance, context_string, value)"
    //@  subst "class.name.as_str().to_owned()" => "class_name_owned(class)"
    //@  subst "\"exception\".to_owned()" => "exception_owned()"
    //@  subst "let msg = format!(\"Unhandled {}: {}\", exc_description, context); let lines = msg.lines().collect::<Vec<_>>(); Error::with_messages(kind, &lines)" => "unhandled_error(kind, exc_description, context)"
    //@  at body.start broadcast use axiom_error_classes_distinct;
    //@  ensures value matches Value::ObjInstance(i) ==> r.kind == kind_for_class(i.obj().v.class.id())
    //@  ensures !(value is ObjInstance) ==> r.kind is RuntimeError
    //@end
}

// C17 kernel: a runtime failure of kind k, turned into an exception object and — uncaught — back into a host error,
// is reported with kind k again (a compile-time kind never arises at run time; it maps to RuntimeError by design).
pub proof fn lemma_c17_kind_roundtrip(k: ErrorKind)
    requires is_runtime_kind(k)
    ensures kind_for_class(class_for_kind(k)) == k
{
    broadcast use axiom_error_classes_distinct;
}

} // verus!
fn main() {}
