//@unit builtins
//@property C14,C15
// "each module sees the built-ins" and "a module's global names … never leak into or read from the importer's globals"
// (yarel/src/vm.rs Vm::init_built_in_globals, called for `main` at start-up / reset and for every freshly imported
// module): every binding it makes goes into the module it was ASKED to seed and nowhere else; `clock`, `type` and
// `print` are bound to natives made from the VM's own functions (core::clock, core::type_, the configured printer) —
// what they are bound to does not depend on what any module currently binds those names to (no module global is read).
use vstd::prelude::*;
verus! {

global size_of usize == 8;

#[verifier::external_body]
#[verifier::accept_recursive_types(T)]
pub struct Gc<T> { p: core::marker::PhantomData<T> }
impl<T> Clone for Gc<T> { #[verifier::external_body] fn clone(&self) -> (r: Self) ensures r == *self { Gc { p: core::marker::PhantomData } } }
impl<T> Copy for Gc<T> {}
#[verifier::external_body]
#[verifier::accept_recursive_types(T)]
pub struct Root<T> { p: core::marker::PhantomData<T> }
impl<T> Root<T> { #[verifier::external_body] fn as_gc(&self) -> Gc<T> { unimplemented!() } }
pub struct ObjClass { }
//@enum file=yarel/src/value.rs name=Value keep=ObjClass,None other=Other
#[verifier::external_body]
fn verif_lit<const N: usize>(s: &'static str, bytes: [u8; N]) -> (r: &'static str) ensures r@ == s@ { s }

// a host function a native is made from (`NativeFn`): only its identity matters
#[derive(Clone, Copy)]
pub struct NativeFn { pub ghost id: int }
pub uninterp spec fn clock_fn() -> int;
pub uninterp spec fn type_fn() -> int;
#[verifier::external_body] fn native_clock() -> (r: NativeFn) ensures r.id == clock_fn() { unimplemented!() }
#[verifier::external_body] fn native_type() -> (r: NativeFn) ensures r.id == type_fn() { unimplemented!() }

//@yl_classes file=yarel/src/core.yl fn=core_class_names
pub enum Bound { Native(int), Val(Value) }
pub struct ClassStore { }
impl ClassStore {
    #[verifier::external_body] fn error_class(&self) -> Gc<ObjClass> { unimplemented!() }
    #[verifier::external_body] fn runtime_error_class(&self) -> Gc<ObjClass> { unimplemented!() }
    #[verifier::external_body] fn attribute_error_class(&self) -> Gc<ObjClass> { unimplemented!() }
    #[verifier::external_body] fn index_error_class(&self) -> Gc<ObjClass> { unimplemented!() }
    #[verifier::external_body] fn import_error_class(&self) -> Gc<ObjClass> { unimplemented!() }
    #[verifier::external_body] fn name_error_class(&self) -> Gc<ObjClass> { unimplemented!() }
    #[verifier::external_body] fn type_error_class(&self) -> Gc<ObjClass> { unimplemented!() }
    #[verifier::external_body] fn value_error_class(&self) -> Gc<ObjClass> { unimplemented!() }
    #[verifier::external_body] fn stop_iter_class(&self) -> Gc<ObjClass> { unimplemented!() }
    #[verifier::external_body] fn base_metaclass(&self) -> Gc<ObjClass> { unimplemented!() }
    #[verifier::external_body] fn boolean_class(&self) -> Gc<ObjClass> { unimplemented!() }
    #[verifier::external_body] fn closure_class(&self) -> Gc<ObjClass> { unimplemented!() }
    #[verifier::external_body] fn closure_method_class(&self) -> Gc<ObjClass> { unimplemented!() }
    #[verifier::external_body] fn fiber_class(&self) -> Gc<ObjClass> { unimplemented!() }
    #[verifier::external_body] fn filter_iter_class(&self) -> Gc<ObjClass> { unimplemented!() }
    #[verifier::external_body] fn hash_map_class(&self) -> Gc<ObjClass> { unimplemented!() }
    #[verifier::external_body] fn iter_class(&self) -> Gc<ObjClass> { unimplemented!() }
    #[verifier::external_body] fn map_iter_class(&self) -> Gc<ObjClass> { unimplemented!() }
    #[verifier::external_body] fn native_class(&self) -> Gc<ObjClass> { unimplemented!() }
    #[verifier::external_body] fn native_method_class(&self) -> Gc<ObjClass> { unimplemented!() }
    #[verifier::external_body] fn nil_class(&self) -> Gc<ObjClass> { unimplemented!() }
    #[verifier::external_body] fn num_class(&self) -> Gc<ObjClass> { unimplemented!() }
    #[verifier::external_body] fn object_class(&self) -> Gc<ObjClass> { unimplemented!() }
    #[verifier::external_body] fn range_class(&self) -> Gc<ObjClass> { unimplemented!() }
    #[verifier::external_body] fn tuple_class(&self) -> Gc<ObjClass> { unimplemented!() }
    #[verifier::external_body] fn vec_class(&self) -> Gc<ObjClass> { unimplemented!() }
}
pub struct Vm { pub class_store: ClassStore, pub string_class: Option<Root<ObjClass>>, pub ghost printer_id: int, pub ghost writes: Seq<(Seq<char>, Seq<char>, Bound)>, pub ghost bound_names: Set<Seq<char>> }
impl Vm {
    #[verifier::external_body] fn printer_fn(&self) -> (r: NativeFn) ensures r.id == self.printer_id { unimplemented!() }
    // vm.rs define_native: a fresh native object for `function`, bound to `var_name` in the module registered under `module_name`
    #[verifier::external_body]
    fn define_native(&mut self, module_name: &str, var_name: &str, function: NativeFn)
        ensures final(self).writes == old(self).writes.push((module_name@, var_name@, Bound::Native(function.id))), final(self).printer_id == old(self).printer_id, final(self).bound_names == old(self).bound_names.insert(var_name@)
    { unimplemented!() }
    #[verifier::external_body]
    fn set_global(&mut self, module_name: &str, var_name: &str, value: Value)
        ensures final(self).writes == old(self).writes.push((module_name@, var_name@, Bound::Val(value))), final(self).printer_id == old(self).printer_id, final(self).bound_names == old(self).bound_names.insert(var_name@)
    { unimplemented!() }
    // vm.rs global: what a module currently binds a name to (anything)
    #[verifier::external_body]
    fn global(&mut self, module_name: &str, var_name: &str) -> (r: Option<Value>) ensures final(self).writes == old(self).writes, final(self).printer_id == old(self).printer_id, final(self).bound_names == old(self).bound_names { unimplemented!() }
    #[verifier::external_body]
    fn string_class_gc(&self) -> Gc<ObjClass> { unimplemented!() }

    pub open spec fn wrote(&self, from: int, m: Seq<char>, name: Seq<char>, b: Bound) -> bool { exists|i: int| from <= i < self.writes.len() && #[trigger] self.writes[i] == (m, name, b) }

    //@fn file=yarel/src/vm.rs path=Vm::init_built_in_globals
    //@  subst "core::clock" => "native_clock()"
    //@  subst "core::type_" => "native_type()"
    //@  subst "self.printer" => "self.printer_fn()"
    //@  subst "self.string_class.as_ref().expect(\"Expected Root.\").as_gc()" => "self.string_class_gc()"
    //@  rewrite R28
    //@  ensures @built_ins_are_written_into_the_named_module_only final(self).writes.len() >= old(self).writes.len() && final(self).writes.subrange(0, old(self).writes.len() as int) == old(self).writes && forall|i: int| old(self).writes.len() <= i < final(self).writes.len() ==> (#[trigger] final(self).writes[i]).0 == module_path@
    //@  ensures @the_native_built_ins_are_the_vms_own_functions_whatever_any_module_binds_those_names_to final(self).wrote(old(self).writes.len() as int, module_path@, "clock"@, Bound::Native(clock_fn())) && final(self).wrote(old(self).writes.len() as int, module_path@, "type"@, Bound::Native(type_fn())) && final(self).wrote(old(self).writes.len() as int, module_path@, "print"@, Bound::Native(old(self).printer_id))
    //@  ensures @every_module_is_given_every_class_the_core_library_defines forall|k: int| 0 <= k < core_class_names().len() ==> final(self).bound_names.contains(#[trigger] core_class_names()[k])
    //@  at body.start let ghost n0 = self.writes.len() as int;
    //@  at body.end proof { assert(self.writes[n0] == (module_path@, "clock"@, Bound::Native(clock_fn()))); assert(self.writes[n0 + 1] == (module_path@, "type"@, Bound::Native(type_fn()))); assert(self.writes[n0 + 2] == (module_path@, "print"@, Bound::Native(old(self).printer_id))); }
    //@end
}

} // verus!
fn main() {}
