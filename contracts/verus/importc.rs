//@unit importc
//@property C14
// Compile-time side of `import "path" [as name];` (yarel/src/compiler.rs Parser::import_statement): the statement
// declares ONE variable — named by the `as` identifier, else by the file name of the path —, emits StartImport with the
// constant of exactly the path string (the registry key of unit modules: the interned path, C11), then FinishImport, and
// binds the value left on the stack (the module object: modules/Vm::finish_import_impl) to that variable. So a module's
// globals reach the importer only as attributes of that one object. Importing "main" and a path without a file name
// are compile errors; so is a path whose file name is a reserved word (the variable would shadow `super` / `self`:
// classes/Vm::super_invoke_impl relies on `super` naming the hidden class variable).
use vstd::prelude::*;
verus! {

global size_of usize == 8;

//@enum file=yarel/src/chunk.rs name=OpCode discr=opcode_byte
//@enum file=yarel/src/scanner.rs name=TokenKind eq=1
#[verifier::external_body]
fn opcode_u8(op: OpCode) -> (r: u8) ensures r == opcode_byte(op) { op as u8 }

pub struct Token { pub kind: TokenKind, pub line: usize, pub source: String }
impl Token {
    #[verifier::external_body]
    fn from_string_and_line(s: &str, line: usize) -> (r: Token) ensures r.source@ == s@ { unimplemented!() }
}
impl Clone for Token { #[verifier::external_body] fn clone(&self) -> (r: Self) ensures r == *self { unimplemented!() } }
#[verifier::external_body]
fn str_eq(a: &String, b: &str) -> (r: bool) ensures r == (a@ == b@) { unimplemented!() }
#[verifier::external_body]
fn verif_lit<const N: usize>(s: &'static str, bytes: [u8; N]) -> (r: &'static str) ensures r@ == s@ { s }
// `Path::new(p).file_name()?.to_str()?` (std): the last component of the path, if it has one
pub uninterp spec fn file_name_of(p: Seq<char>) -> Option<Seq<char>>;
#[verifier::external_body]
fn path_file_name(p: &String) -> (r: Option<&str>) ensures (r is Some) == (file_name_of(p@) is Some), r matches Some(s) ==> s@ == file_name_of(p@)->0 { unimplemented!() }

// scanner.rs is_reserved_word: spelled like an identifier but a keyword of the language (`super`, `self`, `nil` …)
pub uninterp spec fn reserved(name: Seq<char>) -> bool;
#[verifier::external_body]
fn is_reserved_word(word: &str) -> (r: bool) ensures r == reserved(word@) { unimplemented!() }

// what the statement does, as far as module loading and name binding are concerned
pub enum Ev { Declare(Seq<char>), Start(int), Finish, Define(int) }
// identifier_constant (unit compiler): the constant-table index of the interned string with this text
pub uninterp spec fn const_of(text: Seq<char>) -> int;

pub struct Parser { pub previous: Token, pub current: Token, pub ghost events: Seq<Ev>, pub ghost had_error: bool }
impl Parser {
    // on success `previous` is a token of the requested kind; the scanner never makes an Identifier token of a reserved
    // word (scanner.rs identifier_type: assumed here)
    #[verifier::external_body] fn consume(&mut self, kind: TokenKind, message: &str) ensures final(self).events == old(self).events, old(self).had_error ==> final(self).had_error, final(self).had_error || final(self).previous.kind == kind, final(self).previous.kind is Identifier ==> !reserved(final(self).previous.source@) { unimplemented!() }
    #[verifier::external_body] fn match_token(&mut self, kind: TokenKind) -> bool ensures final(self).events == old(self).events, old(self).had_error ==> final(self).had_error { unimplemented!() }
    #[verifier::external_body] fn error(&mut self, message: &str) ensures final(self).events == old(self).events, final(self).had_error, final(self).previous == old(self).previous, final(self).current == old(self).current { unimplemented!() }
    #[verifier::external_body] fn error_at_current(&mut self, message: &str) ensures final(self).events == old(self).events, final(self).had_error, final(self).previous == old(self).previous, final(self).current == old(self).current { unimplemented!() }
    #[verifier::external_body] fn identifier_constant(&mut self, token: &Token) -> (r: u16) ensures r as int == const_of(token.source@), final(self).events == old(self).events, final(self).had_error == old(self).had_error, final(self).previous == old(self).previous, final(self).current == old(self).current { unimplemented!() }
    // declares the variable named by `previous` (unit compiler: Parser::declare_variable)
    #[verifier::external_body] fn declare_variable(&mut self) ensures final(self).events == old(self).events.push(Ev::Declare(old(self).previous.source@)), old(self).had_error ==> final(self).had_error, final(self).previous == old(self).previous, final(self).current == old(self).current { unimplemented!() }
    // binds the value on top of the stack to the declared variable (global: DefineGlobal with this constant)
    #[verifier::external_body] fn define_variable(&mut self, global: u16) ensures final(self).events == old(self).events.push(Ev::Define(global as int)), final(self).had_error == old(self).had_error { unimplemented!() }
    #[verifier::external_body] fn emit_constant_op(&mut self, opcode: OpCode, constant: u16)
        ensures final(self).events == (if opcode is StartImport { old(self).events.push(Ev::Start(constant as int)) } else { old(self).events }), final(self).had_error == old(self).had_error, final(self).previous == old(self).previous, final(self).current == old(self).current { unimplemented!() }
    #[verifier::external_body] fn emit_byte(&mut self, byte: u8)
        ensures final(self).events == (if byte == opcode_byte(OpCode::FinishImport) { old(self).events.push(Ev::Finish) } else { old(self).events }), final(self).had_error == old(self).had_error, final(self).previous == old(self).previous, final(self).current == old(self).current { unimplemented!() }

    //@fn file=yarel/src/compiler.rs path=Parser::import_statement props=C14,C03
    //@  rewrite R21 R29 R28
    //@  subst "(|| Some(Path::new(&path.source).file_name()?.to_str()?))()" => "path_file_name(&path.source)"
    //@  subst "scanner::is_reserved_word(filename)" => "is_reserved_word(filename)"
    //@  ensures @an_import_declares_one_variable_that_is_no_reserved_word_loads_exactly_the_named_path_and_binds_the_module_object_to_it final(self).events.len() == old(self).events.len() + 4 ==> (exists|name: Seq<char>, path: Seq<char>| final(self).events == old(self).events.push(Ev::Declare(name)).push(Ev::Start(const_of(path))).push(Ev::Finish).push(Ev::Define(const_of(name))) && (path == "main"@ ==> final(self).had_error) && (final(self).had_error || !reserved(name)))
    //@  ensures @an_import_emits_the_whole_protocol_or_nothing final(self).events.len() == old(self).events.len() + 4 || final(self).events == old(self).events
    //@  ensures @an_import_that_emits_nothing_is_a_compile_error final(self).events == old(self).events ==> final(self).had_error
    //@end
}

} // verus!
fn main() {}
