//@unit decode
//@property C04
// The instruction decoder of the interpreter (yarel/src/vm.rs Vm::read_byte, read_short, read_constant, read_string):
// what the operand readers return as a function of the code bytes at the instruction pointer, and what they demand of
// the code — the demands are exactly what the compiler's contracts (unit `compiler`) promise about the code it emits:
// operands are present (`emit_bytes` appends opcode and operand together), a constant operand names an existing
// constant (`make_constant`: index < constants.len()), a name operand names a string constant (`identifier_constant`).
// Code addresses are modelled by offsets into the running function's code (`*const u8` -> usize): `*self.ip` becomes a
// read of the ghost code sequence (R33), `.offset(n)` an addition by contract.
use vstd::prelude::*;
verus! {

global size_of usize == 8;

#[verifier::external_body]
#[verifier::accept_recursive_types(T)]
pub struct Gc<T> { p: core::marker::PhantomData<T> }
impl<T> Clone for Gc<T> { #[verifier::external_body] fn clone(&self) -> (r: Self) ensures r == *self { Gc { p: core::marker::PhantomData } } }
impl<T> Copy for Gc<T> {}
pub struct ObjString { }
//@enum file=yarel/src/value.rs name=Value keep=ObjString,None other=Other
impl Value {
    //@fn file=yarel/src/value.rs path=Value::try_as_obj_string ret=r
    //@  ensures r == (match *self { Value::ObjString(g) => Some(g), _ => None })
    //@end
}

// the reader's view of two operand bytes: the SAME uninterpreted decoding the compiler's encoders are proved against
// (unit compiler: u16_to_ne_bytes / `u16_of`) and the jump handlers use (unit flowvm)
pub uninterp spec fn u16_of(b0: u8, b1: u8) -> int;
#[verifier::external_body]
fn u16_from_ne_bytes(b: [u8; 2]) -> (r: u16) ensures r as int == u16_of(b[0], b[1]) { unimplemented!() }
// `p.offset(n)` on a code address
pub trait CodeAddr: Sized {
    spec fn addr(self) -> int;
    fn offset(self, n: isize) -> (r: Self) requires 0 <= self.addr() + n <= usize::MAX ensures r.addr() == self.addr() + n;
}
impl CodeAddr for usize {
    open spec fn addr(self) -> int { self as int }
    #[verifier::external_body]
    fn offset(self, n: isize) -> (r: usize) { unimplemented!() }
}

// the constant table of the running function's chunk
pub struct Chunk { pub constants: Vec<Value> }
pub struct Vm { pub ip: usize, pub ghost code: Seq<u8>, pub active_chunk: Chunk }
impl Vm {
    // `*p` for a code address p: reading outside the code is the memory-safety violation C04 excludes — the obligation
    #[verifier::external_body]
    fn code_at(&self, p: usize) -> (r: u8) requires p < self.code.len() ensures r == self.code[p as int] { unimplemented!() }

    //@fn file=yarel/src/vm.rs path=Vm::read_byte ret=r
    //@  rewrite R33
    //@  requires old(self).ip < old(self).code.len() <= isize::MAX
    //@  ensures @a_one_byte_operand_is_the_byte_at_the_instruction_pointer r == old(self).code[old(self).ip as int] && final(self).ip == old(self).ip + 1
    //@  ensures final(self).code == old(self).code, final(self).active_chunk == old(self).active_chunk
    //@end
    //@fn file=yarel/src/vm.rs path=Vm::read_short ret=r
    //@  rewrite R33
    //@  subst "u16::from_ne_bytes" => "u16_from_ne_bytes"
    //@  requires old(self).ip + 2 <= old(self).code.len() <= isize::MAX
    //@  ensures @a_two_byte_operand_is_decoded_from_the_two_bytes_at_the_instruction_pointer r as int == u16_of(old(self).code[old(self).ip as int], old(self).code[old(self).ip as int + 1]) && final(self).ip == old(self).ip + 2
    //@  ensures final(self).code == old(self).code, final(self).active_chunk == old(self).active_chunk
    //@end
    pub open spec fn operand16(&self) -> int { u16_of(self.code[self.ip as int], self.code[self.ip as int + 1]) }
    //@fn file=yarel/src/vm.rs path=Vm::read_constant ret=r
    //@  requires old(self).ip + 2 <= old(self).code.len() <= isize::MAX, old(self).operand16() < old(self).active_chunk.constants@.len()
    //@  ensures @a_constant_operand_names_the_constant_at_that_index r == old(self).active_chunk.constants@[old(self).operand16()] && final(self).ip == old(self).ip + 2
    //@  ensures final(self).code == old(self).code, final(self).active_chunk == old(self).active_chunk
    //@end
    //@fn file=yarel/src/vm.rs path=Vm::read_string ret=r
    //@  subst ".expect(\"Expected variable name.\")" => ".unwrap()"
    //@  requires old(self).ip + 2 <= old(self).code.len() <= isize::MAX, old(self).operand16() < old(self).active_chunk.constants@.len(), old(self).active_chunk.constants@[old(self).operand16()] is ObjString
    //@  ensures @a_name_operand_is_the_string_constant_at_that_index Value::ObjString(r) == old(self).active_chunk.constants@[old(self).operand16()] && final(self).ip == old(self).ip + 2
    //@end
}

} // verus!
fn main() {}
