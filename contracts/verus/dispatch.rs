//@unit dispatch
//@property C10,C02,C04
// The interpreter loop (yarel/src/vm.rs Vm::run) ends its `match byte` with
//     _ => if cfg!(any(debug_assertions, feature = "safe_vm_opcodes")) { panic!(..) } else { unreachable_unchecked() }
// — a byte without an arm is a host panic in the checked configuration and undefined behaviour in the optimised one.
// The compiler only ever emits `OpCode::V as u8` for opcodes (unit compiler) — so what has to hold, in BOTH
// configurations, is that every variant of the opcode enum has an arm. Decided from the arms as they stand on each run.
use vstd::prelude::*;
verus! {

//@enum file=yarel/src/chunk.rs name=OpCode
// What each numeric operator computes from its two operands a (pushed first) and b — the language's definition of the
// operator, compared with the closure the interpreter loop hands to binary_op_impl (whose own contract — operand order,
// TypeError on non-numbers — is unit ops):
//@binop Greater => Value::Boolean(a > b)
//@binop Less => Value::Boolean(a < b)
//@binop Subtract => Value::Number(a - b)
//@binop Multiply => Value::Number(a * b)
//@binop Divide => Value::Number(a / b)
//@binop Modulo => Value::Number(a % b)
//@binop BitwiseAnd => Value::Number(((a as i64) & (b as i64)) as f64)
//@binop BitwiseOr => Value::Number(((a as i64) | (b as i64)) as f64)
//@binop BitwiseXor => Value::Number(((a as i64) ^ (b as i64)) as f64)
//@binop BitShiftLeft => Value::Number((a as i64).checked_shl(b as u32).unwrap_or_default() as f64)
//@binop BitShiftRight => Value::Number((a as i64).checked_shr(b as u32).unwrap_or_default() as f64)
//@dispatch file=yarel/src/vm.rs fn=Vm::run enum_file=yarel/src/chunk.rs enum=OpCode handlers=1 inline=Constant,Nil,True,False,Pop,CopyTop alias=JumpIfStopIter:jump_if_stop_iter

// every other arm calls the handler named after its opcode (OpCode::GetLocal -> get_local_impl): the handlers' contracts
// (units upvalues, classes, exc, ops, items, modules, fiberx, flowvm …) are contracts of THAT instruction
//@lemma name=every_opcode_is_dispatched_to_the_handler_of_that_opcode props=C05,C04,C02
pub proof fn every_opcode_is_dispatched_to_the_handler_of_that_opcode() ensures ARMS_CALLING_ANOTHER_HANDLER == 0 {}
//@lemma name=every_numeric_operator_computes_what_its_name_says props=C05
pub proof fn every_numeric_operator_computes_what_its_name_says() ensures OPERATOR_ARMS_WITH_ANOTHER_DEFINITION == 0 {}

//@lemma name=every_opcode_the_compiler_can_emit_has_a_handler
pub proof fn every_opcode_the_compiler_can_emit_has_a_handler(op: OpCode) ensures dispatched(op) {}

//@lemma name=every_dispatch_arm_names_an_opcode
pub proof fn every_dispatch_arm_names_an_opcode() ensures ARMS_NAMING_NO_VARIANT == 0 {}

// A `debug_assert!` argument is evaluated in the checked configuration only: a side effect inside it makes the two
// configurations behave differently (C10). Decided for every debug assertion of the crate, by text.
//@debugasserts dir=yarel/src
//@lemma name=debug_assertions_have_no_side_effects props=C10
pub proof fn debug_assertions_have_no_side_effects() ensures DEBUG_ASSERTS_WITH_SIDE_EFFECTS == 0 {}

} // verus!
fn main() {}
