//@unit dispatch
//@property C10,C02,C04
// The interpreter loop (yarel/src/vm.rs Vm::run) ends its `match byte` with
//     _ => if cfg!(any(debug_assertions, feature = "safe_vm_opcodes")) { panic!(..) } else { unreachable_unchecked() }
// — a byte without an arm is a host panic in the checked configuration and undefined behaviour in the optimised one.
// The compiler only ever emits `OpCode::V as u8` for opcodes (unit compiler) — so what has to hold, in BOTH
// configurations, is that every variant of the opcode enum has an arm. Decided from the arms as they stand on each run.
use vstd::prelude::*;
verus! {

//@enum file=yarel/src/chunk.rs name=OpCode
//@dispatch file=yarel/src/vm.rs fn=Vm::run enum_file=yarel/src/chunk.rs enum=OpCode

//@lemma name=every_opcode_the_compiler_can_emit_has_a_handler
pub proof fn every_opcode_the_compiler_can_emit_has_a_handler(op: OpCode) ensures dispatched(op) {}

//@lemma name=every_dispatch_arm_names_an_opcode
pub proof fn every_dispatch_arm_names_an_opcode() ensures ARMS_NAMING_NO_VARIANT == 0 {}

// A `debug_assert!` argument is evaluated in the checked configuration only: a side effect inside it makes the two
// configurations behave differently (C10). Decided for every debug assertion of the crate, by text.
//@debugasserts dir=yarel/src
//@lemma name=debug_assertions_have_no_side_effects props=C10
pub proof fn debug_assertions_have_no_side_effects() ensures DEBUG_ASSERTS_WITH_SIDE_EFFECTS == 0 {}

} // verus!
fn main() {}
