//@unit ops
//@property C05,C02
// The operator instructions of the VM (yarel/src/vm.rs Vm::binary_op_impl, add_impl, equal_impl, logical_not_impl,
// negate_impl, bitwise_not_impl): operands are taken from the stack in source order — the LEFT operand is the one that
// was pushed first —, the result replaces them, and operands of the wrong kind are a TypeError delivered to the handlers
// (never a host panic); exactly the operands are consumed. What a numeric operator computes from two doubles is the
// closure the dispatcher passes (IEEE arithmetic / saturating integer casts: not judged here).
use vstd::prelude::*;
verus! {

global size_of usize == 8;

#[verifier::external_body]
#[verifier::accept_recursive_types(T)]
pub struct Gc<T> { p: core::marker::PhantomData<T> }
impl<T> Clone for Gc<T> { #[verifier::external_body] fn clone(&self) -> (r: Self) ensures r == *self { Gc { p: core::marker::PhantomData } } }
impl<T> Copy for Gc<T> {}
impl<T> Gc<T> { pub uninterp spec fn obj(&self) -> T; }
pub struct ObjString { }
//@enum file=yarel/src/error.rs name=ErrorKind
pub struct Error { pub kind: ErrorKind }
#[verifier::external_body]
fn verif_error(kind: ErrorKind) -> (e: Error) ensures e.kind == kind { Error { kind } }

//@enum file=yarel/src/value.rs name=Value keep=Boolean,Number,ObjString,ObjRange,None other=Other
impl Value {
    //@fn file=yarel/src/value.rs path=Value::into_bool ret=r
    //@  ensures r == !(*self == Value::Boolean(false) || *self is None)
    //@end
    //@fn file=yarel/src/value.rs path=Value::try_as_number ret=r
    //@  ensures r == (match *self { Value::Number(n) => Some(n), _ => None })
    //@end
    //@fn file=yarel/src/value.rs path=Value::try_as_obj_string ret=r
    //@  ensures r == (match *self { Value::ObjString(g) => Some(g), _ => None })
    //@end
}
pub struct ObjRange { pub begin: isize, pub end: isize }
// utils.rs validate_integer (its own contract: Kani unit utils, all f64): Ok(i) exactly for integral numbers, i their value
pub uninterp spec fn int_of(v: Value) -> Option<isize>;
#[verifier::external_body]
fn validate_integer(v: Value) -> (r: Result<isize, Error>)
    ensures int_of(v) matches Some(i) ==> r == Ok::<isize, Error>(i), int_of(v) is None ==> (r matches Err(e) && (e.kind is TypeError || e.kind is ValueError)),
{ unimplemented!() }
// what `format!("{}", value)` prints for a value (Display for Value: not under contract), interned (C11)
pub uninterp spec fn display(v: Value) -> Gc<ObjString>;
// the text a sequence of strings concatenates to, interned (C11)
pub uninterp spec fn concat_all(parts: Seq<Gc<ObjString>>) -> Gc<ObjString>;
// R13: the text of some other `format!` (unknown)
#[verifier::external_body]
pub struct VString { _p: u8 }
impl VString { #[verifier::external_body] fn as_str(&self) -> &str { unimplemented!() } }
#[verifier::external_body]
fn verif_format() -> VString { unimplemented!() }
// `String::new()` / `push_str(x.as_str())`: the buffer as the sequence of parts appended so far
pub struct StrBuf { pub ghost parts: Seq<Gc<ObjString>> }
impl StrBuf {
    #[verifier::external_body] fn new() -> (r: StrBuf) ensures r.parts == Seq::<Gc<ObjString>>::empty() { unimplemented!() }
    #[verifier::external_body] fn push_part(&mut self, x: Gc<ObjString>) ensures final(self).parts == old(self).parts.push(x) { unimplemented!() }
}
// IEEE operations on doubles (machine arithmetic, outside Verus): uninterpreted
pub uninterp spec fn fadd(a: f64, b: f64) -> f64;
pub uninterp spec fn fneg(a: f64) -> f64;
pub uninterp spec fn fbitnot(a: f64) -> f64;
// identity on doubles (tool quirk, measured: Verus does not instantiate `forall|a: f64|` with a double that was
// destructured out of an enum payload; the result of an exec function is accepted)
#[verifier::external_body] fn f64_id(x: f64) -> (r: f64) ensures r == x { x }
#[verifier::external_body] fn f64_add(a: f64, b: f64) -> (r: f64) ensures r == fadd(a, b) { unimplemented!() }
#[verifier::external_body] fn f64_neg(a: f64) -> (r: f64) ensures r == fneg(a) { unimplemented!() }
#[verifier::external_body] fn f64_bitnot(a: f64) -> (r: f64) ensures r == fbitnot(a) { unimplemented!() }
// the language's `==` (impl PartialEq for Value: unit valeq)
pub uninterp spec fn lang_eq(a: Value, b: Value) -> bool;
#[verifier::external_body] fn value_eq(a: &Value, b: &Value) -> (r: bool) ensures r == lang_eq(*a, *b) { unimplemented!() }
// concatenation of two strings, interned (C11)
pub uninterp spec fn concat(a: Gc<ObjString>, b: Gc<ObjString>) -> Gc<ObjString>;

pub struct Vm { pub ghost stack: Seq<Value>, pub ghost raised: Option<ErrorKind>, pub ghost next_byte: u8 }
impl Vm {
    pub open spec fn top(&self, depth: int) -> Value { self.stack[self.stack.len() - 1 - depth] }
    pub open spec fn below2(&self) -> Seq<Value> { self.stack.take(self.stack.len() - 2) }
    #[verifier::external_body]
    fn pop(&mut self) -> (r: Value) requires old(self).stack.len() > 0 ensures r == old(self).stack.last(), final(self).stack == old(self).stack.drop_last(), final(self).raised == old(self).raised { unimplemented!() }
    #[verifier::external_body]
    fn push(&mut self, value: Value) ensures final(self).stack == old(self).stack.push(value), final(self).raised == old(self).raised { unimplemented!() }
    // `self.push(op(a, b))`: the closure's result for (a, b) is pushed (a stub, because Verus does not instantiate a
    // quantified closure precondition with doubles destructured out of an enum payload — measured, see DESIGN §8)
    #[verifier::external_body]
    fn push_result_of<F: Fn(f64, f64) -> Value>(&mut self, op: &F, a: f64, b: f64)
        ensures final(self).stack.len() == old(self).stack.len() + 1, final(self).stack.drop_last() == old(self).stack, call_ensures(*op, (a, b), final(self).stack.last()), final(self).raised == old(self).raised
    { unimplemented!() }
    #[verifier::external_body]
    fn try_handle_error(&mut self, error: Error) -> (r: Result<(), Error>) ensures final(self).raised == Some(error.kind), final(self).stack.len() >= 0 { unimplemented!() }
    #[verifier::external_body]
    fn concat_strings(&mut self, a: Gc<ObjString>, b: Gc<ObjString>) -> (r: Gc<ObjString>) ensures r == concat(a, b), final(self).stack == old(self).stack, final(self).raised == old(self).raised { unimplemented!() }

    // a numeric binary operator: `a op b` with a pushed before b
    //@fn file=yarel/src/vm.rs path=Vm::binary_op_impl ret=r
    //@  rewrite R1
    //@  sig "op: fn(f64, f64) -> Value" => "op: impl Fn(f64, f64) -> Value"
    //@  subst "self.push(op(" => "self.push_result_of(&op, "
    //@  subst "second));" => "second);"
    //@  subst "first));" => "first);"
    //@  requires old(self).stack.len() >= 2
    //@  ensures @left_operand_is_the_one_pushed_first (old(self).top(1) is Number && old(self).top(0) is Number) ==> r is Ok && final(self).stack.len() == old(self).stack.len() - 1 && final(self).stack.drop_last() == old(self).below2() && call_ensures(op, (old(self).top(1)->Number_0, old(self).top(0)->Number_0), final(self).stack.last()) && final(self).raised == old(self).raised
    //@  ensures @non_numeric_operands_are_a_type_error !(old(self).top(1) is Number && old(self).top(0) is Number) ==> final(self).raised == Some(ErrorKind::TypeError)
    //@end

    // `+`: two numbers add, two strings concatenate (left then right), anything else is a TypeError
    //@fn file=yarel/src/vm.rs path=Vm::add_impl ret=r
    //@  rewrite R1
    //@  subst "self.new_gc_obj_string(format!(\"{}{}\", *a, *b).as_str())" => "self.concat_strings(a, b)"
    //@  subst "Value::Number(a + b)" => "Value::Number(f64_add(a, b))"
    //@  requires old(self).stack.len() >= 2
    //@  ensures @numbers_add (old(self).top(1) is Number && old(self).top(0) is Number) ==> r is Ok && final(self).stack == old(self).below2().push(Value::Number(fadd(old(self).top(1)->Number_0, old(self).top(0)->Number_0))) && final(self).raised == old(self).raised
    //@  ensures @strings_concatenate_left_then_right (old(self).top(1) is ObjString && old(self).top(0) is ObjString) ==> r is Ok && final(self).stack == old(self).below2().push(Value::ObjString(concat(old(self).top(1)->ObjString_0, old(self).top(0)->ObjString_0))) && final(self).raised == old(self).raised
    //@  ensures @mixed_operands_are_a_type_error !((old(self).top(1) is Number && old(self).top(0) is Number) || (old(self).top(1) is ObjString && old(self).top(0) is ObjString)) ==> final(self).raised == Some(ErrorKind::TypeError)
    //@end

    //@fn file=yarel/src/vm.rs path=Vm::equal_impl
    //@  subst "Value::Boolean(a == b)" => "Value::Boolean(value_eq(&a, &b))"
    //@  requires old(self).stack.len() >= 2
    //@  ensures @equality_compares_left_with_right_and_yields_a_boolean final(self).stack == old(self).below2().push(Value::Boolean(lang_eq(old(self).top(1), old(self).top(0)))) && final(self).raised == old(self).raised
    //@end

    //@fn file=yarel/src/vm.rs path=Vm::logical_not_impl
    //@  requires old(self).stack.len() >= 1
    //@  ensures @not_is_true_exactly_for_false_and_nil final(self).stack == old(self).stack.drop_last().push(Value::Boolean(old(self).stack.last() == Value::Boolean(false) || old(self).stack.last() is None)) && final(self).raised == old(self).raised
    //@end

    //@fn file=yarel/src/vm.rs path=Vm::negate_impl ret=r
    //@  rewrite R1
    //@  subst "Value::Number(-num)" => "Value::Number(f64_neg(num))"
    //@  requires old(self).stack.len() >= 1
    //@  ensures @a_number_is_negated old(self).stack.last() is Number ==> r is Ok && final(self).stack == old(self).stack.drop_last().push(Value::Number(fneg(old(self).stack.last()->Number_0))) && final(self).raised == old(self).raised
    //@  ensures @negating_a_non_number_is_a_type_error !(old(self).stack.last() is Number) ==> final(self).raised == Some(ErrorKind::TypeError)
    //@end

    #[verifier::external_body]
    fn peek(&self, depth: usize) -> (r: Value) requires depth < self.stack.len() ensures r == self.top(depth as int) { unimplemented!() }
    #[verifier::external_body]
    fn poke(&mut self, depth: usize, value: Value) requires depth < old(self).stack.len() ensures final(self).stack == old(self).stack.update(old(self).stack.len() - 1 - depth, value), final(self).raised == old(self).raised { unimplemented!() }
    #[verifier::external_body]
    fn discard(&mut self, num: usize) requires num <= old(self).stack.len() ensures final(self).stack == old(self).stack.take(old(self).stack.len() - num), final(self).raised == old(self).raised { unimplemented!() }
    #[verifier::external_body]
    fn read_byte(&mut self) -> (r: u8) ensures r == old(self).next_byte, final(self).stack == old(self).stack, final(self).raised == old(self).raised { unimplemented!() }
    // vm.rs build_range (its own contract: unit rangecache): a range object with exactly these bounds
    #[verifier::external_body]
    fn build_range(&mut self, begin: isize, end: isize) -> (r: Gc<ObjRange>) ensures r.obj().begin == begin && r.obj().end == end, final(self).stack == old(self).stack, final(self).raised == old(self).raised { unimplemented!() }
    #[verifier::external_body]
    fn display_string(&mut self, value: Value) -> (r: Gc<ObjString>) ensures r == display(value), final(self).stack == old(self).stack, final(self).raised == old(self).raised { unimplemented!() }
    // any other text turned into a string object (R13 drops what a `format!` other than Display-of-the-value prints)
    #[verifier::external_body]
    fn new_gc_obj_string(&mut self, data: &str) -> (r: Gc<ObjString>) ensures final(self).stack == old(self).stack, final(self).raised == old(self).raised { unimplemented!() }
    #[verifier::external_body]
    fn intern_parts(&mut self, buf: &StrBuf) -> (r: Gc<ObjString>) ensures r == concat_all(buf.parts), final(self).stack == old(self).stack, final(self).raised == old(self).raised { unimplemented!() }

    // `a..b`: a is pushed first; both bounds must be integers
    //@fn file=yarel/src/vm.rs path=Vm::build_range_impl ret=r props=C05,C13,C02
    //@  subst "utils::validate_integer" => "validate_integer"
    //@  requires old(self).stack.len() >= 2
    //@  ensures @range_bounds_are_the_operands_in_source_order (int_of(old(self).top(1)) is Some && int_of(old(self).top(0)) is Some) ==> r is Ok && final(self).stack.len() == old(self).stack.len() - 1 && final(self).stack.drop_last() == old(self).below2() && (final(self).stack.last() matches Value::ObjRange(g) && g.obj().begin == int_of(old(self).top(1))->0 && g.obj().end == int_of(old(self).top(0))->0) && final(self).raised == old(self).raised
    //@  ensures @a_non_integer_bound_is_a_reported_error !(int_of(old(self).top(1)) is Some && int_of(old(self).top(0)) is Some) ==> (final(self).raised == Some(ErrorKind::TypeError) || final(self).raised == Some(ErrorKind::ValueError))
    //@end

    // one part of an interpolated string: a string stays as it is, anything else is replaced by its printed form
    //@fn file=yarel/src/vm.rs path=Vm::format_string_impl props=C05,C19
    //@  subst "self.new_gc_obj_string(format!(\"{}\", value).as_str())" => "self.display_string(value)"
    //@  rewrite R13
    //@  requires old(self).stack.len() >= 1
    //@  ensures @an_interpolated_part_becomes_what_print_prints_for_it_in_place final(self).stack == old(self).stack.drop_last().push(if old(self).stack.last() is ObjString { old(self).stack.last() } else { Value::ObjString(display(old(self).stack.last())) }) && final(self).raised == old(self).raised
    //@end

    // an interpolated string: its parts, in source order (deepest operand first), concatenated into one string
    //@fn file=yarel/src/vm.rs path=Vm::build_string_impl props=C05
    //@  rewrite R5
    //@  subst "let mut new_string = String::new();" => "let mut new_string = StrBuf::new();"
    //@  subst "new_string.push_str(self.peek(pos).try_as_obj_string().unwrap().as_str())" => "new_string.push_part(self.peek(pos).try_as_obj_string().unwrap());"
    //@  subst "self.new_gc_obj_string(new_string.as_str())" => "self.intern_parts(&new_string)"
    //@  requires old(self).next_byte <= old(self).stack.len(), forall|i: int| old(self).stack.len() - old(self).next_byte <= i < old(self).stack.len() ==> #[trigger] old(self).stack[i] is ObjString
    //@  ensures @a_single_part_is_the_string old(self).next_byte == 1 ==> final(self).stack == old(self).stack
    //@  ensures @parts_are_concatenated_in_source_order old(self).next_byte != 1 ==> final(self).stack.len() == old(self).stack.len() - old(self).next_byte + 1 && final(self).stack.drop_last() == old(self).stack.take(old(self).stack.len() - old(self).next_byte) && (exists|parts: Seq<Gc<ObjString>>| parts.len() == old(self).next_byte && (forall|j: int| 0 <= j < parts.len() ==> old(self).stack[old(self).stack.len() - old(self).next_byte + j] == Value::ObjString(#[trigger] parts[j])) && final(self).stack.last() == Value::ObjString(concat_all(parts)))
    //@  loop 0 invariant self.stack == old(self).stack, num_operands == old(self).next_byte, __k0 <= num_operands, new_string.parts.len() == num_operands - __k0
    //@  loop 0 invariant forall|j: int| 0 <= j < new_string.parts.len() ==> old(self).stack[old(self).stack.len() - num_operands + j] == Value::ObjString(#[trigger] new_string.parts[j])
    //@  loop 0 invariant num_operands <= old(self).stack.len(), forall|i: int| old(self).stack.len() - num_operands <= i < old(self).stack.len() ==> #[trigger] old(self).stack[i] is ObjString
    //@  loop 0 decreases __k0
    //@end

    //@fn file=yarel/src/vm.rs path=Vm::bitwise_not_impl ret=r
    //@  rewrite R1
    //@  subst "Value::Number(!(num as i64) as f64)" => "Value::Number(f64_bitnot(num))"
    //@  requires old(self).stack.len() >= 1
    //@  ensures old(self).stack.last() is Number ==> r is Ok && final(self).stack == old(self).stack.drop_last().push(Value::Number(fbitnot(old(self).stack.last()->Number_0))) && final(self).raised == old(self).raised
    //@  ensures @complementing_a_non_number_is_a_type_error !(old(self).stack.last() is Number) ==> final(self).raised == Some(ErrorKind::TypeError)
    //@end
}

} // verus!
fn main() {}
