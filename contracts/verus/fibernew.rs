//@unit fibernew
//@property C09
// Creating a fiber (yarel/src/core.rs fiber_init = `Fiber(f)`, fiber_has_finished; yarel/src/object.rs ObjFiber::new,
// ObjFiber::is_new, ObjFiber::has_finished; yarel/src/vm.rs Vm::new_root_obj_fiber): a new fiber is a fiber of its OWN —
// one frame for the given function, positioned at the function's first instruction, an empty value stack, no caller,
// no exception handlers, no captured-variable cells, nothing parked — and creating it touches no existing fiber; what is
// not a function of at most one parameter is rejected with an error and no fiber is made.
use vstd::prelude::*;
use std::ops::Deref;
verus! {

global size_of usize == 8;

#[verifier::external_body]
#[verifier::accept_recursive_types(T)]
pub struct Gc<T> { p: core::marker::PhantomData<T> }
impl<T> Clone for Gc<T> { #[verifier::external_body] fn clone(&self) -> (r: Self) ensures r == *self { Gc { p: core::marker::PhantomData } } }
impl<T> Copy for Gc<T> {}
impl<T> Gc<T> { pub uninterp spec fn obj(&self) -> T; pub uninterp spec fn id(&self) -> int; }
impl<T> Deref for Gc<T> {
    type Target = T;
    #[verifier::external_body]
    fn deref(&self) -> (r: &T) ensures *r == self.obj() { unimplemented!() }
}
#[verifier::external_body]
#[verifier::accept_recursive_types(T)]
pub struct Root<T> { p: core::marker::PhantomData<T> }
impl<T> Root<T> {
    pub uninterp spec fn obj(&self) -> T;
    pub uninterp spec fn id(&self) -> int;
    #[verifier::external_body]
    pub fn as_gc(&self) -> (r: Gc<T>) ensures r.obj() == self.obj(), r.id() == self.id() { unimplemented!() }
}
pub struct RefCell<T> { pub v: T }
impl<T> RefCell<T> {
    #[verifier::external_body]
    pub fn borrow(&self) -> (r: &T) ensures *r == self.v { &self.v }
}
//@enum file=yarel/src/error.rs name=ErrorKind
pub struct Error { pub kind: ErrorKind }
#[verifier::external_body]
fn verif_error(kind: ErrorKind) -> (e: Error) ensures e.kind == kind { Error { kind } }
//@const file=yarel/src/common.rs name=FRAMES_MAX
//@const file=yarel/src/common.rs name=LOCALS_MAX
//@const file=yarel/src/object.rs name=STACK_MAX

pub struct ObjClass { }
pub struct ObjUpvalue { }
pub struct ObjFunction { pub arity: usize, pub code_start: usize }
pub struct ObjClosure { pub function: Gc<ObjFunction> }
//@enum file=yarel/src/value.rs name=Value keep=ObjClosure,ObjFiber,Boolean,None other=Other
//@struct file=yarel/src/object.rs name=CallFrame map "*const u8" => "usize"
//@struct file=yarel/src/object.rs name=ExcHandler map "*const u8" => "usize"

// stack.rs by contract (Kani unit `stack`): a new stack holds nothing
pub struct StackS { pub ghost view: Seq<Value> }
impl StackS {
    #[verifier::external_body]
    pub fn new() -> (r: StackS) ensures r.view.len() == 0 { unimplemented!() }
    #[verifier::external_body]
    pub fn peek(&self, depth: usize) -> (r: &Value) requires depth < self.view.len() ensures *r == self.view[self.view.len() - 1 - depth] { unimplemented!() }
}
// `closure.function.chunk.code.as_ptr()`: the address of the first instruction of the function
#[verifier::external_body]
fn code_start(c: &Gc<ObjClosure>) -> (r: usize) ensures r == c.obj().function.obj().code_start { unimplemented!() }
#[verifier::external_body]
fn vec_with_capacity<T>(n: usize) -> (r: Vec<T>) ensures r@.len() == 0 { Vec::with_capacity(n) }
#[verifier::external_body]
fn vec_new<T>() -> (r: Vec<T>) ensures r@.len() == 0 { Vec::new() }

impl Value {
    //@fn file=yarel/src/value.rs path=Value::try_as_obj_closure ret=r
    //@  ensures r == (match *self { Value::ObjClosure(c) => Some(c), _ => None })
    //@end
    //@fn file=yarel/src/value.rs path=Value::try_as_obj_fiber ret=r
    //@  ensures r == (match *self { Value::ObjFiber(c) => Some(c), _ => None })
    //@end
}

//@struct file=yarel/src/object.rs name=ObjFiber map "Stack<Value, STACK_MAX>" => "StackS" map "*const u8" => "usize"
impl ObjFiber {
    // what `Fiber(f)` makes: a fiber that has not started, ready to run f from its first instruction, owing nothing to
    // any other fiber
    pub open spec fn fresh_for(&self, closure: Gc<ObjClosure>) -> bool {
        &&& self.frames@.len() == 1 && self.frames@[0].closure == closure && self.frames@[0].ip == closure.obj().function.obj().code_start && self.frames@[0].slot_base == 0
        &&& self.stack.view.len() == 0
        &&& self.caller is None
        &&& self.exc_handlers@.len() == 0
        &&& self.open_upvalues is None
        &&& self.return_ip is None && self.error_ip is None && !self.handling_exception && self.native_arity is None
        &&& self.call_arity == closure.obj().function.obj().arity
    }

    //@fn file=yarel/src/object.rs path=ObjFiber::new ret=r props=C09
    //@  subst "closure.function.chunk.code.as_ptr()" => "code_start(&closure)"
    //@  subst "Vec::with_capacity(common::FRAMES_MAX)" => "vec_with_capacity(FRAMES_MAX)"
    //@  subst "Vec::new()" => "vec_new()"
    //@  subst "Stack::new()" => "StackS::new()"
    //@  ensures @a_new_fiber_has_one_frame_at_the_start_of_its_function_and_nothing_else r.fresh_for(closure)
    //@  ensures @a_new_fiber_is_new_and_not_finished r.new_fiber() && r.frames@.len() != 0
    //@  ensures r.class == class
    //@end

    pub open spec fn new_fiber(&self) -> bool { self.frames@.len() == 1 && self.frames@[0].ip == self.frames@[0].closure.obj().function.obj().code_start }

    //@fn file=yarel/src/object.rs path=ObjFiber::is_new ret=r props=C09
    //@  subst "self.frames[0].closure.function.chunk.code.as_ptr()" => "code_start(&self.frames[0].closure)"
    //@  ensures @a_fiber_is_new_until_its_first_instruction_has_run r == self.new_fiber()
    //@end

    //@fn file=yarel/src/object.rs path=ObjFiber::has_finished ret=r props=C09
    //@  ensures @a_fiber_has_finished_when_no_frame_is_left r == (self.frames@.len() == 0)
    //@end
}

pub struct ClassStore { pub fiber_cls: Gc<ObjClass> }
impl ClassStore {
    #[verifier::external_body]
    fn fiber_class(&self) -> (r: Gc<ObjClass>) ensures r == self.fiber_cls { unimplemented!() }
}

// the VM as far as this unit is concerned: the active fiber's value stack (read only here) and the fibers that exist
pub struct Vm {
    pub class_store: ClassStore,
    pub stack: StackS,
    pub ghost fibers: Set<int>,             // identities of the fiber cells that exist
}

impl Vm {
    // `Root::new(RefCell::new(x))`: a NEW cell holding x (memory.rs allocation: unit heap); no existing cell changes —
    // fiber contents are immutable views (`obj()`) in this unit, so "exists before" is all there is to preserve
    #[verifier::external_body]
    fn alloc_fiber(&mut self, x: ObjFiber) -> (r: Root<RefCell<ObjFiber>>)
        ensures r.obj().v == x, !old(self).fibers.contains(r.id()), final(self).fibers == old(self).fibers.insert(r.id()), final(self).stack == old(self).stack, final(self).class_store == old(self).class_store
    { unimplemented!() }
    // vm.rs peek: the value `depth` slots below the top of the active fiber's stack
    #[verifier::external_body]
    fn peek(&self, depth: usize) -> (r: Value) requires depth < self.stack.view.len() ensures r == self.stack.view[self.stack.view.len() - 1 - depth] { unimplemented!() }

    //@fn file=yarel/src/vm.rs path=Vm::new_root_obj_fiber ret=r props=C09
    //@  wrap "Root::new(RefCell::new(" => "self.alloc_fiber("
    //@  ensures @a_new_fiber_object_is_a_new_cell_of_the_fiber_class r.obj().v.fresh_for(closure) && r.obj().v.class == old(self).class_store.fiber_cls && !old(self).fibers.contains(r.id()) && final(self).fibers == old(self).fibers.insert(r.id())
    //@  ensures final(self).stack == old(self).stack, final(self).class_store == old(self).class_store
    //@end
}

//@fn file=yarel/src/core.rs path=check_num_args ret=r
//@  rewrite R1
//@  ensures r is Ok <==> num_args == expected
//@  ensures r matches Err(e) ==> e.kind is TypeError
//@end

// Fiber(f)
//@fn file=yarel/src/core.rs path=fiber_init ret=r props=C09,C02
//@  rewrite R1 R16
//@  requires old(vm).stack.view.len() > 0
//@  ensures @a_wrong_argument_count_or_a_non_function_is_a_type_error_and_no_fiber_is_made (num_args != 1 || !(old(vm).stack.view.last() is ObjClosure)) ==> (r matches Err(e) && e.kind is TypeError) && final(vm).fibers == old(vm).fibers
//@  ensures @a_function_of_more_than_one_parameter_is_a_value_error_and_no_fiber_is_made (num_args == 1 && (old(vm).stack.view.last() matches Value::ObjClosure(c) && c.obj().function.obj().arity > 2)) ==> (r matches Err(e) && e.kind is ValueError) && final(vm).fibers == old(vm).fibers
//@  ensures @the_result_is_a_new_fiber_for_the_given_function r matches Ok(v) ==> (v matches Value::ObjFiber(f) && old(vm).stack.view.last() == Value::ObjClosure(f.obj().v.frames@[0].closure) && f.obj().v.fresh_for(f.obj().v.frames@[0].closure) && !old(vm).fibers.contains(f.id()) && final(vm).fibers == old(vm).fibers.insert(f.id()) && f.obj().v.call_arity <= 2)
//@  ensures @making_a_fiber_leaves_the_running_fibers_stack_alone final(vm).stack == old(vm).stack
//@end

// f.has_finished()
//@fn file=yarel/src/core.rs path=fiber_has_finished ret=r props=C09
//@  rewrite R1
//@  subst ".try_as_obj_fiber().expect(\"Expected ObjFiber.\")" => ".try_as_obj_fiber().unwrap()"
//@  requires old(vm).stack.view.len() > 0, old(vm).stack.view.last() is ObjFiber
//@  ensures @has_finished_reports_whether_the_receiver_has_run_to_its_end num_args == 0 ==> (r matches Ok(v) && (old(vm).stack.view.last() matches Value::ObjFiber(f) && v == Value::Boolean(f.obj().v.frames@.len() == 0)))
//@  ensures num_args != 0 ==> (r matches Err(e) && e.kind is TypeError)
//@  ensures final(vm).stack == old(vm).stack && final(vm).fibers == old(vm).fibers
//@end

} // verus!
fn main() {}
