//@unit scan
//@property C03
// "Compiling any source text - valid, truncated, garbled ... or containing arbitrary Unicode - terminates ... it never
// panics": the scanner half (yarel/src/scanner.rs, every function of `impl Scanner`). For every source text (any valid
// UTF-8 String) and every scanner state reachable from `from_source`, `scan_token` returns: no `str` slice off a
// character boundary or out of range, no arithmetic overflow, no `unwrap` of None, every loop terminates, and the cursor
// never moves backwards over a token.
//
// Text model as in units `index` / `lexnum`: an opaque string with UTF-8 bytes, length, boundary predicate (std facts
// as axioms); `&s[a..b]` -> `str_slice` whose precondition IS std's panic condition (R8). `match` on string literals
// becomes an if-chain of byte-wise comparisons (R27), `==`/`!=` on str become `str_eq` (R29), a string literal becomes a
// value carrying its UTF-8 bytes, computed by the rewriter (R28).
use vstd::prelude::*;
verus! {

global size_of usize == 8;

#[verifier::external_body]
pub struct SrcText { _p: u8 }
impl SrcText {
    pub uninterp spec fn blen(&self) -> nat;
    pub uninterp spec fn is_cb(&self, i: int) -> bool;
    pub uninterp spec fn bytes(&self) -> Seq<u8>;
    #[verifier::external_body]
    pub fn len(&self) -> (r: usize) ensures r == self.blen(), r <= isize::MAX { unimplemented!() }
    #[verifier::external_body]
    pub fn is_char_boundary(&self, i: usize) -> (r: bool) ensures r == self.is_cb(i as int) { unimplemented!() }
}
// a `&str` borrowed from the source text: which bytes
#[verifier::external_body]
pub struct StrSlice { _p: u8 }
impl Clone for StrSlice { #[verifier::external_body] fn clone(&self) -> (r: Self) ensures r == *self { StrSlice { _p: 0 } } }
impl Copy for StrSlice {}
impl StrSlice {
    pub uninterp spec fn src(&self) -> SrcText;
    pub uninterp spec fn a(&self) -> int;
    pub uninterp spec fn b(&self) -> int;
    pub open spec fn view(&self) -> Seq<u8> { self.src().bytes().subrange(self.a(), self.b()) }
    // std str methods a refactoring is likely to use (by contract)
    #[verifier::external_body]
    pub fn len(&self) -> (r: usize) ensures r == self.b() - self.a() { unimplemented!() }
    #[verifier::external_body]
    pub fn is_empty(&self) -> (r: bool) ensures r == (self.b() == self.a()) { unimplemented!() }
    // byte offset of the first occurrence of a character: the start of a character of the slice
    #[verifier::external_body]
    pub fn find(&self, c: char) -> (r: Option<usize>)
        ensures r matches Some(p) ==> p < self.b() - self.a() && self.src().is_cb(self.a() + p)
    { unimplemented!() }
}
#[verifier::external_body]
pub fn verif_min(a: usize, b: usize) -> (r: usize) ensures r == (if a <= b { a } else { b }) { unimplemented!() }
#[verifier::external_body]
pub fn verif_max(a: usize, b: usize) -> (r: usize) ensures r == (if a >= b { a } else { b }) { unimplemented!() }
#[verifier::external_body]
pub fn str_slice(s: &SrcText, a: usize, b: usize) -> (r: StrSlice)
    requires a <= b <= s.blen(), s.is_cb(a as int), s.is_cb(b as int),
    ensures r.src() == *s, r.a() == a, r.b() == b,
{ unimplemented!() }
// a string literal (R28) or a `&str` parameter that call sites fill with literals
#[verifier::external_body]
pub struct LitStr { _p: u8 }
impl Clone for LitStr { #[verifier::external_body] fn clone(&self) -> (r: Self) ensures r == *self { LitStr { _p: 0 } } }
impl Copy for LitStr {}
impl LitStr {
    pub uninterp spec fn bytes(&self) -> Seq<u8>;
    #[verifier::external_body]
    pub fn len(&self) -> (r: usize) ensures r == self.bytes().len() { unimplemented!() }
}
#[verifier::external_body]
pub fn verif_lit<const N: usize>(s: &str, bytes: [u8; N]) -> (r: LitStr) ensures r.bytes() == bytes@ { unimplemented!() }
// the literal "" where a `&str` borrowed from the text is expected (peek_next at the end of the text)
#[verifier::external_body]
pub fn empty_slice(s: &SrcText) -> (r: StrSlice) ensures r.src() == *s, r.a() == r.b(), 0 <= r.a() <= s.blen() { unimplemented!() }
// std `==` on str: byte-wise
#[verifier::external_body]
pub fn str_eq(x: &StrSlice, l: LitStr) -> (r: bool) ensures r == (x@ =~= l.bytes()) { unimplemented!() }

// owned strings built by the scanner (token text, the buffer of a string literal): content is outside this unit
#[verifier::external_body]
pub struct OwnedStr { _p: u8 }
pub trait StrLike { }
impl StrLike for StrSlice { }
impl StrLike for LitStr { }
pub struct OwnedRef { }
impl StrLike for OwnedRef { }
impl OwnedStr {
    #[verifier::external_body] pub fn new() -> OwnedStr { unimplemented!() }
    #[verifier::external_body] pub fn push_str<S: StrLike>(&mut self, s: S) { unimplemented!() }
    #[verifier::external_body] pub fn as_str(&self) -> OwnedRef { unimplemented!() }
}
// format!("Unexpected character: '{}'.", c): message text (outside this unit)
#[verifier::external_body]
pub fn verif_format_lit() -> LitStr { unimplemented!() }
#[verifier::external_body]
pub fn owned_from<S: StrLike>(s: S) -> OwnedStr { unimplemented!() }
// u8::from_str_radix(text, 16) / String::from_utf8(bytes): std, total (Result)
#[verifier::external_body]
pub fn parse_hex_u8<S: StrLike>(s: S) -> Result<u8, ()> { unimplemented!() }
#[verifier::external_body]
pub fn parse_u8_radix<S: StrLike>(s: S, radix: u32) -> Result<u8, ()> { unimplemented!() }
#[verifier::external_body]
pub fn owned_from_utf8(bytes: Vec<u8>) -> Result<OwnedStr, ()> { unimplemented!() }

pub broadcast axiom fn axiom_bytes_len(s: SrcText)
    ensures #[trigger] s.bytes().len() == s.blen(), s.blen() <= isize::MAX;   // std: a str is at most isize::MAX bytes
pub broadcast axiom fn axiom_cb_ends(s: SrcText)
    ensures s.is_cb(0) && s.is_cb(#[trigger] s.blen() as int);
// valid UTF-8 (String's type invariant): at a character boundary inside the text stands a lead byte and the next
// boundary is exactly the encoded width further on
pub open spec fn utf8_width(b: u8) -> int { if b < 0x80 { 1 } else if b < 0xE0 { 2 } else if b < 0xF0 { 3 } else { 4 } }
pub broadcast axiom fn axiom_utf8_char(s: SrcText, i: int)
    requires 0 <= i < s.blen(), s.is_cb(i)
    ensures ({
        let b = #[trigger] s.bytes()[i];
        let w = utf8_width(b);
        &&& !(0x80 <= b < 0xC2) && b <= 0xF4
        &&& i + w <= s.blen() && s.is_cb(i + w)
        &&& forall|j: int| i < j < i + w ==> !s.is_cb(j)
        &&& forall|j: int| i < j < i + w ==> s.bytes()[j] >= 0x80     // continuation bytes are 0x80..0xBF
    });

// the character starting at boundary i ends at r: next boundary, nothing in between (r == len at the end of the text)
pub open spec fn char_end(s: SrcText, i: int, r: int) -> bool {
    if i < s.blen() { i < r <= s.blen() && s.is_cb(r) && (forall|j: int| i < j < r ==> !s.is_cb(j)) } else { r == s.blen() }
}
pub proof fn lemma_char_end_unique(s: SrcText, i: int, r1: int, r2: int)
    requires char_end(s, i, r1), char_end(s, i, r2)
    ensures r1 == r2
{
    if i < s.blen() { if r1 < r2 { assert(!s.is_cb(r1)); } else if r2 < r1 { assert(!s.is_cb(r2)); } }
}
// ---- line counting: the number of line feeds among the first i bytes
pub open spec fn nl(s: SrcText, i: int) -> int
    decreases i
{
    if i <= 0 { 0 } else { nl(s, i - 1) + (if s.bytes()[i - 1] == 0x0Au8 { 1int } else { 0int }) }
}
// the character at boundary i is a line feed
pub open spec fn lf_at(s: SrcText, i: int) -> bool { 0 <= i < s.blen() && s.bytes()[i] == 0x0Au8 }
// one character [i, r): it contributes one line feed iff it IS the line-feed character (every other byte of any
// character is either its own non-LF ASCII byte or >= 0x80)
pub proof fn lemma_nl_char(s: SrcText, i: int, r: int)
    requires 0 <= i < s.blen(), s.is_cb(i), char_end(s, i, r)
    ensures nl(s, r) == nl(s, i) + (if lf_at(s, i) { 1int } else { 0int }), lf_at(s, i) ==> r == i + 1
{
    broadcast use axiom_utf8_char;
    let w = utf8_width(s.bytes()[i]);
    assert(s.is_cb(i + w));
    if r < i + w { assert(!s.is_cb(r)); } else if r > i + w { assert(!s.is_cb(i + w)); }
    assert(r == i + w);
    lemma_nl_tail(s, i, r);
}
// bytes i+1 .. r-1 of a character are >= 0x80: no line feed among them
pub proof fn lemma_nl_tail(s: SrcText, i: int, r: int)
    requires 0 <= i < r <= s.blen(), forall|j: int| i < j < r ==> s.bytes()[j] >= 0x80
    ensures nl(s, r) == nl(s, i) + (if s.bytes()[i] == 0x0Au8 { 1int } else { 0int })
    decreases r - i
{
    if r == i + 1 { assert(nl(s, r) == nl(s, r - 1) + (if s.bytes()[r - 1] == 0x0Au8 { 1int } else { 0int })); }
    else { lemma_nl_tail(s, i, r - 1); assert(s.bytes()[r - 1] >= 0x80); assert(nl(s, r) == nl(s, r - 1) + (if s.bytes()[r - 1] == 0x0Au8 { 1int } else { 0int })); }
}
pub proof fn lemma_nl_mono(s: SrcText, a: int, b: int)
    requires 0 <= a <= b
    ensures nl(s, a) <= nl(s, b) <= nl(s, a) + (b - a)
    decreases b - a
{
    if a < b { lemma_nl_mono(s, a, b - 1); }
}

// a slice of the text is exactly the line-feed character iff it is the single byte 0x0A (a proved fact about subrange)
pub broadcast proof fn lemma_slice_lf(x: StrSlice)
    requires 0 <= x.a() <= x.b() <= x.src().bytes().len()
    ensures (#[trigger] x.view() =~= seq![0x0Au8]) <==> (x.b() == x.a() + 1 && x.src().bytes()[x.a()] == 0x0Au8)
{
    let sub = x.src().bytes().subrange(x.a(), x.b());
    assert(sub.len() == x.b() - x.a());
    if sub =~= seq![0x0Au8] { assert(sub[0] == 0x0Au8); }
    if x.b() == x.a() + 1 && x.src().bytes()[x.a()] == 0x0Au8 { assert(sub[0] == 0x0Au8); assert(sub =~= seq![0x0Au8]); }
}

pub open spec fn ascii_alnum(b: u8) -> bool { (0x30 <= b <= 0x39) || (0x41 <= b <= 0x5a) || (0x61 <= b <= 0x7a) || b == 0x5f }
pub open spec fn all_ascii(s: SrcText, a: int, b: int) -> bool { forall|k: int| a <= k < b ==> #[trigger] s.bytes()[k] < 0x80 }
// a run of ASCII bytes starting at a boundary consists of one-byte characters: every position is a boundary
pub proof fn lemma_ascii_run_boundaries(s: SrcText, a: int, b: int)
    requires 0 <= a <= b <= s.blen(), s.is_cb(a), all_ascii(s, a, b)
    ensures forall|k: int| a <= k <= b ==> #[trigger] s.is_cb(k)
    decreases b - a
{
    broadcast use axiom_utf8_char;
    if a < b {
        assert(s.bytes()[a] < 0x80);
        assert(s.is_cb(a + 1));
        lemma_ascii_run_boundaries(s, a + 1, b);
    }
}

// scanner.rs is_alpha / is_digit: `!s.is_empty() && s.chars().all(..)` (iterator adapters, by contract): on a str that
// is "non-empty and every byte an ASCII letter/underscore resp. digit"
#[verifier::external_body]
fn is_alpha(s: StrSlice) -> (r: bool)
    ensures r ==> (s.a() < s.b() && forall|k: int| s.a() <= k < s.b() ==> ascii_alnum(#[trigger] s.src().bytes()[k]))
{ unimplemented!() }
#[verifier::external_body]
fn is_digit(s: StrSlice) -> (r: bool)
    ensures r ==> (s.a() < s.b() && forall|k: int| s.a() <= k < s.b() ==> ascii_alnum(#[trigger] s.src().bytes()[k]))
{ unimplemented!() }

//@const file=yarel/src/common.rs name=INTERPOLATION_DEPTH_MAX
//@enum file=yarel/src/scanner.rs name=TokenKind
//@struct file=yarel/src/scanner.rs name=Token map "String" => "OwnedStr"
//@struct file=yarel/src/scanner.rs name=Scanner map "String" => "SrcText"

impl Scanner {
    // Representation invariant: both cursors are character boundaries of the text, start <= current <= len; the open
    // interpolation counters are >= 1; counters and the line number are bounded by the bytes consumed (so `+= 1` cannot
    // overflow: a text has at most isize::MAX bytes).
    pub open spec fn cur_ok(&self) -> bool {
        &&& self.start <= self.current <= self.source.blen()
        &&& self.source.is_cb(self.start as int) && self.source.is_cb(self.current as int)
    }
    pub open spec fn wf(&self) -> bool {
        &&& self.cur_ok()
        &&& self.line <= self.current + 1
        &&& forall|i: int| 0 <= i < self.parantheses@.len() ==> 1 <= #[trigger] self.parantheses@[i] <= self.current + 1
    }
    // the line counter counts the line feeds consumed so far (C17: the line a token — and a compile error — is reported at)
    pub open spec fn lines_ok(&self) -> bool { self.line == 1 + nl(self.source, self.current as int) }
    // nothing but the cursor moved, and it moved forwards
    // nothing but the cursor and the line counter moved, both forwards
    pub open spec fn cursor_and_line_only(&self, o: &Scanner) -> bool {
        o.source == self.source && o.start == self.start && o.line >= self.line && o.parantheses == self.parantheses && o.current >= self.current
    }
    pub open spec fn cursor_only(&self, o: &Scanner) -> bool {
        o.source == self.source && o.start == self.start && o.line == self.line && o.parantheses == self.parantheses && o.current >= self.current
    }

    //@fn file=yarel/src/scanner.rs path=Scanner::from_source ret=r props=C03,C17
    //@  sig "source: String" => "source: SrcText"
    //@  ensures r.wf(), r.source == source
    //@  ensures @a_new_scanner_stands_on_line_one r.lines_ok()
    //@  at body.start broadcast use axiom_cb_ends;
    //@end
    //@fn file=yarel/src/scanner.rs path=Scanner::get_next_char_boundary ret=r
    //@  requires start <= self.source.blen()
    //@  ensures char_end(self.source, start as int, r as int)
    //@  ensures (start < self.source.blen() && self.source.is_cb(start as int)) ==> nl(self.source, r as int) == nl(self.source, start as int) + (if lf_at(self.source, start as int) { 1int } else { 0int }) && (lf_at(self.source, start as int) ==> r == start + 1)
    //@  before_stmt "return pos;" proof { if start < self.source.blen() && self.source.is_cb(start as int) { lemma_nl_char(self.source, start as int, pos as int); } }
    //@  at body.tail proof { if start < self.source.blen() && self.source.is_cb(start as int) { lemma_nl_char(self.source, start as int, self.source.blen() as int); } }
    //@  at body.start broadcast use axiom_cb_ends; broadcast use axiom_bytes_len; proof { assert(self.source.bytes().len() == self.source.blen()); }
    //@  loop 0 iter it
    //@  loop 0 invariant it.snapshot.start == start + 1, it.snapshot.end == self.source.blen()
    //@  loop 0 invariant forall|j: int| start < j < start + 1 + it.index@ ==> !self.source.is_cb(j)
    //@end
    //@fn file=yarel/src/scanner.rs path=Scanner::is_at_end ret=r
    //@  ensures r == (self.current >= self.source.blen())
    //@end
    //@fn file=yarel/src/scanner.rs path=Scanner::advance ret=r props=C03,C17
    //@  rewrite R8
    //@  sig "-> &str" => "-> StrSlice"
    //@  subst "str_slice(self.source," => "str_slice(&self.source,"
    //@  requires old(self).cur_ok()
    //@  ensures final(self).cur_ok(), old(self).cursor_only(final(self)), char_end(old(self).source, old(self).current as int, final(self).current as int)
    //@  ensures r.src() == old(self).source && r.a() == old(self).current && r.b() == final(self).current
    //@  ensures @a_consumed_character_adds_a_line_feed_iff_it_is_one nl(old(self).source, final(self).current as int) == nl(old(self).source, old(self).current as int) + (if lf_at(old(self).source, old(self).current as int) { 1int } else { 0int })
    //@  at body.start broadcast use axiom_cb_ends;
    //@  ensures lf_at(old(self).source, old(self).current as int) <==> (final(self).current == old(self).current + 1 && old(self).source.bytes()[old(self).current as int] == 0x0Au8)
    //@  ensures @advance_hands_out_a_line_feed_exactly_at_a_line_feed lf_at(old(self).source, old(self).current as int) <==> r@ =~= seq![0x0Au8]
    //@  at body.start broadcast use axiom_bytes_len; broadcast use lemma_slice_lf;
    //@end
    //@fn file=yarel/src/scanner.rs path=Scanner::peek ret=r
    //@  rewrite R8
    //@  sig "-> &str" => "-> StrSlice"
    //@  subst "str_slice(self.source," => "str_slice(&self.source,"
    //@  requires self.cur_ok()
    //@  ensures r.src() == self.source && r.a() == self.current && char_end(self.source, self.current as int, r.b())
    //@  ensures lf_at(self.source, self.current as int) <==> (r.b() == self.current + 1 && self.current < self.source.blen() && self.source.bytes()[self.current as int] == 0x0Au8)
    //@  at body.start broadcast use axiom_cb_ends;
    //@  ensures @peek_sees_a_line_feed_exactly_at_a_line_feed lf_at(self.source, self.current as int) <==> r@ =~= seq![0x0Au8]
    //@  at body.start broadcast use axiom_bytes_len; broadcast use lemma_slice_lf;
    //@end
    //@fn file=yarel/src/scanner.rs path=Scanner::peek_next ret=r
    //@  rewrite R8
    //@  sig "-> &str" => "-> StrSlice"
    //@  subst "str_slice(self.source," => "str_slice(&self.source,"
    //@  subst "\"\"" => "empty_slice(&self.source)"
    //@  requires self.cur_ok()
    //@  ensures r.src() == self.source
    //@  ensures self.current >= self.source.blen() ==> r.a() == r.b()
    //@  ensures self.current < self.source.blen() ==> char_end(self.source, self.current as int, r.a()) && char_end(self.source, r.a(), r.b())
    //@  at body.start broadcast use axiom_cb_ends;
    //@end

    //@fn file=yarel/src/scanner.rs path=Scanner::match_char ret=r props=C03,C17
    //@  rewrite R8 R29
    //@  sig "expected: &str" => "expected: LitStr"
    //@  subst "str_slice(self.source," => "str_slice(&self.source,"
    //@  requires old(self).cur_ok()
    //@  ensures final(self).cur_ok(), old(self).cursor_only(final(self))
    //@  ensures !r ==> final(self).current == old(self).current
    //@  ensures @matching_a_character_that_is_no_line_feed_keeps_the_line_count (old(self).lines_ok() && expected.bytes().len() >= 1 && expected.bytes()[0] != 0x0Au8) ==> final(self).lines_ok()
    //@  at body.start broadcast use axiom_cb_ends; broadcast use axiom_bytes_len;
    //@end

    //@fn file=yarel/src/scanner.rs path=Scanner::make_token ret=r
    //@  rewrite R8
    //@  subst "String::from(str_slice(self.source," => "owned_from(str_slice(&self.source,"
    //@  requires self.wf()
    //@  ensures r.kind == kind
    //@end
    //@fn file=yarel/src/scanner.rs path=Scanner::error_token ret=r
    //@  sig "message: &str" => "message: LitStr"
    //@  subst "String::from(message)" => "owned_from(message)"
    //@  ensures r.kind is Error
    //@end
    //@fn file=yarel/src/scanner.rs path=Scanner::binary_token ret=r props=C03,C17
    //@  ensures r.kind == bare_kind || r.kind == assign_kind
    //@  ensures old(self).lines_ok() ==> final(self).lines_ok()
    //@  rewrite R28
    //@  requires old(self).wf()
    //@  ensures final(self).wf(), old(self).cursor_only(final(self))
    //@end

    // Whitespace and `//` comments: terminates for every text; only the cursor and the line counter move
    //@fn file=yarel/src/scanner.rs path=Scanner::skip_whitespace props=C03,C17
    //@  rewrite R27 R29 R28
    //@  requires old(self).wf()
    //@  ensures @skipped_line_feeds_are_counted old(self).lines_ok() ==> final(self).lines_ok()
    //@  ensures @whitespace_skipping_stops_before_something_that_is_no_line_feed !lf_at(final(self).source, final(self).current as int)
    //@  loop 0 invariant old(self).lines_ok() ==> self.lines_ok()
    //@  loop 1 invariant old(self).lines_ok() ==> self.lines_ok()
    //@  ensures final(self).wf(), final(self).source == old(self).source, final(self).start == old(self).start, final(self).parantheses == old(self).parantheses, final(self).current >= old(self).current
    //@  loop 0 invariant self.wf(), self.source == old(self).source, self.start == old(self).start, self.parantheses == old(self).parantheses, self.current >= old(self).current
    //@  loop 0 decreases self.source.blen() - self.current
    //@  loop 1 invariant self.wf(), self.source == old(self).source, self.start == old(self).start, self.parantheses == old(self).parantheses, self.current >= old(self).current
    //@  loop 1 invariant self.current >= cur0
    //@  loop 1 decreases self.source.blen() - self.current
    //@  at loop0.start let ghost cur0 = self.current; broadcast use axiom_bytes_len;
    //@end

    // an identifier/keyword token: non-empty, ASCII letters, digits, underscores only
    pub open spec fn ascii_token(&self) -> bool {
        self.start < self.current && all_ascii(self.source, self.start as int, self.current as int)
    }

    //@fn file=yarel/src/scanner.rs path=Scanner::check_keyword ret=r
    //@  ensures r == kind || r is Identifier
    //@  rewrite R8 R29
    //@  sig "rest: &str" => "rest: LitStr"
    //@  subst "str_slice(self.source," => "str_slice(&self.source,"
    //@  requires self.wf(), self.ascii_token(), start <= 8, rest.bytes().len() <= 16
    //@  at body.start broadcast use axiom_bytes_len; proof { assert(self.source.bytes().len() == self.source.blen()); lemma_ascii_run_boundaries(self.source, self.start as int, self.current as int); }
    //@end

    //@fn file=yarel/src/scanner.rs path=Scanner::identifier_type ret=r
    //@  ensures !(r is Eof)
    //@  rewrite R8 R27 R29 R28
    //@  subst "str_slice(self.source," => "str_slice(&self.source,"
    //@  requires self.wf(), self.ascii_token()
    //@  at body.start broadcast use axiom_bytes_len; proof { lemma_ascii_run_boundaries(self.source, self.start as int, self.current as int); }
    //@end

    //@fn file=yarel/src/scanner.rs path=Scanner::identifier ret=r props=C03,C17
    //@  ensures !(r.kind is Eof)
    //@  ensures @an_identifier_contains_no_line_feed old(self).lines_ok() ==> final(self).lines_ok()
    //@  loop 0 invariant old(self).lines_ok() ==> self.lines_ok()
    //@  requires old(self).wf(), old(self).ascii_token()
    //@  ensures final(self).wf(), old(self).cursor_only(final(self))
    //@  loop 0 invariant self.wf(), old(self).cursor_only(self), self.ascii_token()
    //@  loop 0 decreases self.source.blen() - self.current
    //@  at loop0.start broadcast use axiom_bytes_len;
    //@end

    //@fn file=yarel/src/scanner.rs path=Scanner::number ret=r props=C03,C17
    //@  ensures r.kind is Number
    //@  ensures @a_number_contains_no_line_feed old(self).lines_ok() ==> final(self).lines_ok()
    //@  loop 0 invariant old(self).lines_ok() ==> self.lines_ok()
    //@  loop 1 invariant old(self).lines_ok() ==> self.lines_ok()
    //@  rewrite R29 R28
    //@  requires old(self).wf()
    //@  ensures final(self).wf(), old(self).cursor_only(final(self))
    //@  loop 0 invariant self.wf(), old(self).cursor_only(self)
    //@  loop 0 decreases self.source.blen() - self.current
    //@  loop 1 invariant self.wf(), old(self).cursor_only(self)
    //@  loop 1 decreases self.source.blen() - self.current
    //@  at loop0.start broadcast use axiom_bytes_len;
    //@  at loop1.start broadcast use axiom_bytes_len;
    //@end

    // \xHH, \uHHHH, \UHHHHHHHH: reads 2 * num_bytes characters one at a time (whatever their width); an error leaves the
    // cursor on a boundary at or behind where it was
    //@fn file=yarel/src/scanner.rs path=Scanner::read_escaped_bytes ret=r props=C03,C17
    //@  ensures @a_line_feed_read_as_a_hex_digit_is_still_counted old(self).lines_ok() ==> final(self).lines_ok()
    //@  loop 0 invariant old(self).lines_ok() ==> self.lines_ok()
    //@  loop 1 invariant old(self).lines_ok() ==> self.lines_ok()
    //@  rewrite R8 R29 R28 R30
    //@  subst "str_slice(self.source," => "str_slice(&self.source,"
    //@  subst "u8::from_str_radix(" => "parse_u8_radix("
    //@  subst "for _ in" => "for _k in"
    //@  subst "let mut read_chars = String::new();" => "let mut read_chars = OwnedStr::new();"
    //@  subst "String::from_utf8(bytes)" => "owned_from_utf8(bytes)"
    //@  sig "Result<String, ()>" => "Result<OwnedStr, ()>"
    //@  requires old(self).wf(), 1 <= num_bytes <= 4
    //@  ensures final(self).wf(), old(self).cursor_and_line_only(final(self))
    //@  loop 0 invariant self.wf(), old(self).cursor_and_line_only(self), bytes@.len() == _k, 1 <= num_bytes <= 4
    //@  loop 1 invariant self.wf(), old(self).cursor_and_line_only(self)
    //@  at loop1.start broadcast use axiom_bytes_len;
    //@end

    // A string literal or the continuation of one after `${ … }`
    //@fn file=yarel/src/scanner.rs path=Scanner::string ret=r props=C03,C17
    //@  ensures !(r.kind is Eof)
    //@  ensures @every_line_feed_inside_a_string_literal_is_counted old(self).lines_ok() ==> final(self).lines_ok()
    //@  loop 0 invariant old(self).lines_ok() ==> self.lines_ok()
    //@  rewrite R11 R27 R29 R28
    //@  subst "let mut buffer = String::new();" => "let mut buffer = OwnedStr::new();"
    //@  requires old(self).wf()
    //@  ensures final(self).wf(), final(self).source == old(self).source, final(self).start == old(self).start, final(self).current >= old(self).current
    //@  loop 0 invariant self.wf(), self.source == old(self).source, self.start == old(self).start, self.current >= old(self).current
    //@  loop 0 decreases self.source.blen() - self.current
    //@  at loop0.start broadcast use axiom_bytes_len; proof { assert(self.source.bytes().len() == self.source.blen()); }
    //@end

    // One token. Progress: the cursor never moves backwards, and a token other than Eof consumed at least one character
    // (so a caller that stops at Eof terminates).
    //@fn file=yarel/src/scanner.rs path=Scanner::scan_token ret=r props=C03,C17
    //@  ensures @the_line_counter_counts_exactly_the_line_feeds_consumed old(self).lines_ok() ==> final(self).lines_ok()
    //@  subst "let msg = format!(\"Unexpected character: '{}'.\", c);" => "let msg = verif_format_lit();"
    //@  subst "self.error_token(msg.as_str())" => "self.error_token(msg)"
    //@  rewrite R27 R29 R28
    //@  requires old(self).wf()
    //@  ensures final(self).wf(), final(self).source == old(self).source, final(self).current >= old(self).current
    //@  ensures @every_token_but_eof_consumes_input !(r.kind is Eof) ==> final(self).current > old(self).current
    //@  ensures @eof_only_at_the_end_of_the_text r.kind is Eof ==> final(self).current >= final(self).source.blen()
    //@  after_stmt "let c = self.advance();" broadcast use axiom_bytes_len; proof { assert(self.source.bytes().len() == self.source.blen()); }
    //@end
}

} // verus!
fn main() {}
