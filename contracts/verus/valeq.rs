//@unit valeq
//@property C12
// "a HashMap holds exactly the entries of an abstract map whose keys are compared with the language's `==`": for that
// sentence to mean anything `==` on hashable keys has to be an equivalence relation that depends on the key VALUES only,
// not on which heap cell happens to hold them at the time. yarel/src/value.rs `impl PartialEq for Value` (the
// language's `==`, and the `Eq` the std HashMap of ObjHashMap is keyed by) restricted to the hashable kinds whose
// comparison needs no float and no recursion: booleans, nil, strings, classes, ranges. Numbers are the Kani unit
// `utils`/`objectk`, tuples the bounded Kani harnesses of `objectk`.
use vstd::prelude::*;
use std::ops::Deref;
verus! {

global size_of usize == 8;

// ------------------------------------------------------------------ environment stand-ins (assumed)
#[verifier::external_body]
#[verifier::accept_recursive_types(T)]
pub struct Gc<T> { p: core::marker::PhantomData<T> }
impl<T> Clone for Gc<T> { #[verifier::external_body] fn clone(&self) -> (r: Self) ensures r == *self { Gc { p: core::marker::PhantomData } } }
impl<T> Copy for Gc<T> {}
impl<T> Gc<T> {
    pub uninterp spec fn id(&self) -> int;      // the heap cell
    pub uninterp spec fn obj(&self) -> T;       // its content when dereferenced
}
impl<T> Deref for Gc<T> {
    type Target = T;
    #[verifier::external_body]
    fn deref(&self) -> (r: &T) ensures *r == self.obj() { unimplemented!() }
}
// memory.rs Gc::as_ptr: the address of the cell (a function of the cell's identity, different for different cells)
pub uninterp spec fn addr_of(cell: int) -> usize;
impl<T> Gc<T> {
    #[verifier::external_body] pub fn as_ptr(&self) -> (r: usize) ensures r == addr_of(self.id()) { unimplemented!() }
}
pub trait ToF64 { spec fn f(self) -> f64; fn verif_to_f64(self) -> (r: f64) ensures r == self.f(); }
impl ToF64 for usize {
    uninterp spec fn f(self) -> f64;
    #[verifier::external_body] fn verif_to_f64(self) -> (r: f64) { unimplemented!() }
}
// memory.rs `impl PartialEq for Gc<T>`: pointer identity
#[verifier::external_body]
fn gc_eq<T>(a: Gc<T>, b: Gc<T>) -> (r: bool) ensures r == (a.id() == b.id()) { unimplemented!() }

pub struct RefCell<T> { pub v: T }
pub struct ObjString { pub hash: u64 }
pub struct ObjClass { pub name: Gc<ObjString> }
pub struct ObjStringIter { } pub struct ObjFunction { } pub struct ObjNative { } pub struct ObjClosure { } pub struct ObjInstance { }
pub struct ObjBoundMethod<T> { pub m: Gc<T> } pub struct ObjTupleIter { } pub struct ObjVecIter { } pub struct ObjRangeIter { }
pub struct ObjModule { } pub struct ObjFiber { }
//@struct file=yarel/src/object.rs name=ObjRange

//@enum file=yarel/src/value.rs name=Value keep=Boolean,ObjString,ObjStringIter,ObjFunction,ObjNative,ObjClosure,ObjClass,ObjInstance,ObjBoundMethod,ObjBoundNative,ObjTupleIter,ObjVecIter,ObjRange,ObjRangeIter,ObjModule,ObjFiber,None other=Other

// The abstract key: what a hashable value of these kinds denotes. Strings and classes are denoted by their heap cell
// (C11: one cell per string content; a class is its declaration), a range by its two bounds.
pub enum Key { Bool(bool), Str(int), Class(int), Range(int, int), Nil }

pub open spec fn key_of(v: Value) -> Key
    recommends !(v is Other)
{
    match v {
        Value::Boolean(b) => Key::Bool(b),
        Value::ObjString(s) => Key::Str(s.id()),
        Value::ObjClass(c) => Key::Class(c.id()),
        Value::ObjRange(r) => Key::Range(r.obj().begin as int, r.obj().end as int),
        Value::None => Key::Nil,
        _ => Key::Nil,
    }
}
pub open spec fn is_key_kind(v: Value) -> bool { v is Boolean || v is ObjString || v is ObjClass || v is ObjRange || v is None }

impl Value {
    //@fn file=yarel/src/value.rs path="<cmp::PartialEq for Value>::eq" obname=Value::eq ret=r props=C12,C05
    //@  keep_arms Value Boolean,ObjString,ObjStringIter,ObjFunction,ObjNative,ObjClosure,ObjClass,ObjInstance,ObjBoundMethod,ObjBoundNative,ObjTupleIter,ObjVecIter,ObjRange,ObjRangeIter,ObjModule,ObjFiber,None
    //@  subst "*first == *second" => "gc_eq(*first, *second)"
    //@  subst "(Value::ObjString(first), Value::ObjString(second)) => *first == *second" => "(Value::ObjString(first), Value::ObjString(second)) => gc_eq(*first, *second)"
    //@  subst "(Value::ObjClass(first), Value::ObjClass(second)) => *first == *second" => "(Value::ObjClass(first), Value::ObjClass(second)) => gc_eq(*first, *second)"
    //@  subst "(Value::ObjRange(first), Value::ObjRange(second)) => *first == *second" => "(Value::ObjRange(first), Value::ObjRange(second)) => gc_eq(*first, *second)"
    //@  ensures @equal_keys_are_the_same_abstract_key is_key_kind(*self) && is_key_kind(*other) ==> r == (key_of(*self) == key_of(*other))
    //@  ensures @a_value_equals_itself (*self == *other && !(*self is Other)) ==> r
    //@  ensures @range_equality_does_not_depend_on_the_heap_cell forall|a: Gc<ObjRange>, b: Gc<ObjRange>| *self == Value::ObjRange(a) && *other == Value::ObjRange(b) ==> r == (a.obj().begin == b.obj().begin && a.obj().end == b.obj().end)
    //@end

    //@fn file=yarel/src/value.rs path=Value::has_hash ret=r
    //@  keep_arms Value Boolean,ObjString,ObjStringIter,ObjFunction,ObjNative,ObjClosure,ObjClass,ObjInstance,ObjBoundMethod,ObjBoundNative,ObjTupleIter,ObjVecIter,ObjRange,ObjRangeIter,ObjModule,ObjFiber,None
    //@  ensures @these_kinds_are_accepted_as_keys is_key_kind(*self) ==> r
    //@end
}

// ------------------------------------------------------------------ the hash side (impl Hash for Value)
// utils::hash_number (its coherence with == on numbers: Kani unit utils) and the isize -> f64 cast: uninterpreted
pub uninterp spec fn hn(x: f64) -> u64;
pub uninterp spec fn i2f(x: int) -> f64;
#[verifier::external_body] fn hash_number(x: f64) -> (r: u64) ensures r == hn(x) { unimplemented!() }
#[verifier::external_body] fn isize_to_f64(x: isize) -> (r: f64) ensures r == i2f(x as int) { unimplemented!() }
#[verifier::external_body] fn verif_unhashable() -> (r: u64) requires false { unimplemented!() }
// the hash stored in an interned string is part of the cell's content: the same cell, the same hash
pub uninterp spec fn str_hash(cell: int) -> u64;
pub uninterp spec fn class_hash(cell: int) -> u64;
pub broadcast axiom fn axiom_string_hash_is_content(g: Gc<ObjString>) ensures #[trigger] g.obj().hash == str_hash(g.id());
pub broadcast axiom fn axiom_class_name_is_content(c: Gc<ObjClass>) ensures #[trigger] c.obj().name.obj().hash == class_hash(c.id());
pub open spec fn key_hash(k: Key) -> u64 {
    match k {
        Key::Bool(b) => if b { 1u64 } else { 0u64 },
        Key::Str(id) => str_hash(id),
        Key::Class(id) => class_hash(id),
        Key::Range(b, e) => hn(i2f(b)) ^ hn(i2f(e)),
        Key::Nil => 2u64,
    }
}
// std::hash::Hasher as far as Value::hash is concerned: what was written
pub struct HashSink { pub ghost written: Seq<u64> }
impl HashSink {
    #[verifier::external_body] fn write_u64(&mut self, x: u64) ensures final(self).written == old(self).written.push(x) { unimplemented!() }
}
impl Value {
    // The hash of a key of these kinds is a function of its ABSTRACT key — so keys the language's `==` identifies
    // (previous function) hash alike, which is what std's table needs to find them.
    //@fn file=yarel/src/value.rs path="<Hash for Value>::hash" obname=Value::hash
    //@  keep_arms Value Boolean,ObjString,ObjClass,ObjRange,None
    //@  sig "fn hash<H: std::hash::Hasher>(&self, state: &mut H)" => "fn hash(&self, state: &mut HashSink)"
    //@  subst "utils::hash_number(" => "hash_number("
    //@  subst " as usize as f64" => ".verif_to_f64()"
    //@  subst "r.begin as f64" => "isize_to_f64(r.begin)"
    //@  subst "r.end as f64" => "isize_to_f64(r.end)"
    //@  subst "panic!(\"Unhashable value type: {}\", self);" => "verif_unhashable()"
    //@  requires is_key_kind(*self)
    //@  at body.start broadcast use axiom_string_hash_is_content; broadcast use axiom_class_name_is_content;
    //@  ensures @the_hash_of_a_key_is_a_function_of_its_abstract_key final(state).written == old(state).written.push(key_hash(key_of(*self)))
    //@end
}

// C12 for these kinds, unbounded: keys that are `==` hash alike
//@lemma name=equal_keys_hash_alike props=C12
pub proof fn equal_keys_hash_alike(a: Value, b: Value)
    requires is_key_kind(a), is_key_kind(b), key_of(a) == key_of(b)
    ensures key_hash(key_of(a)) == key_hash(key_of(b))
{}

// `==` on these kinds is the equality of abstract keys, hence an equivalence relation that is stable over time (it
// mentions no mutable state: a range object's bounds are never written after construction — unit rangecache, C18).
pub proof fn lemma_key_equality_is_an_equivalence(a: Value, b: Value, c: Value)
    ensures
        key_of(a) == key_of(a),
        key_of(a) == key_of(b) ==> key_of(b) == key_of(a),
        key_of(a) == key_of(b) && key_of(b) == key_of(c) ==> key_of(a) == key_of(c),
{
}

} // verus!
fn main() {}
