//@unit modules
//@property C14
// "a module's top-level code runs at most once however many import statements name it, and every import of it yields
// the same module object; importing a module that is still being loaded, that cannot be found, or that fails to
// compile is reported as an ImportError" (yarel/src/vm.rs Vm::module, Vm::start_import_impl, Vm::finish_import_impl).
//
// `registry` is the VM's `modules` map (std HashMap by contract, keyed by the interned path string: equal paths are the
// same key object, C11); `mods` (ghost) is the content of the module cells; `runs` (ghost) counts how often a module
// body has been started; `raised` (ghost) records the kind of the last error handed to try_handle_error.
use vstd::prelude::*;
use std::ops::Deref;
verus! {

global size_of usize == 8;

// ------------------------------------------------------------------ environment stand-ins (assumed)
#[verifier::external_body]
#[verifier::accept_recursive_types(T)]
pub struct Gc<T> { p: core::marker::PhantomData<T> }
impl<T> Clone for Gc<T> { #[verifier::external_body] fn clone(&self) -> (r: Self) ensures r == *self { Gc { p: core::marker::PhantomData } } }
impl<T> Copy for Gc<T> {}
impl<T> Gc<T> { pub uninterp spec fn id(&self) -> int; }
#[verifier::external_body]
#[verifier::accept_recursive_types(T)]
pub struct Root<T> { p: core::marker::PhantomData<T> }
impl<T> Root<T> {
    pub uninterp spec fn id(&self) -> int;
    pub uninterp spec fn gc(&self) -> Gc<T>;
    #[verifier::external_body]
    pub fn as_gc(&self) -> (g: Gc<T>) ensures g.id() == self.id(), g == self.gc() { unimplemented!() }
}
pub struct RefCell<T> { pub v: T }
pub struct ObjString { }
pub struct ObjClass { }
pub struct ObjFunction { }
pub struct ObjClosure { }
// object.rs ObjClosure.module: the module whose globals the closure's code sees
pub uninterp spec fn closure_module(c: Gc<ObjClosure>) -> Gc<RefCell<ObjModule>>;
// a module's globals: std HashMap<Gc<ObjString>, Value> by contract, keyed by the name string's cell identity (C11)
pub struct AttrMap { pub ghost view: Map<int, Value> }
impl AttrMap {
    // `.get(&name).map(|&v| v)`
    #[verifier::external_body]
    fn get_copied(&self, k: &Gc<ObjString>) -> (r: Option<Value>)
        ensures self.view.dom().contains(k.id()) ==> r == Some(self.view[k.id()]), !self.view.dom().contains(k.id()) ==> r is None,
    { unimplemented!() }
    #[verifier::external_body]
    fn insert(&mut self, k: Gc<ObjString>, v: Value) -> (r: Option<Value>)
        ensures final(self).view == old(self).view.insert(k.id(), v),
            old(self).view.dom().contains(k.id()) ==> r == Some(old(self).view[k.id()]), !old(self).view.dom().contains(k.id()) ==> r is None,
    { unimplemented!() }
    #[verifier::external_body]
    fn remove(&mut self, k: &Gc<ObjString>) -> (r: Option<Value>)
        ensures final(self).view == old(self).view.remove(k.id()), r is Some <==> old(self).view.dom().contains(k.id())
    { unimplemented!() }
}
#[verifier::external_body]
fn new_obj_string_value_map() -> (r: AttrMap) ensures r.view == Map::<int, Value>::empty() { unimplemented!() }
//@enum file=yarel/src/value.rs name=Value keep=ObjModule,ObjClosure,None other=Other
impl Value {
    //@fn file=yarel/src/value.rs path=Value::try_as_obj_module ret=r
    //@  ensures r == (match *self { Value::ObjModule(g) => Some(g), _ => None })
    //@end
}
//@enum file=yarel/src/error.rs name=ErrorKind
pub struct Error { pub kind: ErrorKind }
#[verifier::external_body]
fn verif_error(kind: ErrorKind) -> (e: Error) ensures e.kind == kind { Error { kind } }

//@struct file=yarel/src/object.rs name=ObjModule map "HashMap<Gc<ObjString>, Value, BuildPassThroughHasher>" => "AttrMap"
impl ObjModule {
    //@fn file=yarel/src/object.rs path=ObjModule::new ret=r
    //@  ensures r.imported == false && r.path == path && r.class == class
    //@end
}

// std HashMap<Gc<ObjString>, Root<RefCell<ObjModule>>> by contract; keys compared by cell identity
//@const file=yarel/src/common.rs name=FRAMES_MAX
pub struct FrameStub { }
pub struct FiberView { pub frames: Vec<FrameStub> }
pub struct ModMap { pub ghost view: Map<int, Root<RefCell<ObjModule>>> }
impl ModMap {
    #[verifier::external_body]
    fn get(&self, k: &Gc<ObjString>) -> (r: Option<&Root<RefCell<ObjModule>>>)
        ensures self.view.dom().contains(k.id()) ==> (r matches Some(m) && *m == self.view[k.id()]),
            !self.view.dom().contains(k.id()) ==> r is None,
    { unimplemented!() }
    #[verifier::external_body]
    fn insert(&mut self, k: Gc<ObjString>, v: Root<RefCell<ObjModule>>) -> (r: Option<Root<RefCell<ObjModule>>>)
        ensures final(self).view == old(self).view.insert(k.id(), v)
    { unimplemented!() }
    #[verifier::external_body]
    fn remove(&mut self, k: &Gc<ObjString>) -> (r: Option<Root<RefCell<ObjModule>>>)
        ensures final(self).view == old(self).view.remove(k.id())
    { unimplemented!() }
}
// `&path` coerced to &str: the text of an interned string; interning that text again yields the same object (C11)
#[verifier::external_body]
fn gc_str(g: &Gc<ObjString>) -> (r: &str) ensures Vm::intern_id(r@) == g.id() { unimplemented!() }
#[verifier::external_body]
pub struct ClassStore { _p: u8 }
impl ClassStore {
    #[verifier::external_body]
    fn module_class(&self) -> Gc<ObjClass> { unimplemented!() }
}
// `self.modules.get(&path).map(|m| m.as_gc())`: the Gc naming the same cell as the Root
pub uninterp spec fn option_root_ref_as_gc_spec(x: Root<RefCell<ObjModule>>) -> Gc<RefCell<ObjModule>>;
pub broadcast proof fn axiom_as_gc_same_cell(x: Root<RefCell<ObjModule>>)
    ensures #[trigger] option_root_ref_as_gc_spec(x).id() == x.id()
{ admit(); }
#[verifier::external_body]
fn option_root_ref_as_gc(o: Option<&Root<RefCell<ObjModule>>>) -> (r: Option<Gc<RefCell<ObjModule>>>)
    ensures o is None ==> r is None, o matches Some(x) ==> r == Some(option_root_ref_as_gc_spec(*x)),
{ unimplemented!() }

pub struct Vm {
    pub class_store: ClassStore,
    pub active_module: Gc<RefCell<ObjModule>>,
    pub modules: ModMap,
    pub ghost mods: Map<int, ObjModule>,
    pub ghost runs: Map<int, nat>,        // per path-string id: how many times a body for that path has been started
    pub ghost raised: Option<ErrorKind>,
    pub ghost stack: Seq<Value>,
    pub ghost next_path: int,             // the path operand the next read_string() yields
    pub ghost loader_result: Option<ErrorKind>,   // None: the loader finds source text; Some(k): it fails with kind k
    pub ghost compiles: bool,
    pub ghost body_starts: nat,           // closure calls made on behalf of imports
    pub ghost frames_full: bool,          // the active fiber already has FRAMES_MAX call frames (unit calls: call_closure)
    pub ghost seeded: Set<int>,           // module cells whose table has been given the built-ins (init_built_in_globals)
}

impl Vm {
    // every registered module cell has content
    pub open spec fn wf(&self) -> bool {
        forall|k: int| self.modules.view.dom().contains(k) ==> self.mods.dom().contains(#[trigger] self.modules.view[k].id())
    }
    pub open spec fn same_registry(&self, o: &Vm) -> bool { self.modules == o.modules && self.mods == o.mods && self.runs == o.runs && self.body_starts == o.body_starts && self.active_module == o.active_module && self.seeded == o.seeded }
    pub open spec fn same_env(&self, o: &Vm) -> bool { self.next_path == o.next_path && self.loader_result == o.loader_result && self.compiles == o.compiles && self.frames_full == o.frames_full }
    pub open spec fn runs_of(&self, k: int) -> nat { if self.runs.dom().contains(k) { self.runs[k] } else { 0 } }

    // interning (C11): the path string of a module is one object per content
    pub uninterp spec fn intern_id(s: Seq<char>) -> int;
    #[verifier::external_body]
    fn new_gc_obj_string(&mut self, data: &str) -> (r: Gc<ObjString>)
        ensures r.id() == Self::intern_id(data@), old(self).same_registry(final(self)), final(self).stack == old(self).stack, final(self).raised == old(self).raised,
            old(self).same_env(final(self)),
    { unimplemented!() }
    // Root::new(RefCell::new(m)): a fresh cell
    #[verifier::external_body]
    fn alloc_module(&mut self, m: ObjModule) -> (r: Root<RefCell<ObjModule>>)
        ensures !old(self).mods.dom().contains(r.id()), final(self).mods == old(self).mods.insert(r.id(), m),
            final(self).modules == old(self).modules, final(self).runs == old(self).runs, final(self).stack == old(self).stack, final(self).raised == old(self).raised,
            old(self).same_env(final(self)), final(self).body_starts == old(self).body_starts, final(self).seeded == old(self).seeded, final(self).active_module == old(self).active_module,
    { unimplemented!() }
    #[verifier::external_body]
    fn module_content(&self, g: Gc<RefCell<ObjModule>>) -> (r: &ObjModule)
        requires self.mods.dom().contains(g.id())
        ensures *r == self.mods[g.id()]
    { unimplemented!() }
    #[verifier::external_body]
    fn module_content_mut(&mut self, g: Gc<RefCell<ObjModule>>) -> (r: &mut ObjModule)
        requires old(self).mods.dom().contains(g.id())
        ensures *r == old(self).mods[g.id()], final(self).mods == old(self).mods.insert(g.id(), *final(r)), final(self).active_module == old(self).active_module,
            final(self).modules == old(self).modules, final(self).runs == old(self).runs, final(self).stack == old(self).stack, final(self).raised == old(self).raised,
            final(self).body_starts == old(self).body_starts, old(self).same_env(final(self)),
    { unimplemented!() }

    // The registry: one module object per path. A registered path yields the registered object and nothing changes;
    // an unregistered path gets a fresh, not-yet-imported module object registered under it and nothing else changes.
    //@fn file=yarel/src/vm.rs path=Vm::module ret=r
    //@  subst "Root::new(RefCell::new(ObjModule::new( self.class_store.module_class(), path, )))" => "{ let c = self.class_store.module_class(); self.alloc_module(ObjModule::new(c, path)) }"
    //@  requires old(self).wf()
    //@  ensures final(self).wf(), final(self).runs == old(self).runs, final(self).stack == old(self).stack, final(self).raised == old(self).raised, final(self).body_starts == old(self).body_starts, old(self).same_env(final(self)), final(self).seeded == old(self).seeded, final(self).active_module == old(self).active_module
    //@  ensures @every_import_yields_the_same_module_object old(self).modules.view.dom().contains(Vm::intern_id(path@)) ==> r.id() == old(self).modules.view[Vm::intern_id(path@)].id() && final(self).modules == old(self).modules && final(self).mods == old(self).mods
    //@  ensures @new_module_registered_once !old(self).modules.view.dom().contains(Vm::intern_id(path@)) ==> !old(self).mods.dom().contains(r.id()) && final(self).modules.view.dom() == old(self).modules.view.dom().insert(Vm::intern_id(path@)) && final(self).modules.view[Vm::intern_id(path@)].id() == r.id() && final(self).mods[r.id()].imported == false && final(self).mods[r.id()].path.id() == Vm::intern_id(path@) && (forall|k: int| old(self).modules.view.dom().contains(k) ==> final(self).modules.view[k] == old(self).modules.view[k]) && (forall|i: int| old(self).mods.dom().contains(i) ==> final(self).mods.dom().contains(i) && final(self).mods[i] == old(self).mods[i])
    //@end

    // ---- the rest of the VM as far as imports go (assumed contracts)
    // the path operand of the import instruction
    #[verifier::external_body]
    fn read_string(&mut self) -> (r: Gc<ObjString>)
        ensures r.id() == old(self).next_path, old(self).same_registry(final(self)), old(self).same_env(final(self)), final(self).stack == old(self).stack, final(self).raised == old(self).raised
    { unimplemented!() }
    #[verifier::external_body]
    fn push(&mut self, value: Value)
        ensures final(self).stack == old(self).stack.push(value), old(self).same_registry(final(self)), old(self).same_env(final(self)), final(self).raised == old(self).raised
    { unimplemented!() }
    #[verifier::external_body]
    fn pop(&mut self) -> (r: Value)
        requires old(self).stack.len() > 0
        ensures final(self).stack == old(self).stack.drop_last(), r == old(self).stack.last(), old(self).same_registry(final(self)), old(self).same_env(final(self)), final(self).raised == old(self).raised
    { unimplemented!() }
    #[verifier::external_body]
    fn peek(&self, depth: usize) -> (r: Value)
        requires depth < self.stack.len()
        ensures r == self.stack[self.stack.len() - 1 - depth]
    { unimplemented!() }
    // `(self.module_loader)(&path)`: the host's loader finds the source text or reports why not
    #[verifier::external_body]
    fn load_module_source(&mut self, path: &Gc<ObjString>) -> (r: Result<String, Error>)
        ensures old(self).same_registry(final(self)), old(self).same_env(final(self)), final(self).stack == old(self).stack, final(self).raised == old(self).raised,
            old(self).loader_result is None ==> r is Ok, old(self).loader_result matches Some(k) ==> (r matches Err(e) && e.kind == k),
    { unimplemented!() }
    // compiler::compile(self, source, Some(&path)): compiling registers nothing and runs nothing
    #[verifier::external_body]
    fn compile_module(&mut self, source: String, path: &Gc<ObjString>) -> (r: Result<Root<ObjFunction>, Error>)
        ensures old(self).same_registry(final(self)), old(self).same_env(final(self)), final(self).stack == old(self).stack, final(self).raised == old(self).raised,
            r is Ok <==> old(self).compiles,
    { unimplemented!() }
    #[verifier::external_body]
    fn new_root_obj_closure(&mut self, function: Gc<ObjFunction>, module: Gc<RefCell<ObjModule>>) -> (r: Root<ObjClosure>)
        ensures closure_module(r.gc()) == module, old(self).same_registry(final(self)), old(self).same_env(final(self)), final(self).stack == old(self).stack, final(self).raised == old(self).raised
    { unimplemented!() }
    // the active fiber as far as this unit is concerned: how many call frames it has (`frames_full` is that count
    // having reached FRAMES_MAX: unit calls, call_closure)
    #[verifier::external_body]
    fn active_fiber(&self) -> (r: &FiberView)
        ensures (r.frames@.len() >= FRAMES_MAX) == self.frames_full, r.frames@.len() <= FRAMES_MAX
    { unimplemented!() }
    // starting the module body (a closure call); whatever it does later happens in the interpreter loop, not here.
    // Its own contract is calls/Vm::call_closure: with FRAMES_MAX frames already active the call is REFUSED — an
    // IndexError is delivered to the handlers, and if one of them catches it the result is Ok although no body was
    // started and the interpreter's cached view (active module included) is now the HANDLER's frame.
    #[verifier::external_body]
    fn call_value(&mut self, value: Value, arg_count: usize) -> (r: Result<(), Error>)
        ensures final(self).modules == old(self).modules, final(self).mods == old(self).mods, old(self).same_env(final(self)), final(self).seeded == old(self).seeded,
            !old(self).frames_full ==> final(self).body_starts == old(self).body_starts + 1 && final(self).raised == old(self).raised && final(self).stack == old(self).stack,
            old(self).frames_full ==> final(self).body_starts == old(self).body_starts && final(self).raised == Some(ErrorKind::IndexError),
            // calling a closure makes its frame the innermost one and the interpreter's cached view that frame's: the
            // active namespace is the closure's module (units calls / exc: call_closure, load_frame)
            (r is Ok && value is ObjClosure && !old(self).frames_full) ==> final(self).active_module == closure_module(value->ObjClosure_0),
    { unimplemented!() }
    // `self.active_module.borrow().path`
    #[verifier::external_body]
    fn active_module_path(&self) -> (r: Gc<ObjString>)
        requires self.mods.dom().contains(self.active_module.id())
        ensures r == self.mods[self.active_module.id()].path
    { unimplemented!() }
    #[verifier::external_body]
    fn init_built_in_globals(&mut self, module_path: &Gc<ObjString>)
        ensures old(self).modules.view.dom().contains(module_path.id()) ==> final(self).seeded == old(self).seeded.insert(old(self).modules.view[module_path.id()].id()),
            final(self).stack == old(self).stack, final(self).active_module == old(self).active_module, final(self).runs == old(self).runs,
            final(self).modules == old(self).modules, final(self).body_starts == old(self).body_starts, final(self).raised == old(self).raised, old(self).same_env(final(self)),
            forall|i: int| old(self).mods.dom().contains(i) ==> final(self).mods.dom().contains(i) && final(self).mods[i].imported == old(self).mods[i].imported,
    { unimplemented!() }
    // converts the error into an exception object and unwinds to the importing statement's handler (units errors, exc)
    #[verifier::external_body]
    fn try_handle_error(&mut self, error: Error) -> (r: Result<(), Error>)
        ensures old(self).same_registry(final(self)), old(self).same_env(final(self)), final(self).raised == Some(error.kind)
    { unimplemented!() }

    pub open spec fn registered(&self, k: int) -> bool { self.modules.view.dom().contains(k) }
    pub open spec fn content_of(&self, k: int) -> ObjModule { self.mods[self.modules.view[k].id()] }

    // StartImport. Let p be the path operand.
    //@fn file=yarel/src/vm.rs path=Vm::start_import_impl ret=r props=C14,C15
    //@  rewrite R1 R13
    //@  subst "self.modules.get(&path).map(|m| m.as_gc())" => "option_root_ref_as_gc(self.modules.get(&path))"
    //@  subst "module.borrow().imported" => "self.module_content(module).imported"
    //@  subst "(self.module_loader)(&path)" => "self.load_module_source(&path)"
    //@  subst "compiler::compile(self, source, Some(&path))" => "self.compile_module(source, &path)"
    //@  subst "for msg in e.messages() { error.add_message(&verif_format()); }" => ""
    //@  subst "let mut error = verif_error(ErrorKind::ImportError);" => "let error = verif_error(ErrorKind::ImportError);"
    //@  subst "self.active_module.borrow().path" => "self.active_module_path()"
    //@  subst "self.module(&path)" => "self.module(gc_str(&path))"
    //@  requires old(self).wf(), old(self).stack.len() < 0x1000_0000
    //@  at body.start broadcast use axiom_as_gc_same_cell;
    //@  ensures final(self).wf()
    //@  ensures @imported_module_is_not_run_again (old(self).registered(old(self).next_path) && old(self).content_of(old(self).next_path).imported) ==> r is Ok && final(self).body_starts == old(self).body_starts && final(self).modules == old(self).modules && final(self).mods == old(self).mods && final(self).raised == old(self).raised
    //@  ensures @every_import_yields_the_same_module_object (old(self).registered(old(self).next_path) && old(self).content_of(old(self).next_path).imported) ==> final(self).stack.len() == old(self).stack.len() + 2 && final(self).stack[old(self).stack.len() as int] == Value::ObjModule(option_root_ref_as_gc_spec(old(self).modules.view[old(self).next_path])) && final(self).stack[old(self).stack.len() as int + 1] == Value::None
    //@  ensures @module_still_loading_is_import_error (old(self).registered(old(self).next_path) && !old(self).content_of(old(self).next_path).imported) ==> final(self).raised == Some(ErrorKind::ImportError) && final(self).body_starts == old(self).body_starts && final(self).modules == old(self).modules && final(self).mods == old(self).mods
    //@  ensures @module_not_found_is_reported (!old(self).registered(old(self).next_path) && old(self).loader_result is Some) ==> final(self).raised == old(self).loader_result && final(self).body_starts == old(self).body_starts && final(self).modules == old(self).modules && final(self).mods == old(self).mods
    //@  ensures @module_that_fails_to_compile_is_import_error_and_not_registered (!old(self).registered(old(self).next_path) && old(self).loader_result is None && !old(self).compiles) ==> final(self).raised == Some(ErrorKind::ImportError) && final(self).body_starts == old(self).body_starts && final(self).modules == old(self).modules && final(self).mods == old(self).mods
    //@  ensures @first_import_registers_and_starts_the_body_once (!old(self).registered(old(self).next_path) && old(self).loader_result is None && old(self).compiles && !old(self).frames_full) ==> final(self).body_starts == old(self).body_starts + 1 && final(self).registered(old(self).next_path) && !final(self).content_of(old(self).next_path).imported && final(self).raised == old(self).raised
    //@  ensures @an_import_at_the_call_depth_limit_is_a_reported_error_and_runs_nothing (!old(self).registered(old(self).next_path) && old(self).loader_result is None && old(self).compiles && old(self).frames_full) ==> final(self).body_starts == old(self).body_starts && final(self).raised == Some(ErrorKind::IndexError)
    //@  ensures @an_import_gives_the_built_ins_to_the_new_module_and_to_no_other forall|m: int| final(self).seeded.contains(m) ==> old(self).seeded.contains(m) || (!old(self).registered(old(self).next_path) && final(self).registered(old(self).next_path) && m == final(self).modules.view[old(self).next_path].id())
    //@  ensures @a_freshly_imported_module_is_given_the_built_ins_before_its_body_runs (!old(self).registered(old(self).next_path) && old(self).loader_result is None && old(self).compiles && r is Ok) ==> final(self).seeded.contains(final(self).modules.view[old(self).next_path].id())
    //@end

    // FinishImport (emitted after the module body's call returns): the module object below the body's result is
    // marked imported; no other module changes.
    //@fn file=yarel/src/vm.rs path=Vm::finish_import_impl
    //@  subst "module.borrow_mut().imported = true;" => "self.module_content_mut(module).imported = true;"
    //@  requires old(self).stack.len() >= 2
    //@  requires old(self).stack[old(self).stack.len() - 2] matches Value::ObjModule(g) && old(self).mods.dom().contains(g.id())
    //@  ensures old(self).stack[old(self).stack.len() - 2] matches Value::ObjModule(g) && final(self).mods[g.id()].imported && final(self).mods[g.id()].path == old(self).mods[g.id()].path && (forall|i: int| old(self).mods.dom().contains(i) && i != g.id() ==> final(self).mods[i] == old(self).mods[i])
    //@  ensures final(self).modules == old(self).modules, final(self).stack == old(self).stack.drop_last()
    //@end

    // ---- module globals: GetGlobal / DefineGlobal / SetGlobal act on the ACTIVE module's own table and on nothing
    // else ("never leak into or read from the importer's globals"); the name operand is the next string operand.
    pub open spec fn globals_of_active(&self) -> Map<int, Value> { self.mods[self.active_module.id()].attributes.view }
    pub open spec fn other_modules_untouched(&self, o: &Vm) -> bool {
        &&& self.modules == o.modules && self.active_module == o.active_module
        &&& forall|i: int| self.mods.dom().contains(i) && i != self.active_module.id() ==> o.mods.dom().contains(i) && o.mods[i] == self.mods[i]
        &&& o.mods.dom().contains(self.active_module.id()) && o.mods[self.active_module.id()].imported == self.mods[self.active_module.id()].imported
            && o.mods[self.active_module.id()].path == self.mods[self.active_module.id()].path
    }
    //@fn file=yarel/src/vm.rs path=Vm::get_global_impl ret=r
    //@  rewrite R1
    //@  subst "self .active_module .borrow() .attributes .get(&name) .map(|&v| v)" => "self.module_content(self.active_module).attributes.get_copied(&name)"
    //@  requires old(self).mods.dom().contains(old(self).active_module.id())
    //@  ensures final(self).mods == old(self).mods, final(self).modules == old(self).modules, final(self).active_module == old(self).active_module
    //@  ensures @global_read_from_own_module_only old(self).globals_of_active().dom().contains(old(self).next_path) ==> r is Ok && final(self).stack == old(self).stack.push(old(self).globals_of_active()[old(self).next_path]) && final(self).raised == old(self).raised
    //@  ensures @undefined_global_is_a_name_error !old(self).globals_of_active().dom().contains(old(self).next_path) ==> final(self).raised == Some(ErrorKind::NameError)
    //@end
    //@fn file=yarel/src/vm.rs path=Vm::define_global_impl
    //@  subst "self.active_module .borrow_mut() .attributes .insert(name, value)" => "self.module_content_mut(self.active_module).attributes.insert(name, value)"
    //@  requires old(self).mods.dom().contains(old(self).active_module.id()), old(self).stack.len() > 0
    //@  ensures @global_defined_in_own_module_only final(self).globals_of_active() == old(self).globals_of_active().insert(old(self).next_path, old(self).stack.last()) && old(self).other_modules_untouched(final(self))
    //@  ensures final(self).stack == old(self).stack.drop_last()
    //@end
    //@fn file=yarel/src/vm.rs path=Vm::set_global_impl ret=r
    //@  rewrite R1
    //@  subst "&mut self.active_module.borrow_mut().attributes" => "&mut self.module_content_mut(self.active_module).attributes"
    //@  requires old(self).mods.dom().contains(old(self).active_module.id()), old(self).stack.len() > 0
    //@  ensures @global_written_in_own_module_only old(self).other_modules_untouched(final(self))
    //@  ensures old(self).globals_of_active().dom().contains(old(self).next_path) ==> r is Ok && final(self).globals_of_active() == old(self).globals_of_active().insert(old(self).next_path, old(self).stack.last()) && final(self).raised == old(self).raised && final(self).stack == old(self).stack
    //@  ensures @assignment_to_undefined_global_is_a_name_error !old(self).globals_of_active().dom().contains(old(self).next_path) ==> final(self).globals_of_active() =~= old(self).globals_of_active() && final(self).raised == Some(ErrorKind::NameError)
    //@end
}

} // verus!
fn main() {}
