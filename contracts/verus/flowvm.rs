//@unit flowvm
//@property C05
// Run-time side of control transfer (yarel/src/vm.rs Vm::jump_impl, jump_if_false_impl, loop_impl; value.rs
// Value::into_bool): where a jump instruction continues, as a function of its two operand bytes — the decoding the
// compiler's encoding (unit `compiler`, C04: "decoded operand == distance") is the inverse of — and that a conditional
// jump tests the value on top of the stack WITHOUT removing it (short-circuit `and`/`or` leave the deciding operand as
// the result; `if`/`while` pop it on both paths, unit `flowc`).
use vstd::prelude::*;
verus! {

global size_of usize == 8;

#[verifier::external_body]
#[verifier::accept_recursive_types(T)]
pub struct Gc<T> { p: core::marker::PhantomData<T> }
impl<T> Clone for Gc<T> { #[verifier::external_body] fn clone(&self) -> (r: Self) ensures r == *self { Gc { p: core::marker::PhantomData } } }
impl<T> Copy for Gc<T> {}

//@enum file=yarel/src/value.rs name=Value keep=Boolean,None other=Other
impl Value {
    // truthiness: false and nil are falsey, everything else is truthy
    //@fn file=yarel/src/value.rs path=Value::into_bool ret=r
    //@  ensures r == !(*self == Value::Boolean(false) || *self is None)
    //@end
}

// the reader's view of two operand bytes (vm.rs read_short: u16::from_ne_bytes; the compiler writes with to_ne_bytes —
// the same uninterpreted decoding as `u16_of` in unit `compiler`)
pub uninterp spec fn u16_of(b0: u8, b1: u8) -> int;
// code addresses are modelled by offsets into the code
#[verifier::external_body]
fn ip_offset(ip: usize, n: u16) -> (r: usize) requires ip + n <= usize::MAX ensures r == ip + n { unimplemented!() }
#[verifier::external_body]
fn ip_offset_back(ip: usize, n: u16) -> (r: usize) requires n <= ip ensures r == ip - n { unimplemented!() }

pub struct Vm { pub ip: usize, pub ghost code: Seq<u8>, pub ghost stack: Seq<Value> }

impl Vm {
    #[verifier::external_body]
    fn read_short(&mut self) -> (r: u16)
        requires old(self).ip + 2 <= old(self).code.len()
        ensures final(self).ip == old(self).ip + 2, final(self).code == old(self).code, final(self).stack == old(self).stack,
            r as int == u16_of(old(self).code[old(self).ip as int], old(self).code[old(self).ip as int + 1]),
    { unimplemented!() }
    #[verifier::external_body]
    fn peek(&self, depth: usize) -> (r: Value) requires depth < self.stack.len() ensures r == self.stack[self.stack.len() - 1 - depth] { unimplemented!() }

    pub open spec fn operand(&self) -> int { u16_of(self.code[self.ip as int], self.code[self.ip as int + 1]) }

    //@fn file=yarel/src/vm.rs path=Vm::jump_impl
    //@  rewrite R20
    //@  requires old(self).ip + 2 <= old(self).code.len(), old(self).code.len() < 0x4000_0000_0000_0000
    //@  ensures @jump_continues_operand_bytes_behind_its_operand final(self).ip == old(self).ip + 2 + old(self).operand(), final(self).stack == old(self).stack
    //@end
    //@fn file=yarel/src/vm.rs path=Vm::jump_if_false_impl
    //@  rewrite R20
    //@  requires old(self).ip + 2 <= old(self).code.len(), old(self).code.len() < 0x4000_0000_0000_0000, old(self).stack.len() > 0
    //@  ensures @conditional_jump_keeps_the_tested_value final(self).stack == old(self).stack
    //@  ensures @falsey_top_takes_the_jump (old(self).stack.last() == Value::Boolean(false) || old(self).stack.last() is None) ==> final(self).ip == old(self).ip + 2 + old(self).operand()
    //@  ensures @truthy_top_falls_through !(old(self).stack.last() == Value::Boolean(false) || old(self).stack.last() is None) ==> final(self).ip == old(self).ip + 2
    //@end
    //@fn file=yarel/src/vm.rs path=Vm::loop_impl
    //@  rewrite R20
    //@  requires old(self).ip + 2 <= old(self).code.len(), old(self).operand() <= old(self).ip + 2
    //@  ensures @loop_continues_operand_bytes_before_the_end_of_its_operand final(self).ip == old(self).ip + 2 - old(self).operand(), final(self).stack == old(self).stack
    //@end
}

// Composition with the compiler's contracts (unit compiler, C04): patch_jump writes an operand whose decoding is
// `target − (operand position + 2)`, emit_loop one whose decoding is `(operand position + 2) − loop_start`; the VM
// continues at operand position + 2 ± decoding — i.e. exactly at the target.
pub proof fn lemma_c05_jump_lands_on_target(operand_pos: int, target: int, decoded: int, loop_start: int, back: int)
    requires decoded == target - operand_pos - 2, operand_pos + 3 - 1 - back == loop_start
    ensures operand_pos + 2 + decoded == target, operand_pos + 2 - back == loop_start
{}

} // verus!
fn main() {}
