//@unit flowvm
//@property C05
// Run-time side of control transfer (yarel/src/vm.rs Vm::jump_impl, jump_if_false_impl, loop_impl; value.rs
// Value::into_bool): where a jump instruction continues, as a function of its two operand bytes — the decoding the
// compiler's encoding (unit `compiler`, C04: "decoded operand == distance") is the inverse of — and that a conditional
// jump tests the value on top of the stack WITHOUT removing it (short-circuit `and`/`or` leave the deciding operand as
// the result; `if`/`while` pop it on both paths, unit `flowc`).
use vstd::prelude::*;
verus! {

global size_of usize == 8;

#[verifier::external_body]
#[verifier::accept_recursive_types(T)]
pub struct Gc<T> { p: core::marker::PhantomData<T> }
impl<T> Clone for Gc<T> { #[verifier::external_body] fn clone(&self) -> (r: Self) ensures r == *self { Gc { p: core::marker::PhantomData } } }
impl<T> Copy for Gc<T> {}

impl<T> Gc<T> { pub uninterp spec fn id(&self) -> int; pub uninterp spec fn obj(&self) -> T; }
#[verifier::external_body]
fn gc_eq<T>(a: Gc<T>, b: Gc<T>) -> (r: bool) ensures r == (a.id() == b.id()) { unimplemented!() }
pub struct RefCell<T> { pub v: T }
impl<T> RefCell<T> { #[verifier::external_body] pub fn borrow(&self) -> (r: &T) ensures *r == self.v { &self.v } }
impl<T> std::ops::Deref for Gc<T> { type Target = T; #[verifier::external_body] fn deref(&self) -> (r: &T) ensures *r == self.obj() { unimplemented!() } }
pub struct ObjClass { }
pub struct ObjInstance { pub class: Gc<ObjClass> }
//@enum file=yarel/src/value.rs name=Value keep=Boolean,ObjInstance,None other=Other
impl Value {
    //@fn file=yarel/src/value.rs path=Value::try_as_obj_instance ret=r
    //@  ensures r == (match *self { Value::ObjInstance(i) => Some(i), _ => None })
    //@end
    // truthiness: false and nil are falsey, everything else is truthy
    //@fn file=yarel/src/value.rs path=Value::into_bool ret=r
    //@  ensures r == !(*self == Value::Boolean(false) || *self is None)
    //@end
}

// the reader's view of two operand bytes (vm.rs read_short: u16::from_ne_bytes; the compiler writes with to_ne_bytes —
// the same uninterpreted decoding as `u16_of` in unit `compiler`)
pub uninterp spec fn u16_of(b0: u8, b1: u8) -> int;
// code addresses are modelled by offsets into the code
#[verifier::external_body]
fn ip_offset(ip: usize, n: usize) -> (r: usize) requires ip + n <= usize::MAX ensures r == ip + n { unimplemented!() }
#[verifier::external_body]
fn ip_offset_back(ip: usize, n: usize) -> (r: usize) requires n <= ip ensures r == ip - n { unimplemented!() }

// the core class store as far as the iteration protocol is concerned: the class whose instances end an iteration
pub struct ClassStore { pub ghost stop_iter: int }
impl ClassStore {
    #[verifier::external_body] fn stop_iter_class(&self) -> (r: Gc<ObjClass>) ensures r.id() == self.stop_iter { unimplemented!() }
}
pub struct Vm { pub ip: usize, pub ghost code: Seq<u8>, pub ghost stack: Seq<Value>, pub class_store: ClassStore }
pub open spec fn is_stop_iter(v: Value, stop: int) -> bool { v matches Value::ObjInstance(i) && i.obj().v.class.id() == stop }

impl Vm {
    #[verifier::external_body]
    fn read_short(&mut self) -> (r: u16)
        requires old(self).ip + 2 <= old(self).code.len()
        ensures final(self).ip == old(self).ip + 2, final(self).code == old(self).code, final(self).stack == old(self).stack, final(self).class_store == old(self).class_store,
            r as int == u16_of(old(self).code[old(self).ip as int], old(self).code[old(self).ip as int + 1]),
    { unimplemented!() }
    #[verifier::external_body]
    fn peek(&self, depth: usize) -> (r: Value) requires depth < self.stack.len() ensures r == self.stack[self.stack.len() - 1 - depth] { unimplemented!() }

    pub open spec fn operand(&self) -> int { u16_of(self.code[self.ip as int], self.code[self.ip as int + 1]) }

    //@fn file=yarel/src/vm.rs path=Vm::jump_impl
    //@  rewrite R20
    //@  requires old(self).ip + 2 <= old(self).code.len(), old(self).code.len() < 0x4000_0000_0000_0000
    //@  ensures @jump_continues_operand_bytes_behind_its_operand final(self).ip == old(self).ip + 2 + old(self).operand(), final(self).stack == old(self).stack
    //@end
    //@fn file=yarel/src/vm.rs path=Vm::jump_if_false_impl
    //@  rewrite R20
    //@  requires old(self).ip + 2 <= old(self).code.len(), old(self).code.len() < 0x4000_0000_0000_0000, old(self).stack.len() > 0
    //@  ensures @conditional_jump_keeps_the_tested_value final(self).stack == old(self).stack
    //@  ensures @falsey_top_takes_the_jump (old(self).stack.last() == Value::Boolean(false) || old(self).stack.last() is None) ==> final(self).ip == old(self).ip + 2 + old(self).operand()
    //@  ensures @truthy_top_falls_through !(old(self).stack.last() == Value::Boolean(false) || old(self).stack.last() is None) ==> final(self).ip == old(self).ip + 2
    //@end
    // JumpIfStopIter (for loops): leaves the loop iff the value `next()` returned is an instance of exactly the StopIter
    // class; the value stays on the stack (both paths pop it: unit flowc)
    //@fn file=yarel/src/vm.rs path=Vm::jump_if_stop_iter props=C05,C18
    //@  rewrite R20
    //@  subst "instance.borrow().class == stop_iter_class" => "gc_eq(instance.borrow().class, stop_iter_class)"
    //@  requires old(self).ip + 2 <= old(self).code.len(), old(self).code.len() < 0x4000_0000_0000_0000, old(self).stack.len() > 0
    //@  ensures final(self).stack == old(self).stack
    //@  ensures @an_exhausted_iterator_takes_the_exit_jump is_stop_iter(old(self).stack.last(), old(self).class_store.stop_iter) ==> final(self).ip == old(self).ip + 2 + old(self).operand()
    //@  ensures @any_other_value_is_an_element !is_stop_iter(old(self).stack.last(), old(self).class_store.stop_iter) ==> final(self).ip == old(self).ip + 2
    //@end
    //@fn file=yarel/src/vm.rs path=Vm::loop_impl
    //@  rewrite R20
    //@  requires old(self).ip + 2 <= old(self).code.len(), old(self).operand() <= old(self).ip + 2
    //@  ensures @loop_continues_operand_bytes_before_the_end_of_its_operand final(self).ip == old(self).ip + 2 - old(self).operand(), final(self).stack == old(self).stack
    //@end
}

// Composition with the compiler's contracts (unit compiler, C04): patch_jump writes an operand whose decoding is
// `target − (operand position + 2)`, emit_loop one whose decoding is `(operand position + 2) − loop_start`; the VM
// continues at operand position + 2 ± decoding — i.e. exactly at the target.
pub proof fn lemma_c05_jump_lands_on_target(operand_pos: int, target: int, decoded: int, loop_start: int, back: int)
    requires decoded == target - operand_pos - 2, operand_pos + 3 - 1 - back == loop_start
    ensures operand_pos + 2 + decoded == target, operand_pos + 2 - back == loop_start
{}

} // verus!
fn main() {}
