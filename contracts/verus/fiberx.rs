//@unit fiberx
//@property C09
// Fiber switching (yarel/src/vm.rs Vm::load_fiber = `fiber.call(..)`, Vm::unload_fiber = `Fiber.yield(..)` / end of a
// fiber body): which fiber becomes active, what lands on whose stack, who is whose caller, and that a rejected switch
// leaves the fibers as they were.
//
// Fibers live in heap cells `Gc<RefCell<ObjFiber>>`; `heap` (ghost) maps a cell to its content, the VM's handle
// `fiber` names the active one. `fiber.borrow()` / active_fiber() / active_fiber_mut() read and write `heap` (stubs by
// contract; handle coherence between the checked and the unchecked accessor is the subject of unit `fiber`, C10).
use vstd::prelude::*;
use std::ops::Deref;
verus! {

global size_of usize == 8;

// ------------------------------------------------------------------ environment stand-ins (assumed)
#[verifier::external_body]
#[verifier::accept_recursive_types(T)]
pub struct Gc<T> { p: core::marker::PhantomData<T> }
impl<T> Clone for Gc<T> { #[verifier::external_body] fn clone(&self) -> (r: Self) ensures r == *self { Gc { p: core::marker::PhantomData } } }
impl<T> Copy for Gc<T> {}
impl<T> Gc<T> {
    pub uninterp spec fn id(&self) -> int;
    pub uninterp spec fn obj(&self) -> T;
    #[verifier::external_body]
    pub fn as_root(&self) -> (r: Root<T>) ensures r.id() == self.id() { unimplemented!() }
}
impl<T> Deref for Gc<T> {
    type Target = T;
    #[verifier::external_body]
    fn deref(&self) -> (r: &T) ensures *r == self.obj() { unimplemented!() }
}
#[verifier::external_body]
#[verifier::accept_recursive_types(T)]
pub struct Root<T> { p: core::marker::PhantomData<T> }
impl<T> Root<T> {
    pub uninterp spec fn id(&self) -> int;
}
pub struct RefCell<T> { pub v: T }
pub struct FiberPtr { pub ghost cell: int }
#[verifier::external_body]
fn gc_cell_ptr<T>(g: &Gc<RefCell<T>>) -> (r: FiberPtr) ensures r.cell == g.id() { unimplemented!() }
// identity of cells: a Gc made from a Root (and back) names the same cell, and a cell has one name
#[verifier::external_body]
fn option_root_as_gc(o: Option<Root<RefCell<ObjFiber>>>) -> (r: Option<Gc<RefCell<ObjFiber>>>)
    ensures o is None ==> r is None, o matches Some(x) ==> (r matches Some(g) && g.id() == x.id()),
{ unimplemented!() }

pub assume_specification<T> [std::option::Option::<T>::replace] (o: &mut std::option::Option<T>, v: T) -> (r: std::option::Option<T>)
    ensures r == *old(o), *final(o) == Some(v);

#[verifier::external_body]
pub struct Value { _p: u8 }
impl Clone for Value { #[verifier::external_body] fn clone(&self) -> (r: Self) ensures r == *self { Value { _p: 0 } } }
impl Copy for Value {}
impl Value {
    #[verifier::external_body]
    fn none_value() -> Value { unimplemented!() }
    pub uninterp spec fn nil() -> Value;                       // Value::None, the language's nil (Value::default())
    pub uninterp spec fn closure(g: Gc<ObjClosure>) -> Value;
    pub uninterp spec fn as_fiber(&self) -> Option<Gc<RefCell<ObjFiber>>>;
    #[verifier::external_body]
    fn try_as_obj_fiber(&self) -> (r: Option<Gc<RefCell<ObjFiber>>>) ensures r == self.as_fiber() { unimplemented!() }
    #[verifier::external_body] #[allow(non_snake_case)]
    fn ObjClosure(g: Gc<ObjClosure>) -> (r: Value) ensures r == Value::closure(g) { unimplemented!() }
}
#[verifier::external_body]
fn value_unwrap_or_default(o: Option<Value>) -> (r: Value)
    ensures o matches Some(v) ==> r == v, o is None ==> r == Value::nil(),
{ unimplemented!() }
pub struct Chunk { }
pub struct ObjModule { }
pub struct ObjFunction { pub chunk: Gc<Chunk> }
// a closure knows the function it runs and the module whose globals that function sees
pub struct ObjClosure { pub function: Gc<ObjFunction>, pub module: Gc<RefCell<ObjModule>> }
//@enum file=yarel/src/error.rs name=ErrorKind
pub struct Error { pub kind: ErrorKind }
#[verifier::external_body]
fn verif_error(kind: ErrorKind) -> (e: Error) ensures e.kind == kind { Error { kind } }

//@const file=yarel/src/common.rs name=FRAMES_MAX
//@const file=yarel/src/common.rs name=LOCALS_MAX
//@const file=yarel/src/object.rs name=STACK_MAX
// the value stack (stack.rs by contract; proved for both build configurations by the Kani unit `stack`)
pub struct StackS { pub ghost view: Seq<Value> }
impl StackS {
    // stack.rs truncate (Kani unit `stack`): keeps the first `len` slots
    #[verifier::external_body]
    fn truncate(&mut self, len: usize) requires len <= old(self).view.len() ensures final(self).view == old(self).view.take(len as int) { unimplemented!() }
    #[verifier::external_body]
    fn clear(&mut self) ensures final(self).view.len() == 0 { unimplemented!() }
}

//@struct file=yarel/src/object.rs name=CallFrame map "*const u8" => "usize"
//@struct file=yarel/src/object.rs name=ObjFiber keepfields=caller,stack,frames,handling_exception,call_arity,return_ip,return_frame_count,pending_frame_count,pending_exception,error_ip map "Stack<Value, STACK_MAX>" => "StackS" map "*const u8" => "usize" addfield "pub ghost cells_closed: Seq<int>"
impl ObjFiber {
    //@fn file=yarel/src/object.rs path=ObjFiber::has_finished ret=r
    //@  ensures r == (self.frames@.len() == 0)
    //@end
    // object.rs is_new: exactly the initial frame, and its ip still at the first instruction of the body
    pub uninterp spec fn at_start(frames: Seq<CallFrame>) -> bool;
    pub open spec fn new_fiber(&self) -> bool { self.frames@.len() == 1 && Self::at_start(self.frames@) }
    #[verifier::external_body]
    fn is_new(&self) -> (r: bool) ensures r == self.new_fiber() { unimplemented!() }
    // object.rs close_upvalues_for_frame: closes the captured variables of the innermost frame (unit upvalues); frames,
    // value stack, caller link are not touched. `cells_closed` (ghost) logs the slot from which cells were closed
    #[verifier::external_body]
    fn close_upvalues_for_frame(&mut self)
        requires old(self).frames@.len() > 0
        ensures final(self).cells_closed == old(self).cells_closed.push(old(self).frames@.last().slot_base as int),
            final(self).caller == old(self).caller, final(self).stack == old(self).stack, final(self).frames == old(self).frames, final(self).handling_exception == old(self).handling_exception, final(self).call_arity == old(self).call_arity,
            final(self).return_ip == old(self).return_ip, final(self).return_frame_count == old(self).return_frame_count, final(self).pending_frame_count == old(self).pending_frame_count, final(self).pending_exception == old(self).pending_exception, final(self).error_ip == old(self).error_ip
    { unimplemented!() }
    // object.rs take_return_data (its own contract: unit exc): forgets the parked return
    #[verifier::external_body]
    fn take_return_data(&mut self) -> (r: Option<(Value, usize)>)
        ensures final(self).return_ip is None, final(self).cells_closed == old(self).cells_closed, final(self).caller == old(self).caller, final(self).stack == old(self).stack, final(self).frames == old(self).frames, final(self).handling_exception == old(self).handling_exception, final(self).call_arity == old(self).call_arity, final(self).return_frame_count == old(self).return_frame_count
    { unimplemented!() }
    #[verifier::external_body]
    fn current_frame(&self) -> (r: Option<&CallFrame>) ensures self.frames@.len() > 0 ==> (r matches Some(f) && *f == self.frames@.last()), self.frames@.len() == 0 ==> r is None { unimplemented!() }
    #[verifier::external_body]
    fn current_frame_mut(&mut self) -> (r: Option<&mut CallFrame>)
        requires old(self).frames@.len() > 0
        ensures r matches Some(f) && *f == old(self).frames@.last() && final(self).frames@ == old(self).frames@.drop_last().push(*final(f)),
            final(self).stack == old(self).stack, final(self).caller == old(self).caller, final(self).handling_exception == old(self).handling_exception, final(self).call_arity == old(self).call_arity,
            final(self).return_ip == old(self).return_ip, final(self).return_frame_count == old(self).return_frame_count, final(self).cells_closed == old(self).cells_closed,
    { unimplemented!() }
}

// the VM as far as this unit is concerned
pub struct Vm {
    pub handling_exception: bool,
    pub ip: usize,
    pub fiber: Option<Root<RefCell<ObjFiber>>>,
    pub unsafe_fiber: FiberPtr,
    pub active_chunk: Gc<Chunk>,
    pub active_module: Gc<RefCell<ObjModule>>,
    pub ghost heap: Map<int, ObjFiber>,
}

impl Vm {
    pub open spec fn active_id(&self) -> int { self.fiber->0.id() }
    pub open spec fn active(&self) -> ObjFiber { self.heap[self.active_id()] }
    pub open spec fn wf(&self) -> bool { self.fiber is Some ==> self.heap.dom().contains(self.active_id()) }
    pub open spec fn handles_same(&self, o: &Vm) -> bool { self.fiber == o.fiber && self.unsafe_fiber == o.unsafe_fiber && self.ip == o.ip && self.handling_exception == o.handling_exception && self.active_chunk == o.active_chunk && self.active_module == o.active_module }
    // the VM's cached view — instruction pointer, code and MODULE (whose globals GetGlobal / DefineGlobal / SetGlobal
    // touch: unit modules) — is that of the innermost frame of the active fiber
    pub open spec fn view_ok(&self) -> bool {
        let f = self.active().frames@.last();
        self.ip == f.ip && self.active_chunk == f.closure.obj().function.obj().chunk && self.active_module == f.closure.obj().module
    }

    // `g.borrow()` on a fiber cell
    #[verifier::external_body]
    fn fiber_content(&self, g: Gc<RefCell<ObjFiber>>) -> (r: &ObjFiber)
        requires self.heap.dom().contains(g.id())
        ensures *r == self.heap[g.id()]
    { unimplemented!() }
    #[verifier::external_body]
    fn active_fiber(&self) -> (r: &ObjFiber)
        requires self.fiber is Some, self.heap.dom().contains(self.active_id())
        ensures *r == self.active()
    { unimplemented!() }
    #[verifier::external_body]
    fn active_fiber_mut(&mut self) -> (r: &mut ObjFiber)
        requires old(self).fiber is Some, old(self).heap.dom().contains(old(self).active_id())
        ensures *r == old(self).active(), final(self).heap == old(self).heap.insert(old(self).active_id(), *final(r)), old(self).handles_same(final(self)),
            forall|i: int| #![trigger old(self).heap.dom().contains(i)] old(self).heap.dom().contains(i) && i != old(self).active_id() ==> final(self).heap.dom().contains(i) && final(self).heap[i] == old(self).heap[i],
    { unimplemented!() }
    // `current.as_mut().unwrap().borrow_mut().caller = None` on the fiber that is being left
    #[verifier::external_body]
    fn clear_caller(&mut self, current: Option<Root<RefCell<ObjFiber>>>)
        requires current matches Some(c) && old(self).heap.dom().contains(c.id())
        ensures old(self).handles_same(final(self)),
            final(self).heap == old(self).heap.insert(current->0.id(), ObjFiber { caller: None, stack: old(self).heap[current->0.id()].stack, frames: old(self).heap[current->0.id()].frames, handling_exception: old(self).heap[current->0.id()].handling_exception, call_arity: old(self).heap[current->0.id()].call_arity, return_ip: old(self).heap[current->0.id()].return_ip, return_frame_count: old(self).heap[current->0.id()].return_frame_count, pending_frame_count: old(self).heap[current->0.id()].pending_frame_count, pending_exception: old(self).heap[current->0.id()].pending_exception, error_ip: old(self).heap[current->0.id()].error_ip, cells_closed: old(self).heap[current->0.id()].cells_closed }),
    { unimplemented!() }

    // operand-stack helpers of the ACTIVE fiber (vm.rs push/pop/poke: proved against Stack's contract in unit `exc`)
    #[verifier::external_body]
    fn pop(&mut self) -> (r: Value)
        requires old(self).fiber is Some, old(self).heap.dom().contains(old(self).active_id()), old(self).active().stack.view.len() > 0
        ensures old(self).handles_same(final(self)), r == old(self).active().stack.view.last(),
            final(self).heap == old(self).heap.insert(old(self).active_id(), ObjFiber { caller: old(self).active().caller, stack: StackS { view: old(self).active().stack.view.drop_last() }, frames: old(self).active().frames, handling_exception: old(self).active().handling_exception, call_arity: old(self).active().call_arity, return_ip: old(self).active().return_ip, return_frame_count: old(self).active().return_frame_count, pending_frame_count: old(self).active().pending_frame_count, pending_exception: old(self).active().pending_exception, error_ip: old(self).active().error_ip, cells_closed: old(self).active().cells_closed }),
            forall|i: int| #![trigger old(self).heap.dom().contains(i)] old(self).heap.dom().contains(i) && i != old(self).active_id() ==> final(self).heap.dom().contains(i) && final(self).heap[i] == old(self).heap[i],
    { unimplemented!() }
    #[verifier::external_body]
    fn push(&mut self, value: Value)
        requires old(self).fiber is Some, old(self).heap.dom().contains(old(self).active_id()), old(self).active().stack.view.len() < STACK_MAX
        ensures old(self).handles_same(final(self)),
            final(self).heap == old(self).heap.insert(old(self).active_id(), ObjFiber { caller: old(self).active().caller, stack: StackS { view: old(self).active().stack.view.push(value) }, frames: old(self).active().frames, handling_exception: old(self).active().handling_exception, call_arity: old(self).active().call_arity, return_ip: old(self).active().return_ip, return_frame_count: old(self).active().return_frame_count, pending_frame_count: old(self).active().pending_frame_count, pending_exception: old(self).active().pending_exception, error_ip: old(self).active().error_ip, cells_closed: old(self).active().cells_closed }),
            forall|i: int| #![trigger old(self).heap.dom().contains(i)] old(self).heap.dom().contains(i) && i != old(self).active_id() ==> final(self).heap.dom().contains(i) && final(self).heap[i] == old(self).heap[i],
    { unimplemented!() }
    #[verifier::external_body]
    fn poke(&mut self, depth: usize, value: Value)
        requires old(self).fiber is Some, old(self).heap.dom().contains(old(self).active_id()), depth < old(self).active().stack.view.len()
        ensures old(self).handles_same(final(self)),
            final(self).heap == old(self).heap.insert(old(self).active_id(), ObjFiber { caller: old(self).active().caller, stack: StackS { view: old(self).active().stack.view.update(old(self).active().stack.view.len() - 1 - depth, value) }, frames: old(self).active().frames, handling_exception: old(self).active().handling_exception, call_arity: old(self).active().call_arity, return_ip: old(self).active().return_ip, return_frame_count: old(self).active().return_frame_count, pending_frame_count: old(self).active().pending_frame_count, pending_exception: old(self).active().pending_exception, error_ip: old(self).active().error_ip, cells_closed: old(self).active().cells_closed }),
            forall|i: int| #![trigger old(self).heap.dom().contains(i)] old(self).heap.dom().contains(i) && i != old(self).active_id() ==> final(self).heap.dom().contains(i) && final(self).heap[i] == old(self).heap[i],
    { unimplemented!() }
    // ip, active chunk and active module := those of the active fiber's current frame (its own contract: unit exc)
    #[verifier::external_body]
    fn load_frame(&mut self)
        requires old(self).fiber is Some, old(self).heap.dom().contains(old(self).active_id()), old(self).active().frames@.len() > 0
        ensures final(self).fiber == old(self).fiber, final(self).unsafe_fiber == old(self).unsafe_fiber, final(self).heap == old(self).heap,
            final(self).ip == old(self).active().frames@.last().ip, final(self).handling_exception == old(self).handling_exception, final(self).view_ok(),
    { unimplemented!() }

    // `f.call(arg)`. Rejected (finished fiber, or one that is already running / waiting for a callee): an error and
    // nothing changes. Otherwise f becomes the active fiber with the previous one as its caller; the argument leaves
    // the caller's stack; in a NEW fiber the closure and the argument become the body's frame slots, in a SUSPENDED
    // fiber the argument — nil if omitted — replaces the top slot, i.e. becomes the value of the pending yield
    // expression; the caller remembers where to continue; every other fiber is untouched.
    //@fn file=yarel/src/vm.rs path=Vm::load_fiber ret=r props=C09,C08
    //@  rewrite R1
    //@  subst "fiber.borrow()" => "self.fiber_content(fiber)"
    //@  subst "(*fiber).as_ptr()" => "gc_cell_ptr(&fiber)"
    //@  subst "caller.map(|p| p.as_gc())" => "option_root_as_gc(caller)"
    //@  subst "arg.unwrap_or_default()" => "value_unwrap_or_default(arg)"
    //@  requires old(self).wf(), old(self).heap.dom().contains(fiber.id())
    //@  requires old(self).fiber is Some ==> old(self).active_id() != fiber.id() || old(self).heap[fiber.id()].caller is Some || old(self).heap[fiber.id()].frames@.len() == 0
    //@  requires old(self).fiber is Some && arg is Some ==> old(self).active().stack.view.len() > 0
    //@  requires old(self).fiber is Some ==> old(self).active().frames@.len() > 0
    //@  requires old(self).heap[fiber.id()].stack.view.len() + 2 <= STACK_MAX, !old(self).heap[fiber.id()].new_fiber() ==> old(self).heap[fiber.id()].stack.view.len() > 0
    //@  ensures @switching_to_a_fiber_closes_no_captured_variable forall|i: int| #![trigger old(self).heap.dom().contains(i)] old(self).heap.dom().contains(i) ==> final(self).heap.dom().contains(i) && final(self).heap[i].cells_closed == old(self).heap[i].cells_closed
    //@  ensures @the_fiber_that_is_entered_runs_its_own_code_in_its_own_module r is Ok ==> final(self).view_ok()
    //@  ensures @rejected_call_changes_nothing r is Err ==> final(self).heap == old(self).heap && old(self).handles_same(final(self))
    //@  ensures @rejected_iff_finished_or_running (r is Err) <==> (old(self).heap[fiber.id()].frames@.len() == 0 || old(self).heap[fiber.id()].caller is Some)
    //@  ensures r matches Err(e) ==> e.kind is RuntimeError
    //@  ensures @callee_becomes_active r is Ok ==> (final(self).fiber matches Some(x) && x.id() == fiber.id()) && final(self).unsafe_fiber.cell == fiber.id() && final(self).heap.dom().contains(fiber.id())
    //@  ensures @caller_link r is Ok ==> (old(self).fiber is None ==> final(self).heap[fiber.id()].caller is None) && (old(self).fiber matches Some(c) ==> (final(self).heap[fiber.id()].caller matches Some(g) && g.id() == c.id()))
    //@  ensures @argument_becomes_pending_yield_value (r is Ok && old(self).heap[fiber.id()].stack.view.len() > 0 && final(self).heap[fiber.id()].stack.view.len() == old(self).heap[fiber.id()].stack.view.len()) ==> final(self).heap[fiber.id()].stack.view == old(self).heap[fiber.id()].stack.view.update(old(self).heap[fiber.id()].stack.view.len() - 1, if arg is Some { arg->0 } else { Value::nil() })
    //@  ensures @new_fiber_gets_closure_and_argument (r is Ok && final(self).heap[fiber.id()].stack.view.len() != old(self).heap[fiber.id()].stack.view.len()) ==> old(self).heap[fiber.id()].frames@.len() == 1 && final(self).heap[fiber.id()].stack.view == (if arg is Some { old(self).heap[fiber.id()].stack.view.push(Value::closure(old(self).heap[fiber.id()].frames@[0].closure)).push(arg->0) } else { old(self).heap[fiber.id()].stack.view.push(Value::closure(old(self).heap[fiber.id()].frames@[0].closure)) })
    //@  ensures r is Ok ==> final(self).wf() && final(self).heap[fiber.id()].stack.view.len() > 0
    //@  ensures @callee_frames_kept r is Ok ==> final(self).heap[fiber.id()].frames == old(self).heap[fiber.id()].frames && final(self).ip == old(self).heap[fiber.id()].frames@.last().ip
    //@  ensures @caller_suspended_after_argument_removed (r is Ok && old(self).fiber is Some) ==> final(self).heap[old(self).active_id()].stack.view == (if arg is Some { old(self).active().stack.view.drop_last() } else { old(self).active().stack.view }) && final(self).heap[old(self).active_id()].frames@.last().ip == old(self).ip && final(self).heap[old(self).active_id()].frames@.drop_last() == old(self).active().frames@.drop_last() && final(self).heap[old(self).active_id()].caller == old(self).active().caller
    //@  ensures @other_fibers_untouched forall|i: int| old(self).heap.dom().contains(i) && i != fiber.id() && !(old(self).fiber is Some && i == old(self).active_id()) ==> final(self).heap.dom().contains(i) && final(self).heap[i] == old(self).heap[i]
    //@  ensures @exception_in_flight_stays_with_its_fiber r is Ok ==> final(self).handling_exception == old(self).heap[fiber.id()].handling_exception && (old(self).fiber is Some ==> final(self).heap[old(self).active_id()].handling_exception == old(self).handling_exception)
    //@end

    // `Fiber.yield(arg)` / end of a fiber body (arg None, frames empty). Outside any fiber (no caller): an error.
    // Otherwise the caller becomes active again, the argument — nil if omitted — replaces the top slot of the
    // CALLER's stack (the result of its `call`), the yielding fiber remembers where to continue and forgets its caller.
    //@fn file=yarel/src/vm.rs path=Vm::unload_fiber ret=r props=C09,C16,C08
    //@  rewrite R1
    //@  subst "(*caller).as_ptr()" => "gc_cell_ptr(&caller)"
    //@  subst "current.as_mut().unwrap().borrow_mut().caller = None;" => "self.clear_caller(current);"
    //@  subst "arg.unwrap_or_default()" => "value_unwrap_or_default(arg)"
    //@  requires old(self).wf(), old(self).fiber is Some
    //@  requires arg is Some ==> old(self).active().stack.view.len() > 0
    //@  requires old(self).active().caller matches Some(c) ==> old(self).heap.dom().contains(c.id()) && c.id() != old(self).active_id() && old(self).heap[c.id()].stack.view.len() > 0 && old(self).heap[c.id()].frames@.len() > 0
    //@  ensures @a_suspended_fiber_keeps_the_cells_of_its_captured_variables_open forall|i: int| #![trigger old(self).heap.dom().contains(i)] old(self).heap.dom().contains(i) ==> final(self).heap.dom().contains(i) && final(self).heap[i].cells_closed == old(self).heap[i].cells_closed
    //@  ensures @the_yielding_fiber_keeps_the_cells_of_its_captured_variables_open final(self).heap.dom().contains(old(self).active_id()) && final(self).heap[old(self).active_id()].cells_closed == old(self).active().cells_closed
    //@  ensures @the_caller_continues_its_own_code_in_its_own_module r is Ok ==> final(self).view_ok()
    //@  ensures @yield_outside_a_fiber_is_an_error (r is Err) <==> (old(self).active().caller is None)
    //@  ensures r matches Err(e) ==> e.kind is RuntimeError
    //@  ensures @rejected_yield_keeps_fibers r is Err ==> final(self).fiber == old(self).fiber && final(self).unsafe_fiber == old(self).unsafe_fiber && final(self).heap.dom() == old(self).heap.dom() && final(self).active().caller == old(self).active().caller && final(self).active().frames@.len() == old(self).active().frames@.len() && (forall|i: int| old(self).heap.dom().contains(i) && i != old(self).active_id() ==> final(self).heap[i] == old(self).heap[i])
    //@  ensures @caller_becomes_active r is Ok ==> (final(self).fiber matches Some(x) && x.id() == old(self).active().caller->0.id()) && final(self).unsafe_fiber.cell == old(self).active().caller->0.id()
    //@  ensures @argument_becomes_result_of_call r is Ok ==> final(self).active().stack.view == old(self).heap[old(self).active().caller->0.id()].stack.view.update(old(self).heap[old(self).active().caller->0.id()].stack.view.len() - 1, if arg is Some { arg->0 } else { Value::nil() })
    //@  ensures r is Ok ==> final(self).wf() && final(self).heap.dom().contains(final(self).active_id()) && final(self).active().stack.view.len() > 0
    //@  ensures @caller_continues_where_it_called r is Ok ==> final(self).active().frames == old(self).heap[old(self).active().caller->0.id()].frames && final(self).ip == final(self).active().frames@.last().ip && final(self).active().caller == old(self).heap[old(self).active().caller->0.id()].caller
    //@  ensures @yielding_fiber_suspended r is Ok ==> final(self).heap[old(self).active_id()].caller is None && final(self).heap[old(self).active_id()].stack.view == (if arg is Some { old(self).active().stack.view.drop_last() } else { old(self).active().stack.view }) && (old(self).active().frames@.len() > 0 ==> final(self).heap[old(self).active_id()].frames@.last().ip == old(self).ip && final(self).heap[old(self).active_id()].frames@.drop_last() == old(self).active().frames@.drop_last()) && (old(self).active().frames@.len() == 0 ==> final(self).heap[old(self).active_id()].frames == old(self).active().frames)
    //@  ensures r is Ok ==> final(self).heap[old(self).active_id()].return_ip == old(self).active().return_ip && final(self).heap[old(self).active_id()].return_frame_count == old(self).active().return_frame_count
    //@  ensures @other_fibers_untouched r is Ok ==> forall|i: int| #![trigger old(self).heap.dom().contains(i)] old(self).heap.dom().contains(i) && i != old(self).active_id() && i != old(self).active().caller->0.id() ==> final(self).heap.dom().contains(i) && final(self).heap[i] == old(self).heap[i]
    //@  ensures @exception_in_flight_stays_with_its_fiber r is Ok ==> final(self).handling_exception == old(self).heap[old(self).active().caller->0.id()].handling_exception && final(self).heap[old(self).active_id()].handling_exception == old(self).handling_exception
    //@end
    #[verifier::external_body]
    fn peek(&self, depth: usize) -> (r: Value)
        requires self.fiber is Some, self.heap.dom().contains(self.active_id()), depth < self.active().stack.view.len()
        ensures r == self.active().stack.view[self.active().stack.view.len() - 1 - depth]
    { unimplemented!() }

    // Return. Inside a fiber: the innermost frame goes, its slots (callee, arguments, locals) are replaced by the
    // result, the caller's frame continues at its saved address. At the END of a fiber body that was called: the
    // calling fiber becomes active again and the body's return value becomes the result of its `call` (the top slot of
    // ITS stack); the finished fiber keeps no frame and no caller. At the end of the outermost fiber the run ends.
    //@fn file=yarel/src/vm.rs path=Vm::return_impl ret=r props=C09,C05,C16
    //@  subst "Value::None" => "Value::none_value()"
    //@  requires old(self).wf(), old(self).fiber is Some, old(self).active().frames@.len() > 0, old(self).active().stack.view.len() > old(self).active().frames@.last().slot_base, old(self).active().stack.view.len() <= STACK_MAX
    //@  requires old(self).active().frames@.len() == 1 && old(self).active().caller is None ==> old(self).active().stack.view.len() >= 2
    //@  requires old(self).active().caller matches Some(c) ==> old(self).heap.dom().contains(c.id()) && c.id() != old(self).active_id() && old(self).heap[c.id()].stack.view.len() > 0 && old(self).heap[c.id()].frames@.len() > 0
    //@  ensures @a_call_is_replaced_by_its_result old(self).active().frames@.len() > 1 ==> r == Ok::<Option<Value>, Error>(None) && final(self).fiber == old(self).fiber && final(self).active().stack.view == old(self).active().stack.view.take(old(self).active().frames@.last().slot_base as int).push(old(self).active().stack.view.last()) && final(self).active().frames@ == old(self).active().frames@.drop_last() && final(self).ip == old(self).active().frames@[old(self).active().frames@.len() - 2].ip
    //@  ensures @the_bodys_return_value_becomes_the_result_of_call (old(self).active().frames@.len() == 1 && old(self).active().caller is Some) ==> r == Ok::<Option<Value>, Error>(None) && (final(self).fiber matches Some(x) && x.id() == old(self).active().caller->0.id()) && final(self).active().stack.view == old(self).heap[old(self).active().caller->0.id()].stack.view.update(old(self).heap[old(self).active().caller->0.id()].stack.view.len() - 1, old(self).active().stack.view.last())
    //@  ensures @a_finished_fiber_keeps_no_frame_and_no_caller (old(self).active().frames@.len() == 1 && old(self).active().caller is Some) ==> final(self).heap[old(self).active_id()].frames@.len() == 0 && final(self).heap[old(self).active_id()].caller is None && final(self).active().frames == old(self).heap[old(self).active().caller->0.id()].frames
    //@  ensures @a_finished_fiber_keeps_none_of_its_values (old(self).active().frames@.len() == 1 && old(self).active().caller is Some) ==> final(self).heap[old(self).active_id()].stack.view.len() == 0
    //@  ensures @a_frame_that_is_left_takes_the_return_it_had_parked_along final(self).heap[old(self).active_id()].return_ip is Some ==> final(self).heap[old(self).active_id()].return_frame_count != old(self).active().frames@.len()
    //@  ensures @a_frame_that_is_left_takes_the_exception_its_finally_block_was_entered_with_along (old(self).active().frames@.len() > 1 && final(self).handling_exception) ==> final(self).heap[old(self).active_id()].pending_frame_count != old(self).active().frames@.len()
    //@  ensures @the_end_of_the_outermost_fiber_ends_the_run (old(self).active().frames@.len() == 1 && old(self).active().caller is None) ==> (r matches Ok(Some(_))) && final(self).fiber == old(self).fiber && final(self).active().frames@.len() == 0
    //@  ensures @a_frame_that_is_left_closes_the_cells_of_its_variables_and_no_others final(self).heap[old(self).active_id()].cells_closed == old(self).active().cells_closed.push(old(self).active().frames@.last().slot_base as int)
    //@  ensures @after_a_return_the_caller_continues_its_own_code_in_its_own_module (r matches Ok(None)) ==> final(self).view_ok()
    //@  ensures @other_fibers_untouched forall|i: int| old(self).heap.dom().contains(i) && i != old(self).active_id() && !(old(self).active().caller matches Some(c) && i == c.id()) ==> final(self).heap.dom().contains(i) && final(self).heap[i] == old(self).heap[i]
    //@end
}

//@fn file=yarel/src/core.rs path=check_num_args ret=r
//@  rewrite R1
//@  ensures r is Ok <==> num_args == expected
//@  ensures r matches Err(e) ==> e.kind is TypeError
//@end

// Fiber.call(args…): a wrong argument count is a TypeError and no fiber is touched; otherwise the (single, optional)
// argument is handed to Vm::load_fiber together with the receiver fiber.
//@fn file=yarel/src/core.rs path=fiber_call ret=r
//@  rewrite R1
//@  subst ".try_as_obj_fiber() .expect(\"Expected ObjFiber.\")" => ".try_as_obj_fiber().unwrap()"
//@  subst "let borrowed_fiber = fiber.borrow();" => "let borrowed_fiber = vm.fiber_content(fiber);"
//@  requires old(vm).wf(), old(vm).fiber is Some, num_args < old(vm).active().stack.view.len(), old(vm).active().frames@.len() > 0
//@  requires old(vm).active().stack.view[old(vm).active().stack.view.len() - 1 - num_args].as_fiber() matches Some(f) && old(vm).heap.dom().contains(f.id()) && old(vm).heap[f.id()].call_arity >= 1 && old(vm).heap[f.id()].stack.view.len() + 2 <= STACK_MAX && (!old(vm).heap[f.id()].new_fiber() ==> old(vm).heap[f.id()].stack.view.len() > 0) && (old(vm).active_id() != f.id() || old(vm).heap[f.id()].caller is Some || old(vm).heap[f.id()].frames@.len() == 0)
//@  ensures @wrong_argument_count_is_a_type_error_and_touches_no_fiber ({ let f = old(vm).active().stack.view[old(vm).active().stack.view.len() - 1 - num_args].as_fiber()->0; (if old(vm).heap[f.id()].new_fiber() { num_args != old(vm).heap[f.id()].call_arity - 1 } else { num_args > 1 }) ==> (r matches Err(e) && e.kind is TypeError) && final(vm).heap == old(vm).heap && old(vm).handles_same(final(vm)) })
//@  ensures @a_rejected_call_leaves_every_fiber_untouched r is Err ==> final(vm).heap == old(vm).heap && old(vm).handles_same(final(vm))
//@  ensures @an_accepted_call_makes_the_receiver_the_active_fiber r is Ok ==> (final(vm).fiber matches Some(x) && x.id() == old(vm).active().stack.view[old(vm).active().stack.view.len() - 1 - num_args].as_fiber()->0.id())
//@end

// Fiber.yield(arg?): more than one argument is a TypeError and no fiber is touched; yielding outside any fiber is the
// error Vm::unload_fiber reports.
//@fn file=yarel/src/core.rs path=fiber_yield ret=r
//@  rewrite R1
//@  requires old(vm).wf(), old(vm).fiber is Some, num_args < old(vm).active().stack.view.len() || num_args == 0
//@  requires old(vm).active().caller matches Some(c) ==> old(vm).heap.dom().contains(c.id()) && c.id() != old(vm).active_id() && old(vm).heap[c.id()].stack.view.len() > 0 && old(vm).heap[c.id()].frames@.len() > 0
//@  ensures @too_many_arguments_is_a_type_error_and_touches_no_fiber num_args > 1 ==> (r matches Err(e) && e.kind is TypeError) && final(vm).heap == old(vm).heap && old(vm).handles_same(final(vm))
//@  ensures @yield_outside_a_fiber_is_an_error (num_args <= 1 && old(vm).active().caller is None) ==> r is Err
//@  ensures @yield_hands_control_back_to_the_caller (num_args <= 1 && old(vm).active().caller is Some) ==> (final(vm).fiber matches Some(x) && x.id() == old(vm).active().caller->0.id())
//@end

} // verus!
fn main() {}
