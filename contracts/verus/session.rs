//@unit session
//@property C15
// "a snippet that ends in a compile error or an uncaught runtime error affects later snippets only through the
// definitions it completed before failing - never through leftover handler, fiber, stack or 'exception in flight'
// state" (yarel/src/vm.rs vm::interpret, Vm::execute): every run starts on a fresh fiber with no exception in flight.
use vstd::prelude::*;
use std::ops::Deref;
verus! {

global size_of usize == 8;

// ------------------------------------------------------------------ environment stand-ins (assumed)
#[verifier::external_body]
#[verifier::accept_recursive_types(T)]
pub struct Gc<T> { p: core::marker::PhantomData<T> }
impl<T> Clone for Gc<T> { #[verifier::external_body] fn clone(&self) -> (r: Self) ensures r == *self { Gc { p: core::marker::PhantomData } } }
impl<T> Copy for Gc<T> {}
impl<T> Gc<T> {
    pub uninterp spec fn id(&self) -> int;
    pub uninterp spec fn obj(&self) -> T;
}
impl<T> Deref for Gc<T> {
    type Target = T;
    #[verifier::external_body]
    fn deref(&self) -> (r: &T) ensures *r == self.obj() { unimplemented!() }
}
#[verifier::external_body]
#[verifier::accept_recursive_types(T)]
pub struct Root<T> { p: core::marker::PhantomData<T> }
impl<T> Root<T> {
    pub uninterp spec fn id(&self) -> int;
    pub uninterp spec fn obj(&self) -> T;
    #[verifier::external_body]
    pub fn as_gc(&self) -> (g: Gc<T>) ensures g.id() == self.id(), g.obj() == self.obj() { unimplemented!() }
}
impl<T> Deref for Root<T> {
    type Target = T;
    #[verifier::external_body]
    fn deref(&self) -> (r: &T) ensures *r == self.obj() { unimplemented!() }
}
pub struct RefCell<T> { pub v: T }
pub struct ObjString { }
pub struct ObjModule { }
pub struct ObjFunction { pub arity: usize, pub module_path: Gc<ObjString> }
pub struct ObjClosure { pub function: Gc<ObjFunction> }
#[verifier::external_body]
pub struct Value { _p: u8 }
impl Clone for Value { #[verifier::external_body] fn clone(&self) -> (r: Self) ensures r == *self { Value { _p: 0 } } }
impl Copy for Value {}
//@enum file=yarel/src/error.rs name=ErrorKind
pub struct Error { pub kind: ErrorKind }
#[verifier::external_body]
fn verif_error(kind: ErrorKind) -> (e: Error) ensures e.kind == kind { Error { kind } }
#[verifier::external_body]
fn null_ip() -> usize { unimplemented!() }

// what matters about a fiber here
pub struct FiberState { pub frames: nat, pub handlers: nat, pub has_caller: bool, pub parked_return: bool }
pub struct ObjFiber { }

// the VM as far as this unit is concerned: ip, active fiber handle, the flag, and (ghost) the content of fiber cells
// the module registry as far as this unit is concerned: how many modules are registered
pub struct ModReg { pub ghost n: nat }
impl ModReg {
    #[verifier::external_body]
    fn len(&self) -> (r: usize) ensures r == self.n { unimplemented!() }
}
// R23: debug_assert!(E) — a panic in the checked build configuration when E is false
#[verifier::external_body]
fn debug_assert_checked(b: bool) requires b { unimplemented!() }

pub struct Vm {
    pub modules: ModReg,
    pub ip: usize,
    pub fiber: Option<Root<RefCell<ObjFiber>>>,
    pub handling_exception: bool,
    pub ghost fibers: Map<int, FiberState>,
}

impl Vm {
    // a run may start: no exception in flight; the active fiber is the fresh one (one frame, no handler records, no
    // caller, no parked return)
    pub open spec fn clean_start(&self) -> bool {
        &&& !self.handling_exception
        &&& (self.fiber matches Some(f) && self.fibers.dom().contains(f.id())
             && self.fibers[f.id()] == FiberState { frames: 1, handlers: 0, has_caller: false, parked_return: false })
    }

    #[verifier::external_body]
    fn module(&mut self, path: &Gc<ObjString>) -> (r: Gc<RefCell<ObjModule>>)
        ensures final(self).modules.n >= 1, final(self).ip == old(self).ip, final(self).fiber == old(self).fiber, final(self).handling_exception == old(self).handling_exception, final(self).fibers == old(self).fibers
    { unimplemented!() }
    #[verifier::external_body]
    fn new_root_obj_closure(&mut self, function: Gc<ObjFunction>, module: Gc<RefCell<ObjModule>>) -> (r: Root<ObjClosure>)
        ensures r.obj().function == function,
            final(self).ip == old(self).ip, final(self).fiber == old(self).fiber, final(self).handling_exception == old(self).handling_exception, final(self).fibers == old(self).fibers, final(self).modules == old(self).modules
    { unimplemented!() }
    // vm.rs new_root_obj_fiber -> ObjFiber::new: one frame for the closure, empty stack, no handler records, no
    // caller, no parked return; a cell nobody else has
    #[verifier::external_body]
    fn new_root_obj_fiber(&mut self, closure: Gc<ObjClosure>) -> (r: Root<RefCell<ObjFiber>>)
        ensures !old(self).fibers.dom().contains(r.id()),
            final(self).fibers == old(self).fibers.insert(r.id(), FiberState { frames: 1, handlers: 0, has_caller: false, parked_return: false }),
            final(self).ip == old(self).ip, final(self).fiber == old(self).fiber, final(self).handling_exception == old(self).handling_exception, final(self).modules == old(self).modules,
    { unimplemented!() }
    // vm.rs load_fiber with no fiber active (contract: unit `fiberx`): the fiber becomes active, its content is kept
    // except for the closure slot pushed on its stack
    #[verifier::external_body]
    fn load_fiber(&mut self, fiber: Gc<RefCell<ObjFiber>>, arg: Option<Value>) -> (r: Result<(), Error>)
        requires old(self).fiber is None, old(self).fibers.dom().contains(fiber.id())
        ensures r is Ok ==> (final(self).fiber matches Some(f) && f.id() == fiber.id()),
            final(self).fibers == old(self).fibers, final(self).handling_exception == old(self).handling_exception, final(self).modules == old(self).modules,
            r is Err ==> final(self).fiber == old(self).fiber,
    { unimplemented!() }
    #[verifier::external_body]
    fn push(&mut self, value: Value)
        ensures final(self).ip == old(self).ip, final(self).fiber == old(self).fiber, final(self).handling_exception == old(self).handling_exception, final(self).fibers == old(self).fibers, final(self).modules == old(self).modules
    { unimplemented!() }
    // the interpreter loop proper (the `loop { … }` of Vm::run): may only be entered from a clean start
    #[verifier::external_body]
    fn run_loop(&mut self) -> Result<Value, Error>
        requires old(self).clean_start()
    { unimplemented!() }
    // Vm::run: whatever stands before the interpreter loop must not panic in any run a host can start — in particular
    // not because an earlier snippet imported a module (modules persist between runs, so the registry may hold any
    // number >= 1 of them).
    //@fn file=yarel/src/vm.rs path=Vm::run ret=r
    //@  truncate_at "loop {" => "self.run_loop()"
    //@  rewrite R23
    //@  requires old(self).clean_start(), old(self).modules.n >= 1
    //@end
    #[verifier::external_body]
    fn runtime_error(&mut self, error: &mut Error) -> Error { unimplemented!() }

    // One run of a compiled snippet. Whatever the previous run left behind (it may have ended anywhere: uncaught
    // exception, error inside a fiber, inside a try block), the interpreter loop starts from a clean state.
    //@fn file=yarel/src/vm.rs path=Vm::execute ret=r
    //@  rewrite R1 R15
    //@  subst "ptr::null()" => "null_ip()"
    //@  requires function.obj().arity >= 1
    //@  after_stmt "self.load_fiber(fiber.as_gc(), None)?" let ghost pre = *self;
    //@  loop 0 invariant self.fiber == pre.fiber, self.fibers == pre.fibers, self.handling_exception == pre.handling_exception, self.modules == pre.modules
    //@  assert @run_starts_with_no_exception_in_flight before_stmt "match self.run()" !self.handling_exception
    //@  assert @run_starts_on_a_fresh_fiber before_stmt "match self.run()" self.fiber matches Some(f) && self.fibers.dom().contains(f.id()) && self.fibers[f.id()] == (FiberState { frames: 1, handlers: 0, has_caller: false, parked_return: false })
    //@  ensures args@.len() != function.obj().arity - 1 ==> (r matches Err(e) && e.kind is TypeError)
    //@end
}

// compiler::compile (C03: every text yields a function or a compile error): whether a text compiles is a function of
// the text; compiling interns strings and allocates function objects, it touches no fiber, no in-flight state and no
// module table (assumed here — the compiler holds `&mut Vm` only to allocate: by text of compiler.rs)
pub uninterp spec fn compiles(source: Seq<char>) -> bool;
#[verifier::external_body]
fn compile(vm: &mut Vm, source: String, module_path: Option<&str>) -> (r: Result<Root<ObjFunction>, Error>)
    ensures *final(vm) == *old(vm), (r is Ok) == compiles(source@), r matches Ok(f) ==> f.obj().arity == 1, r matches Err(e) ==> e.kind is CompileError
{ unimplemented!() }
#[verifier::external_body]
fn empty_args() -> (r: Vec<Value>) ensures r@.len() == 0 { unimplemented!() }

// vm::interpret — one snippet of a session
//@fn file=yarel/src/vm.rs path=interpret ret=r
//@  rewrite R11
//@  subst "compiler::compile(" => "compile("
//@  subst "vm.execute(function, &[])" => "vm.execute(function, empty_args().as_slice())"
//@  ensures @a_snippet_that_does_not_compile_executes_nothing_and_leaves_the_interpreter_as_it_was !compiles(source@) ==> (r matches Err(e) && e.kind is CompileError) && *final(vm) == *old(vm)
//@end

} // verus!
fn main() {}
