//@unit closc
//@property C06
// Compile-time side of the Closure instruction's operands (yarel/src/compiler.rs Parser::function, Parser::lambda): the
// capture descriptors the inner function's compiler collected (Compiler.upvalues: which enclosing local slot or
// enclosing upvalue each captured variable is — built by resolve_upvalue/add_upvalue, unit `compiler`) are emitted as
// operand pairs (is_local, index) in order, right behind the Closure instruction. Vm::closure_impl (unit `upvalues`)
// decodes exactly these pairs.
use vstd::prelude::*;
verus! {

global size_of usize == 8;

#[verifier::external_body]
#[verifier::accept_recursive_types(T)]
pub struct Gc<T> { p: core::marker::PhantomData<T> }
#[verifier::external_body]
#[verifier::accept_recursive_types(T)]
pub struct Root<T> { p: core::marker::PhantomData<T> }
impl<T> Root<T> {
    #[verifier::external_body]
    pub fn as_gc(&self) -> Gc<T> { unimplemented!() }
}
pub struct ObjFunction { }
//@enum file=yarel/src/chunk.rs name=OpCode discr=opcode_byte
//@enum file=yarel/src/compiler.rs name=FunctionKind
//@struct file=yarel/src/compiler.rs name=Upvalue
mod value { pub struct Value { } impl Value { #[allow(non_snake_case)] pub fn ObjFunction<T>(_g: T) -> Value { Value { } } } }
// `b as u8` on bool: 1 / 0 (Rust reference)
#[verifier::external_body]
fn bool_u8(b: bool) -> (r: u8) ensures r == (if b { 1u8 } else { 0u8 }) { b as u8 }
// `x as u8` on a u8: identity
fn u8_u8(x: u8) -> (r: u8) ensures r == x { x }

pub struct Parser { pub ghost code: Seq<u8>, pub ghost finished_upvalues: Seq<Upvalue> }

impl Parser {
    // everything up to and including the inner function's body: parsing and compiling it; `finished_upvalues` (ghost)
    // are the capture descriptors its compiler holds at that point
    #[verifier::external_body]
    fn function_head(&mut self, kind: FunctionKind) { unimplemented!() }
    #[verifier::external_body]
    fn lambda_head(&mut self) { unimplemented!() }
    // compiler.rs finalise_compiler: pops the inner compiler, returns its function and its capture descriptors
    #[verifier::external_body]
    fn finalise_compiler(&mut self) -> (r: (Root<ObjFunction>, Vec<Upvalue>))
        ensures r.1@ == old(self).finished_upvalues, final(self).finished_upvalues == old(self).finished_upvalues
    { unimplemented!() }
    #[verifier::external_body]
    fn make_constant(&mut self, v: value::Value) -> (r: u16) ensures final(self).finished_upvalues == old(self).finished_upvalues { unimplemented!() }
    // C04 (unit compiler): opcode + 2 operand bytes
    #[verifier::external_body]
    fn emit_constant_op(&mut self, opcode: OpCode, constant: u16)
        ensures final(self).code.len() == old(self).code.len() + 3, final(self).code[old(self).code.len() as int] == opcode_byte(opcode), final(self).finished_upvalues == old(self).finished_upvalues
    { unimplemented!() }
    #[verifier::external_body]
    fn emit_byte(&mut self, byte: u8)
        ensures final(self).code == old(self).code.push(byte), final(self).finished_upvalues == old(self).finished_upvalues
    { unimplemented!() }

    // the operand pairs behind the Closure instruction that starts at position `at`
    pub open spec fn pairs_ok(&self, at: int, ups: Seq<Upvalue>, n: int) -> bool {
        forall|i: int| #![trigger ups[i]] 0 <= i < n ==> self.code[at + 3 + 2 * i] == (if ups[i].is_local { 1u8 } else { 0u8 }) && self.code[at + 3 + 2 * i + 1] == ups[i].index
    }

    //@fn file=yarel/src/compiler.rs path=Parser::function
    //@  skip_until "let (function, upvalues) = self.finalise_compiler();" => "self.function_head(kind);"
    //@  subst "upvalue.is_local as u8" => "bool_u8(upvalue.is_local)"
    //@  subst "upvalue.index as u8" => "u8_u8(upvalue.index)"
    //@  ensures @closure_operands_are_the_capture_descriptors_in_order exists|at: int| 0 <= at && at + 3 + 2 * final(self).finished_upvalues.len() == final(self).code.len() && final(self).code[at] == opcode_byte(OpCode::Closure) && final(self).pairs_ok(at, final(self).finished_upvalues, final(self).finished_upvalues.len() as int)
    //@  after_stmt "self.emit_constant_op(OpCode::Closure, constant);" let ghost at = self.code.len() - 3; let ghost ups = self.finished_upvalues;
    //@  loop 0 iter it
    //@  loop 0 invariant it.seq().len() == ups.len(), forall|j: int| 0 <= j < ups.len() ==> *#[trigger] it.seq()[j] == ups[j], ups == self.finished_upvalues, self.code.len() == at + 3 + 2 * it.index@, at >= 0, self.code[at] == opcode_byte(OpCode::Closure), self.pairs_ok(at, ups, it.index@ as int)
    //@end
    //@fn file=yarel/src/compiler.rs path=Parser::lambda
    //@  skip_until "let (function, upvalues) = s.finalise_compiler();" => "s.lambda_head();"
    //@  subst "upvalue.is_local as u8" => "bool_u8(upvalue.is_local)"
    //@  subst "upvalue.index as u8" => "u8_u8(upvalue.index)"
    //@  ensures @closure_operands_are_the_capture_descriptors_in_order exists|at: int| 0 <= at && at + 3 + 2 * final(s).finished_upvalues.len() == final(s).code.len() && final(s).code[at] == opcode_byte(OpCode::Closure) && final(s).pairs_ok(at, final(s).finished_upvalues, final(s).finished_upvalues.len() as int)
    //@  after_stmt "s.emit_constant_op(OpCode::Closure, constant);" let ghost at = s.code.len() - 3; let ghost ups = s.finished_upvalues;
    //@  loop 0 iter it
    //@  loop 0 invariant it.seq().len() == ups.len(), forall|j: int| 0 <= j < ups.len() ==> *#[trigger] it.seq()[j] == ups[j], ups == s.finished_upvalues, s.code.len() == at + 3 + 2 * it.index@, at >= 0, s.code[at] == opcode_byte(OpCode::Closure), s.pairs_ok(at, ups, it.index@ as int)
    //@end
}

} // verus!
fn main() {}
