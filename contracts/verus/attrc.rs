//@unit attrc
//@property C03
// Attribute lists `#[name, name(arg, …), …]` (yarel/src/compiler.rs Parser::attribute, attributes_declaration,
// take_attribute, check_no_attributes): the two loops of the attribute parser terminate on every token stream (each
// iteration consumes a token), a malformed list is a reported compile error — never a silently half-recorded list —, a
// list that is recorded has at least one attribute and remembers its opening token, and what consumes the list
// (take_attribute / check_no_attributes) leaves none behind for the next declaration.
use vstd::prelude::*;
verus! {

global size_of usize == 8;

//@enum file=yarel/src/scanner.rs name=TokenKind eq=1
//@struct file=yarel/src/scanner.rs name=Token
//@struct file=yarel/src/compiler.rs name=Attribute
impl Clone for Token { #[verifier::external_body] fn clone(&self) -> (r: Self) ensures r == *self { unimplemented!() } }
#[verifier::external_body]
fn string_clone(s: &String) -> (r: String) ensures r@ == s@ { unimplemented!() }
#[verifier::external_body]
fn verif_format() -> String { String::new() }

// std HashMap<String, Attribute> by contract: a map from the attribute's name to the attribute
pub struct AttrMap { pub ghost m: Map<Seq<char>, Attribute> }
impl AttrMap {
    #[verifier::external_body]
    fn new() -> (r: AttrMap) ensures r.m == Map::<Seq<char>, Attribute>::empty() { unimplemented!() }
    #[verifier::external_body]
    fn insert(&mut self, k: String, v: Attribute) -> (r: Option<Attribute>)
        ensures final(self).m == old(self).m.insert(k@, v), (r is Some) == old(self).m.dom().contains(k@)
    { unimplemented!() }
    #[verifier::external_body]
    fn remove(&mut self, k: &str) -> (r: Option<Attribute>)
        ensures final(self).m == old(self).m.remove(k@), (r is Some) == old(self).m.dom().contains(k@), r matches Some(a) ==> a == old(self).m[k@]
    { unimplemented!() }
    #[verifier::external_body]
    fn is_empty(&self) -> (r: bool) ensures r == (self.m.dom() =~= Set::<Seq<char>>::empty()) { unimplemented!() }
    #[verifier::external_body]
    fn clear(&mut self) ensures final(self).m == Map::<Seq<char>, Attribute>::empty() { unimplemented!() }
}

pub struct Parser {
    pub previous: Token,
    pub current: Token,
    pub attributes: AttrMap,
    pub attribute_opener: Option<Token>,
    pub ghost had_error: bool,          // a compile error is on record
    pub ghost toks_left: nat,           // tokens the scanner has not handed out yet (unit tokens)
}

impl Parser {
    pub open spec fn quiet(&self, o: &Parser) -> bool { self.attributes == o.attributes && self.attribute_opener == o.attribute_opener && (self.had_error ==> o.had_error) && o.toks_left <= self.toks_left }
    // ---- the token pump (unit tokens): a successful match hands out one token
    #[verifier::external_body]
    fn match_token(&mut self, kind: TokenKind) -> (r: bool)
        ensures old(self).quiet(final(self)), final(self).had_error == old(self).had_error, r ==> final(self).previous == old(self).current && final(self).previous.kind == kind && final(self).toks_left < old(self).toks_left,
            !r ==> final(self).previous == old(self).previous && final(self).current == old(self).current && final(self).toks_left == old(self).toks_left
    { unimplemented!() }
    #[verifier::external_body]
    fn error(&mut self, message: &str) ensures old(self).quiet(final(self)), final(self).had_error, final(self).toks_left == old(self).toks_left, final(self).previous == old(self).previous, final(self).current == old(self).current { unimplemented!() }
    #[verifier::external_body]
    fn error_at_current(&mut self, message: &str) ensures old(self).quiet(final(self)), final(self).had_error, final(self).toks_left == old(self).toks_left, final(self).previous == old(self).previous, final(self).current == old(self).current { unimplemented!() }
    #[verifier::external_body]
    fn error_at(&mut self, token: Token, message: &str) ensures old(self).quiet(final(self)), final(self).had_error, final(self).toks_left == old(self).toks_left, final(self).previous == old(self).previous, final(self).current == old(self).current { unimplemented!() }

    // one attribute: NAME or NAME(ARG, …)
    //@fn file=yarel/src/compiler.rs path=Parser::attribute ret=r props=C03,C07
    //@  subst "let mut arguments = Vec::new();" => "let mut arguments: Vec<Token> = Vec::new();"
    //@  ensures old(self).quiet(final(self))
    //@  ensures @an_attribute_is_named_by_the_identifier_it_starts_with r matches Some(a) ==> a.name == old(self).current && a.name.kind == TokenKind::Identifier
    //@  ensures @a_parsed_attribute_consumed_at_least_one_token r is Some ==> final(self).toks_left < old(self).toks_left
    //@  ensures @no_attribute_means_nothing_was_consumed_or_an_error_was_reported r is None ==> final(self).had_error || (final(self).toks_left == old(self).toks_left && final(self).current == old(self).current)
    //@  ensures @every_argument_is_an_identifier r matches Some(a) ==> forall|i: int| 0 <= i < a.arguments@.len() ==> (#[trigger] a.arguments@[i]).kind == TokenKind::Identifier
    //@  loop 0 invariant old(self).quiet(self), self.toks_left < old(self).toks_left, name == old(self).current, name.kind == TokenKind::Identifier
    //@  loop 0 invariant forall|i: int| 0 <= i < arguments@.len() ==> (#[trigger] arguments@[i]).kind == TokenKind::Identifier
    //@  loop 0 decreases self.toks_left
    //@end

    // #[ A, B, … ]
    //@fn file=yarel/src/compiler.rs path=Parser::attributes_declaration props=C03,C07
    //@  rewrite R13
    //@  subst "HashMap::new()" => "AttrMap::new()"
    //@  subst "attribute.name.source.clone()" => "string_clone(&attribute.name.source)"
    //@  ensures old(self).had_error ==> final(self).had_error, final(self).toks_left <= old(self).toks_left
    //@  ensures @a_recorded_attribute_list_is_not_empty_and_remembers_where_it_started !final(self).had_error ==> !(final(self).attributes.m.dom() =~= Set::<Seq<char>>::empty()) && final(self).attribute_opener == Some(old(self).previous)
    //@  ensures @a_malformed_attribute_list_records_nothing_new final(self).attribute_opener is Some ==> !(final(self).attributes.m.dom() =~= Set::<Seq<char>>::empty()) || final(self).had_error
    //@  ensures @every_recorded_attribute_is_filed_under_its_own_name !final(self).had_error ==> forall|k: Seq<char>| final(self).attributes.m.dom().contains(k) ==> (#[trigger] final(self).attributes.m[k]).name.source@ == k
    //@  assert @a_duplicate_attribute_is_a_compile_error before_stmt "break;#1" self.had_error
    //@  loop 0 invariant old(self).had_error ==> self.had_error, self.toks_left <= old(self).toks_left, self.attribute_opener is None, opener == old(self).previous
    //@  loop 0 invariant forall|k: Seq<char>| attributes.m.dom().contains(k) ==> (#[trigger] attributes.m[k]).name.source@ == k
    //@  loop 0 decreases self.toks_left
    //@end

    // the attribute `name` of the pending list, if it was given with the right number of arguments; it is removed either way
    //@fn file=yarel/src/compiler.rs path=Parser::take_attribute ret=r props=C03,C07
    //@  rewrite R13
    //@  ensures final(self).attributes.m == old(self).attributes.m.remove(name@), final(self).attribute_opener == old(self).attribute_opener, old(self).had_error ==> final(self).had_error, final(self).toks_left == old(self).toks_left
    //@  ensures @an_attribute_is_taken_only_with_the_expected_number_of_arguments r matches Some(a) ==> old(self).attributes.m.dom().contains(name@) && a == old(self).attributes.m[name@] && a.arguments@.len() == num_args
    //@  ensures @an_attribute_with_the_wrong_number_of_arguments_is_a_compile_error (old(self).attributes.m.dom().contains(name@) && old(self).attributes.m[name@].arguments@.len() != num_args) ==> r is None && final(self).had_error
    //@  ensures @an_absent_attribute_is_not_an_error !old(self).attributes.m.dom().contains(name@) ==> r is None && final(self).had_error == old(self).had_error
    //@end

    // a declaration that takes no attributes: a pending list is an error, and it is dropped
    //@fn file=yarel/src/compiler.rs path=Parser::check_no_attributes props=C03,C07
    //@  ensures @a_pending_attribute_list_where_none_is_allowed_is_a_compile_error old(self).attribute_opener is Some ==> final(self).had_error
    //@  ensures @no_attribute_outlives_the_declaration_it_was_written_for final(self).attributes.m == Map::<Seq<char>, Attribute>::empty() && final(self).attribute_opener is None
    //@  ensures old(self).had_error ==> final(self).had_error, final(self).toks_left == old(self).toks_left, final(self).previous == old(self).previous, final(self).current == old(self).current
    //@end
}

} // verus!
fn main() {}
