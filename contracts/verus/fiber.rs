//@unit fiber
//@property C10
// The two handles on the active fiber (yarel/src/vm.rs): `fiber` (borrow-checked, used by the checked configuration)
// and `unsafe_fiber` (raw pointer, used by the optimised configuration) must always designate the same fiber.
use vstd::prelude::*;
use std::ops::Deref;
verus! {

global size_of usize == 8;

// ------------------------------------------------------------------ environment stand-ins (assumed)
#[verifier::external_body]
#[verifier::accept_recursive_types(T)]
pub struct Gc<T> { p: core::marker::PhantomData<T> }
impl<T> Clone for Gc<T> { #[verifier::external_body] fn clone(&self) -> (r: Self) ensures r == *self { Gc { p: core::marker::PhantomData } } }
impl<T> Copy for Gc<T> {}
impl<T> Gc<T> {
    pub uninterp spec fn id(&self) -> int;      // the heap cell
    pub uninterp spec fn obj(&self) -> T;       // its content when dereferenced
    #[verifier::external_body]
    pub fn as_root(&self) -> (r: Root<T>) ensures r.id() == self.id() { unimplemented!() }
}
impl<T> Deref for Gc<T> {
    type Target = T;
    #[verifier::external_body]
    fn deref(&self) -> (r: &T) ensures *r == self.obj() { unimplemented!() }
}
#[verifier::external_body]
#[verifier::accept_recursive_types(T)]
pub struct Root<T> { p: core::marker::PhantomData<T> }
impl<T> Root<T> {
    pub uninterp spec fn id(&self) -> int;
    #[verifier::external_body]
    pub fn as_gc(&self) -> (g: Gc<T>) ensures g.id() == self.id() { unimplemented!() }
}
pub struct RefCell<T> { pub v: T }
impl<T> RefCell<T> {
    #[verifier::external_body]
    pub fn borrow(&self) -> (r: &T) ensures *r == self.v { &self.v }
}
// raw pointer to the ObjFiber inside a heap cell
pub struct FiberPtr { pub ghost cell: int }
// `(*g).as_ptr()`: RefCell::as_ptr of the cell a Gc designates
#[verifier::external_body]
fn gc_cell_ptr<T>(g: &Gc<RefCell<T>>) -> (r: FiberPtr) ensures r.cell == g.id() { unimplemented!() }

pub assume_specification<T> [std::option::Option::<T>::replace] (o: &mut std::option::Option<T>, v: T) -> (r: std::option::Option<T>)
    ensures r == *old(o), *final(o) == Some(v);

#[verifier::external_body]
pub struct Value { _p: u8 }
impl Clone for Value { #[verifier::external_body] fn clone(&self) -> (r: Self) ensures r == *self { Value { _p: 0 } } }
impl Copy for Value {}
impl Value {
    #[verifier::external_body]
    fn none_value() -> Value { unimplemented!() }
    #[verifier::external_body] #[allow(non_snake_case)]
    fn ObjClosure(g: Gc<ObjClosure>) -> Value { unimplemented!() }
}
#[verifier::external_body]
fn value_unwrap_or_default(o: Option<Value>) -> Value { unimplemented!() }
pub struct ObjClosure { }
//@enum file=yarel/src/error.rs name=ErrorKind
pub struct Error { pub kind: ErrorKind }
#[verifier::external_body]
fn verif_error(kind: ErrorKind) -> (e: Error) ensures e.kind == kind { Error { kind } }

// the value stack of a fiber: only truncation matters here
#[verifier::external_body]
pub struct StackS { _p: u8 }
impl StackS {
    #[verifier::external_body]
    pub fn truncate(&mut self, size: usize) { unimplemented!() }
    #[verifier::external_body]
    pub fn clear(&mut self) { unimplemented!() }
}
//@struct file=yarel/src/object.rs name=CallFrame map "*const u8" => "usize"
//@struct file=yarel/src/object.rs name=ExcHandler map "*const u8" => "usize"
impl ExcHandler {
    #[verifier::external_body]
    fn has_catch_block(&self) -> bool { unimplemented!() }
}
//@struct file=yarel/src/object.rs name=ObjFiber keepfields=caller,stack,frames,return_ip,return_value,error_ip,handling_exception,pending_exception,return_handler_count,return_frame_count,pending_frame_count,exc_handlers map "*const u8" => "usize" map "Stack<Value, STACK_MAX>" => "StackS" addfield "pub ghost closed_from: int" addfield "pub ghost has_handler: bool" addfield "pub ghost height: int"
impl ObjFiber {
    //@fn file=yarel/src/object.rs path=ObjFiber::has_finished ret=r
    //@  ensures r == (self.frames@.len() == 0)
    //@end
    // object.rs is_new: `self.frames.len() == 1 && <ip is at the start of the chunk>`
    #[verifier::external_body]
    fn is_new(&self) -> (r: bool) ensures r ==> self.frames@.len() == 1 { unimplemented!() }
    // object.rs close_upvalues(index): closes every open upvalue whose slot is >= index; close_upvalues_for_frame does so
    // for the current frame's slot base. Ghost bookkeeping: `closed_from` = the slot from which everything was closed by
    // the most recent call.
    #[verifier::external_body]
    fn close_upvalues(&mut self, index: usize)
        ensures final(self).frames == old(self).frames, final(self).caller == old(self).caller, final(self).closed_from == index, final(self).height == old(self).height,
    { unimplemented!() }
    #[verifier::external_body]
    fn close_upvalues_for_frame(&mut self)
        requires old(self).frames@.len() > 0
        ensures final(self).frames == old(self).frames, final(self).caller == old(self).caller,
            final(self).closed_from == old(self).frames@.last().slot_base,
    { unimplemented!() }
    // object.rs pop_exc_handler: `self.exc_handlers.pop()`; the handler list is not part of this stand-in
    #[verifier::external_body]
    fn pop_exc_handler(&mut self) -> (r: Option<ExcHandler>)
        ensures final(self).frames == old(self).frames, final(self).caller == old(self).caller, final(self).closed_from == old(self).closed_from,
            old(self).has_handler ==> r is Some,
    { unimplemented!() }
    // object.rs take_return_data: forgets a parked return (its own contract: unit exc)
    #[verifier::external_body]
    fn take_return_data(&mut self) -> (r: Option<(Value, usize)>)
        ensures final(self).frames == old(self).frames, final(self).caller == old(self).caller, final(self).closed_from == old(self).closed_from, final(self).has_handler == old(self).has_handler,
    { unimplemented!() }
    #[verifier::external_body]
    fn current_frame(&self) -> (r: Option<&CallFrame>)
        ensures r is Some <==> self.frames@.len() > 0, r matches Some(f) ==> *f == self.frames@.last(),
    { unimplemented!() }
    #[verifier::external_body]
    fn current_frame_mut(&mut self) -> (r: Option<&mut CallFrame>)
        // assumed: wherever the VM asks for the current frame the fiber has one (a C02 fact of Vm, not covered here)
        ensures final(self).caller == old(self).caller, final(self).frames@.len() == old(self).frames@.len(), r is Some,
    { unimplemented!() }
}
#[verifier::external_body]
fn option_root_as_gc(o: Option<Root<RefCell<ObjFiber>>>) -> (r: Option<Gc<RefCell<ObjFiber>>>)
    ensures o is None ==> r is None, o matches Some(x) ==> (r matches Some(g) && g.id() == x.id()),
{ unimplemented!() }
#[verifier::external_body]
fn clear_caller(current: Option<Root<RefCell<ObjFiber>>>) { unimplemented!() }

//@struct file=yarel/src/vm.rs name=Vm keepfields=ip,fiber,unsafe_fiber,handling_exception map "*const u8" => "usize" map "*mut ObjFiber" => "FiberPtr" addfield "pub ghost active: ObjFiber"

impl Vm {
    // the representation invariant C10 rests on
    pub open spec fn coherent(&self) -> bool {
        self.fiber matches Some(r) ==> self.unsafe_fiber.cell == r.id()
    }
    pub open spec fn same_fiber_handles(&self, o: &Vm) -> bool {
        self.fiber == o.fiber && self.unsafe_fiber == o.unsafe_fiber
    }
    // `active` (ghost): the content of the fiber object the handles designate, as far as frames / caller /
    // upvalue-closing bookkeeping are concerned; the stack helpers below only touch its value stack
    pub open spec fn same_active_frames(&self, o: &Vm) -> bool {
        self.active.frames == o.active.frames && self.active.caller == o.active.caller && self.active.closed_from == o.active.closed_from
            && self.active.has_handler == o.active.has_handler
    }

    // operand stack / frame helpers act on the active fiber's heap object, not on the two handles (assumed frames)
    #[verifier::external_body]
    fn pop(&mut self) -> Value ensures old(self).same_fiber_handles(final(self)), old(self).same_active_frames(final(self)) { unimplemented!() }
    #[verifier::external_body]
    fn push(&mut self, value: Value) ensures old(self).same_fiber_handles(final(self)), old(self).same_active_frames(final(self)) { unimplemented!() }
    #[verifier::external_body]
    fn poke(&mut self, depth: usize, value: Value) ensures old(self).same_fiber_handles(final(self)), old(self).same_active_frames(final(self)) { unimplemented!() }
    #[verifier::external_body]
    fn peek(&self, depth: usize) -> Value { unimplemented!() }
    #[verifier::external_body]
    fn new_error_from_value(&mut self, value: Value) -> Error ensures old(self).same_fiber_handles(final(self)), old(self).same_active_frames(final(self)) { unimplemented!() }
    // assumed (C04): compiled code executes CloseUpvalue only with the captured local on the stack
    #[verifier::external_body]
    fn stack_size(&self) -> (r: usize) ensures r >= 1, r == self.active.height { unimplemented!() }
    #[verifier::external_body]
    fn load_frame(&mut self) ensures old(self).same_fiber_handles(final(self)), old(self).same_active_frames(final(self)) { unimplemented!() }
    // assumed: a fiber that is being switched to / from has at least one frame unless has_finished() (C02 fact of Vm)
    // The checked configuration reaches the active fiber through `fiber` (borrow-checked), the optimised one through
    // `unsafe_fiber`: the two builds touch the same fiber only if the handles agree AT EVERY ACCESS — hence the
    // precondition (and `fiber` must be Some: the checked accessor unwraps it).
    #[verifier::external_body]
    fn active_fiber(&self) -> (r: &ObjFiber)
        requires self.fiber is Some, self.coherent(),
        ensures *r == self.active,
    { unimplemented!() }
    #[verifier::external_body]
    fn active_fiber_mut(&mut self) -> (r: &mut ObjFiber)
        requires old(self).fiber is Some, old(self).coherent(),
        ensures old(self).same_fiber_handles(final(self)), final(self).ip == old(self).ip,
            *r == old(self).active, final(self).active == *final(r),
    { unimplemented!() }

    //@fn file=yarel/src/vm.rs path=Vm::load_fiber ret=r
    //@  rewrite R1
    //@  subst "(*fiber).as_ptr()" => "gc_cell_ptr(&fiber)"
    //@  subst "caller.map(|p| p.as_gc())" => "option_root_as_gc(caller)"
    //@  subst "arg.unwrap_or_default()" => "value_unwrap_or_default(arg)"
    //@  requires old(self).coherent()
    //@  ensures final(self).coherent()
    //@  ensures r is Err ==> old(self).same_fiber_handles(final(self))
    //@  ensures r is Ok ==> (final(self).fiber matches Some(x) && x.id() == fiber.id())
    //@  ensures r matches Err(e) ==> e.kind is RuntimeError
    //@end

    //@fn file=yarel/src/vm.rs path=Vm::unload_fiber ret=r
    //@  rewrite R1
    //@  subst "(*caller).as_ptr()" => "gc_cell_ptr(&caller)"
    //@  subst "current.as_mut().unwrap().borrow_mut().caller = None;" => "clear_caller(current);"
    //@  subst "arg.unwrap_or_default()" => "value_unwrap_or_default(arg)"
    //@  requires old(self).coherent(), old(self).fiber is Some
    //@  ensures final(self).coherent()
    //@  ensures r is Err ==> old(self).same_fiber_handles(final(self))
    //@  ensures r matches Err(e) ==> e.kind is RuntimeError
    //@end
    // Returning from a frame: the frame's captured variables must have been closed by the time the frame is popped,
    // also when it is the fiber's outermost frame (its stack dies with the fiber object).
    //@fn file=yarel/src/vm.rs path=Vm::return_impl ret=r props=C06
    //@  subst "Value::None" => "Value::none_value()"
    //@  requires old(self).coherent(), old(self).fiber is Some, old(self).active.frames@.len() > 0
    //@  ensures final(self).coherent()
    //@  at body.start proof { self.active.closed_from = 0x7fff_ffff_ffff_ffff; }
    //@  assert @popped_frame_upvalues_closed after_stmt "self.active_fiber_mut().frames.pop()" self.active.closed_from <= old(self).active.frames@.last().slot_base
    //@end

    // C06: "a closure shares the very variable it captured ... after [the declaring scope] has exited". Whenever the VM
    // discards value-stack slots, every captured variable living in them must have been closed (moved off the stack)
    // first: `closed_from` (ghost) is the slot from which the most recent close_upvalues call closed everything.
    // Exception unwinding: the handler's frame survives, everything above the handler's stack height is discarded.
    //@fn file=yarel/src/vm.rs path=Vm::unwind_stack ret=r props=C06
    //@  requires old(self).coherent(), old(self).fiber is Some
    //@  ensures final(self).coherent()
    //@  at body.start proof { self.active.closed_from = 0x7fff_ffff_ffff_ffff; }
    //@  assert @discarded_slots_closed before_stmt "self.active_fiber_mut().stack.truncate(handler.init_stack_size)" self.active.closed_from <= handler.init_stack_size
    //@end
    // `return` inside a try block that has a finally clause: the try block's locals are discarded before the finally runs.
    // (`has_handler`: JumpFinally is only emitted inside a try statement, whose handler is still installed — C08, assumed)
    //@fn file=yarel/src/vm.rs path=Vm::jump_finally_impl props=C06
    //@  requires old(self).coherent(), old(self).fiber is Some, old(self).active.has_handler
    //@  ensures final(self).coherent()
    //@  at body.start proof { self.active.closed_from = 0x7fff_ffff_ffff_ffff; }
    //@  assert @discarded_slots_closed before_stmt "self.active_fiber_mut().stack.truncate(init_stack_size)" self.active.closed_from <= init_stack_size
    //@end
    // End of a failed run (Vm::runtime_error -> reset_stack): the whole value stack of the active fiber is discarded;
    // closures created by the failed snippet may live on in globals.
    //@fn file=yarel/src/vm.rs path=Vm::reset_stack props=C06,C15
    //@  subst "if let Some(fiber) = self.fiber.as_ref() { let mut borrowed_fiber = fiber.borrow_mut();" => "if self.fiber.is_some() { let borrowed_fiber = self.active_fiber_mut();"
    //@  requires old(self).coherent()
    //@  ensures final(self).coherent()
    //@  at body.start proof { self.active.closed_from = 0x7fff_ffff_ffff_ffff; }
    //@  assert @discarded_slots_closed before_stmt "borrowed_fiber.stack.clear()" borrowed_fiber.closed_from <= 0
    //@end
    // CloseUpvalue: the top slot is closed, then popped.
    //@fn file=yarel/src/vm.rs path=Vm::close_upvalue_impl props=C06
    //@  requires old(self).coherent(), old(self).fiber is Some
    //@  ensures final(self).coherent()
    //@  at body.start proof { self.active.closed_from = 0x7fff_ffff_ffff_ffff; }
    //@  assert @popped_slot_closed before_stmt "self.pop()" self.active.closed_from <= self.active.height - 1
    //@end
}

} // verus!
fn main() {}
