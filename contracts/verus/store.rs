//@unit store
//@property C11
// The string intern table (yarel/src/vm.rs, mod string_store) and Vm::new_gc_obj_string.
use vstd::prelude::*;
use std::ops::Deref;
verus! {

global size_of usize == 8;

// ------------------------------------------------------------------ environment stand-ins (assumed)
pub struct ObjClass { }
#[verifier::external_body]
#[verifier::accept_recursive_types(T)]
pub struct Gc<T> { p: core::marker::PhantomData<T> }
impl<T> Clone for Gc<T> { #[verifier::external_body] fn clone(&self) -> (r: Self) ensures r == *self { Gc { p: core::marker::PhantomData } } }
impl<T> Copy for Gc<T> {}
impl<T> Gc<T> { pub uninterp spec fn id(&self) -> int; }   // the allocation a managed pointer designates

// Root<T>: a counted handle to a heap allocation. id() is the allocation's identity, obj() its (immutable) content.
#[verifier::external_body]
#[verifier::accept_recursive_types(T)]
pub struct Root<T> { p: core::marker::PhantomData<T> }
impl<T> Root<T> {
    pub uninterp spec fn id(&self) -> int;
    pub uninterp spec fn obj(&self) -> T;
    #[verifier::external_body]
    pub fn as_gc(&self) -> (g: Gc<T>) ensures g.id() == self.id() { unimplemented!() }
}
impl<T> Deref for Root<T> {
    type Target = T;
    #[verifier::external_body]
    fn deref(&self) -> (r: &T) ensures *r == self.obj() { unimplemented!() }
}
impl<T> Clone for Root<T> {
    // memory.rs Root::clone: same allocation, one more root (counting is checked by Kani, unit memory)
    #[verifier::external_body]
    fn clone(&self) -> (r: Self) ensures r == *self { unimplemented!() }
}

pub assume_specification<T> [std::option::Option::<T>::replace] (o: &mut std::option::Option<T>, v: T) -> (r: std::option::Option<T>)
    ensures r == *old(o), *final(o) == Some(v);

// R12: mem::take on an Option leaves None behind and returns the old value
#[verifier::external_body]
fn mem_take<T>(x: &mut Option<T>) -> (r: Option<T>) ensures r == *old(x), *final(x) is None { std::mem::take(x) }

#[verifier::external_body]
fn string_from_str(s: &str) -> (r: String) ensures r@ == s@ { String::from(s) }

// R2: str == str is byte comparison (std, trusted)
#[verifier::external_body]
fn str_eq(a: &str, b: &str) -> (r: bool) ensures r == (a@ == b@) { a == b }

// R4: `(n as f64 * MAX_LOAD) as usize` with MAX_LOAD = 0.75. Contract closed by Kani on the same expression text
// (unit store_k, complete over all n in range): for n a multiple of 4 up to 2^52 it is exactly 3n/4.
pub open spec fn load_limit_spec(n: int) -> int { 3 * (n / 4) }
#[verifier::external_body]
fn load_limit(n: usize) -> (r: usize)
    requires n % 4 == 0, n <= 0x10_0000_0000_0000,
    ensures r as int == load_limit_spec(n as int),
{ (n as f64 * 0.75) as usize }

//@struct file=yarel/src/object.rs name=ObjString
impl ObjString {
    //@fn file=yarel/src/object.rs path=ObjString::as_str ret=r
    //@  ensures r@ == self.string@
    //@end
}

//@struct file=yarel/src/vm.rs name=string_store::ObjStringStore

// ------------------------------------------------------------------ specification vocabulary (ours)
pub type Key = (u64, Seq<char>);
pub type Slots = Seq<Option<Root<ObjString>>>;
pub open spec fn key_of(e: Root<ObjString>) -> Key { (e.obj().hash, e.obj().string@) }
pub open spec fn home(h: u64, mask: usize) -> int { ((h as usize) & mask) as int }
// cyclic distance from slot `from` forward to slot `to` in a table of n slots
pub open spec fn dist(from: int, to: int, n: int) -> int { if to >= from { to - from } else { to + n - from } }
pub open spec fn mask_ok(mask: usize) -> bool { mask < usize::MAX && (mask & ((mask + 1) as usize)) == 0 }

// every slot at cyclic distance < upto from h is occupied by a key other than k
pub open spec fn other_before(entries: Slots, k: Key, h: int, upto: int) -> bool {
    forall|j: int| 0 <= j < entries.len() && dist(h, j, entries.len() as int) < upto
        ==> (#[trigger] entries[j]).is_some() && key_of(entries[j].unwrap()) != k
}
// probe-chain invariant: an occupied slot is reachable from its key's home slot through occupied slots of other keys
pub open spec fn chain_ok(entries: Slots, mask: usize) -> bool {
    forall|i: int| 0 <= i < entries.len() && (#[trigger] entries[i]).is_some() ==>
        other_before(entries, key_of(entries[i].unwrap()), home(key_of(entries[i].unwrap()).0, mask),
                     dist(home(key_of(entries[i].unwrap()).0, mask), i, entries.len() as int))
}
// number of occupied slots among the first n
pub open spec fn occ(entries: Slots, n: int) -> int
    decreases n
{
    if n <= 0 { 0 } else { occ(entries, n - 1) + (if entries[n - 1].is_some() { 1int } else { 0int }) }
}
// the abstract view: key k is interned as root r
pub open spec fn holds(entries: Slots, k: Key, r: Root<ObjString>) -> bool {
    exists|i: int| 0 <= i < entries.len() && #[trigger] entries[i] == Some(r) && key_of(r) == k
}
pub open spec fn has_key(entries: Slots, k: Key) -> bool { exists|r: Root<ObjString>| holds(entries, k, r) }
// find_index's postcondition as one predicate (so that call sites have a term to trigger lemmas on)
pub open spec fn fi_post(entries: Slots, mask: usize, k: Key, r: int) -> bool {
    &&& 0 <= r < entries.len()
    &&& (entries[r].is_none() || key_of(entries[r].unwrap()) == k)
    &&& other_before(entries, k, home(k.0, mask), dist(home(k.0, mask), r, entries.len() as int))
}

proof fn lemma_succ(i: usize, mask: usize)
    requires mask_ok(mask), i <= mask
    ensures ((i + 1) as usize & mask) == (if i == mask { 0usize } else { (i + 1) as usize })
{
    let m = mask as u64; let x = i as u64;
    assert(m < 0xffff_ffff_ffff_ffffu64 && (m & add(m, 1)) == 0 && x <= m
        ==> (add(x, 1) & m) == (if x == m { 0u64 } else { add(x, 1) })) by(bit_vector);
}
proof fn lemma_home(h: u64, mask: usize)
    ensures 0 <= home(h, mask) <= mask
{
    let m = mask as u64;
    assert((h & m) <= m) by(bit_vector);
}
proof fn lemma_occ_bounds(entries: Slots, n: int)
    requires 0 <= n <= entries.len()
    ensures 0 <= occ(entries, n) <= n, occ(entries, n) == n ==> forall|j: int| 0 <= j < n ==> (#[trigger] entries[j]).is_some()
    decreases n
{
    if n > 0 { lemma_occ_bounds(entries, n - 1); }
}
proof fn lemma_occ_update(entries: Slots, n: int, r: int, v: Option<Root<ObjString>>)
    requires 0 <= n <= entries.len(), 0 <= r < entries.len()
    ensures occ(entries.update(r, v), n) == occ(entries, n)
        + (if r < n { (if v.is_some() { 1int } else { 0int }) - (if entries[r].is_some() { 1int } else { 0int }) } else { 0int })
    decreases n
{
    if n > 0 { lemma_occ_update(entries, n - 1, r, v); }
}

impl ObjStringStore {
    pub open spec fn wf(&self) -> bool {
        &&& self.entries@.len() == self.mask + 1 && mask_ok(self.mask)
        &&& self.entries@.len() % 4 == 0 && 4 <= self.entries@.len() <= 0x8_0000_0000_0000
        &&& chain_ok(self.entries@, self.mask)
        &&& self.size as int == occ(self.entries@, self.entries@.len() as int)
        &&& self.size as int <= load_limit_spec(self.entries@.len() as int)
    }
}

//@fn file=yarel/src/vm.rs path=string_store::find_index ret=r
//@  subst "entry.as_str() == string" => "str_eq(entry.as_str(), string)" count=1
//@  requires entries@.len() == mask + 1, mask_ok(mask)
//@  requires exists|e: int| 0 <= e < entries@.len() && entries@[e].is_none()
//@  ensures r < entries@.len()
//@  ensures entries@[r as int].is_none() || key_of(entries@[r as int].unwrap()) == (key.0, key.1@)
//@  ensures other_before(entries@, (key.0, key.1@), home(key.0, mask), dist(home(key.0, mask), r as int, entries@.len() as int))
//@  ensures fi_post(entries@, mask, (key.0, key.1@), r as int)
//@  at body.start proof { lemma_home(key.0, mask); } let ghost n = entries@.len() as int; let ghost h = home(key.0, mask); let ghost e = choose|e: int| 0 <= e < entries@.len() && entries@[e].is_none(); let ghost k: Key = (key.0, key.1@);
//@  loop 0 invariant entries@.len() == mask + 1, mask_ok(mask), n == entries@.len(), h == home(hash, mask), 0 <= h < n
//@  loop 0 invariant k == (hash, string@), hash == key.0, string@ == key.1@
//@  loop 0 invariant 0 <= e < n, entries@[e].is_none(), index <= mask
//@  loop 0 invariant dist(h, index as int, n) + dist(index as int, e, n) == dist(h, e, n)
//@  loop 0 invariant other_before(entries@, k, h, dist(h, index as int, n))
//@  loop 0 decreases dist(index as int, e, n)
//@  at loop0.start proof { lemma_succ(index, mask); }
//@end

// an empty slot exists whenever fewer slots are occupied than there are slots (pigeonhole)
proof fn lemma_has_empty(entries: Slots)
    requires occ(entries, entries.len() as int) < entries.len()
    ensures exists|e: int| 0 <= e < entries.len() && entries[e].is_none()
{
    lemma_occ_bounds(entries, entries.len() as int);
    if forall|e: int| 0 <= e < entries.len() ==> (#[trigger] entries[e]).is_some() {
        lemma_occ_full(entries, entries.len() as int);
    }
}
proof fn lemma_occ_full(entries: Slots, n: int)
    requires 0 <= n <= entries.len(), forall|e: int| 0 <= e < n ==> (#[trigger] entries[e]).is_some()
    ensures occ(entries, n) == n
    decreases n
{
    if n > 0 { lemma_occ_full(entries, n - 1); }
}
// the probe-chain invariant makes keys unique: a key is held by at most one slot
proof fn lemma_unique(entries: Slots, mask: usize, i: int, j: int)
    requires chain_ok(entries, mask), entries.len() == mask + 1, 0 <= i < entries.len(), 0 <= j < entries.len(),
        entries[i].is_some(), entries[j].is_some(), key_of(entries[i].unwrap()) == key_of(entries[j].unwrap()),
    ensures i == j
{
    let k = key_of(entries[i].unwrap());
    let h = home(k.0, mask);
    lemma_home(k.0, mask);
    let n = entries.len() as int;
    if i != j {
        if dist(h, i, n) < dist(h, j, n) {
            assert(other_before(entries, k, h, dist(h, j, n)));
            assert(entries[i].is_some() && key_of(entries[i].unwrap()) != k);
        } else {
            assert(dist(h, j, n) < dist(h, i, n));
            assert(other_before(entries, k, h, dist(h, i, n)));
            assert(entries[j].is_some() && key_of(entries[j].unwrap()) != k);
        }
    }
}
// what find_index's answer means for the abstract view
proof fn lemma_found(entries: Slots, mask: usize, k: Key, r: int)
    requires chain_ok(entries, mask), entries.len() == mask + 1, 0 <= r < entries.len(),
        entries[r].is_none() || key_of(entries[r].unwrap()) == k,
        other_before(entries, k, home(k.0, mask), dist(home(k.0, mask), r, entries.len() as int)),
    ensures
        entries[r].is_none() ==> !has_key(entries, k),
        entries[r].is_some() ==> holds(entries, k, entries[r].unwrap()),
        forall|x: Root<ObjString>| holds(entries, k, x) ==> entries[r] == Some(x),
{
    let h = home(k.0, mask);
    lemma_home(k.0, mask);
    let n = entries.len() as int;
    assert forall|x: Root<ObjString>| holds(entries, k, x) implies entries[r] == Some(x) by {
        let i = choose|i: int| 0 <= i < entries.len() && #[trigger] entries[i] == Some(x) && key_of(x) == k;
        if i != r {
            if dist(h, i, n) < dist(h, r, n) {
                assert(entries[i].is_some() && key_of(entries[i].unwrap()) != k);
            } else {
                assert(dist(h, r, n) < dist(h, i, n));
                assert(other_before(entries, k, h, dist(h, i, n)));
                assert(entries[r].is_some() && key_of(entries[r].unwrap()) != k);
            }
        }
    }
    if entries[r].is_some() { assert(entries[r] == Some(entries[r].unwrap())); }
}
// writing a root with key k into the slot find_index returned keeps the chain invariant
proof fn lemma_put(entries: Slots, mask: usize, v: Root<ObjString>, r: int)
    requires chain_ok(entries, mask), entries.len() == mask + 1, 0 <= r < entries.len(),
        entries[r].is_none() || key_of(entries[r].unwrap()) == key_of(v),
        other_before(entries, key_of(v), home(key_of(v).0, mask), dist(home(key_of(v).0, mask), r, entries.len() as int)),
    ensures
        chain_ok(entries.update(r, Some(v)), mask),
        holds(entries.update(r, Some(v)), key_of(v), v),
        forall|k: Key, x: Root<ObjString>| k != key_of(v) ==> (holds(entries.update(r, Some(v)), k, x) <==> holds(entries, k, x)),
        forall|x: Root<ObjString>| holds(entries.update(r, Some(v)), key_of(v), x) ==> x == v,
{
    let e2 = entries.update(r, Some(v));
    let kv = key_of(v);
    let n = entries.len() as int;
    lemma_home(kv.0, mask);
    assert forall|i: int| 0 <= i < e2.len() && (#[trigger] e2[i]).is_some() implies
        other_before(e2, key_of(e2[i].unwrap()), home(key_of(e2[i].unwrap()).0, mask), dist(home(key_of(e2[i].unwrap()).0, mask), i, n)) by {
        let ki = key_of(e2[i].unwrap());
        let hi = home(ki.0, mask);
        lemma_home(ki.0, mask);
        if i == r {
            assert forall|j: int| 0 <= j < e2.len() && dist(hi, j, n) < dist(hi, i, n) implies (#[trigger] e2[j]).is_some() && key_of(e2[j].unwrap()) != ki by {
                assert(j != r);
                assert(entries[j].is_some() && key_of(entries[j].unwrap()) != kv);
            }
        } else {
            assert(entries[i].is_some());
            assert(other_before(entries, ki, hi, dist(hi, i, n)));
            assert forall|j: int| 0 <= j < e2.len() && dist(hi, j, n) < dist(hi, i, n) implies (#[trigger] e2[j]).is_some() && key_of(e2[j].unwrap()) != ki by {
                assert(entries[j].is_some() && key_of(entries[j].unwrap()) != ki);
                if j == r { assert(key_of(entries[r].unwrap()) == kv); }
            }
        }
    }
    assert(e2[r] == Some(v));
    assert forall|k: Key, x: Root<ObjString>| k != kv implies (holds(e2, k, x) <==> holds(entries, k, x)) by {
        if holds(e2, k, x) {
            let i = choose|i: int| 0 <= i < e2.len() && #[trigger] e2[i] == Some(x) && key_of(x) == k;
            assert(i != r);
            assert(entries[i] == Some(x));
        }
        if holds(entries, k, x) {
            let i = choose|i: int| 0 <= i < entries.len() && #[trigger] entries[i] == Some(x) && key_of(x) == k;
            assert(i != r);
            assert(e2[i] == Some(x));
        }
    }
    assert forall|x: Root<ObjString>| holds(e2, kv, x) implies x == v by {
        let i = choose|i: int| 0 <= i < e2.len() && #[trigger] e2[i] == Some(x) && key_of(x) == kv;
        lemma_unique(e2, mask, i, r);
    }
}

impl ObjStringStore {
    //@fn file=yarel/src/vm.rs path=string_store::ObjStringStore::get ret=r
    //@  requires self.wf()
    //@  ensures r matches Some(root) ==> holds(self.entries@, (key.0, key.1@), *root)
    //@  ensures r is None ==> !has_key(self.entries@, (key.0, key.1@))
    //@  at body.start proof { lemma_occ_bounds(self.entries@, self.entries@.len() as int); lemma_has_empty(self.entries@); let k: Key = (key.0, key.1@); assert forall|r: int| #[trigger] fi_post(self.entries@, self.mask, k, r) implies (self.entries@[r].is_none() ==> !has_key(self.entries@, k)) && (self.entries@[r].is_some() ==> holds(self.entries@, k, self.entries@[r].unwrap())) by { lemma_found(self.entries@, self.mask, k, r); } }
    //@end
}

// the abstract view is preserved (same keys, same roots) — used for the resize
pub open spec fn same_view(a: Slots, b: Slots) -> bool {
    forall|k: Key, x: Root<ObjString>| holds(a, k, x) <==> holds(b, k, x)
}

impl ObjStringStore {
    //@fn file=yarel/src/vm.rs path=string_store::ObjStringStore::insert ret=r
    //@  subst "(self.entries.len() as f64 * MAX_LOAD) as usize" => "load_limit(self.entries.len())" count=1
    //@  requires old(self).wf(), old(self).entries@.len() <= 0x4_0000_0000_0000
    //@  ensures final(self).wf()
    //@  ensures holds(final(self).entries@, key_of(value), value)
    //@  ensures forall|x: Root<ObjString>| holds(final(self).entries@, key_of(value), x) ==> x == value
    //@  ensures forall|k: Key, x: Root<ObjString>| k != key_of(value) ==> (holds(final(self).entries@, k, x) <==> holds(old(self).entries@, k, x))
    //@  ensures r matches Some(prev) ==> holds(old(self).entries@, key_of(value), prev)
    //@  ensures r is None ==> !has_key(old(self).entries@, key_of(value))
    //@  before_stmt "let key =" let ghost mid = self.entries@; proof { lemma_occ_bounds(mid, mid.len() as int); lemma_has_empty(mid); }
    //@  after_stmt "let index =" proof { lemma_found(mid, self.mask, key_of(value), index as int); lemma_put(mid, self.mask, value, index as int); lemma_occ_update(mid, mid.len() as int, index as int, Some(value)); }
    //@end

    // resize: every root moves (not cloned) to its slot in the larger table; the abstract view is unchanged
    //@fn file=yarel/src/vm.rs path=string_store::ObjStringStore::adjust_capacity
    //@  rewrite R3 R12
    //@  requires old(self).wf(), new_capacity == 2 * old(self).entries@.len(), old(self).entries@.len() <= 0x4_0000_0000_0000
    //@  ensures final(self).wf(), final(self).entries@.len() == new_capacity, final(self).size == old(self).size
    //@  ensures same_view(old(self).entries@, final(self).entries@)
    //@  at body.start let ghost old_e = self.entries@; let ghost old_mask = self.mask; proof { lemma_mask_double(self.mask); }
    //@  loop 0 iter it
    //@  loop 0 invariant it.seq().len() == old_e.len(), forall|i: int| it.index@ <= i < old_e.len() ==> *(#[trigger] it.seq()[i]) == old_e[i]
    //@  loop 0 invariant new_entries@.len() == new_capacity, new_capacity == mask + 1, mask_ok(mask), new_capacity == 2 * old_e.len(), chain_ok(new_entries@, mask)
    //@  loop 0 invariant chain_ok(old_e, old_mask), old_e.len() == old_mask + 1, self.size as int == occ(old_e, old_e.len() as int), self.size == old(self).size, self.mask == old_mask
    //@  loop 0 invariant occ(new_entries@, new_capacity as int) == occ(old_e, it.index@ as int)
    //@  loop 0 invariant forall|k: Key, x: Root<ObjString>| holds(new_entries@, k, x) <==> holds_prefix(old_e, it.index@ as int, k, x)
    //@  before_stmt "let index =" proof { lemma_occ_mono(old_e, it.index@ as int, old_e.len() as int); lemma_occ_bounds(old_e, old_e.len() as int); lemma_has_empty(new_entries@); }
    //@  after_stmt "let index =" let ghost v = old_e[it.index@ as int].unwrap(); let ghost before = new_entries@; proof { lemma_found(before, mask, key_of(v), index as int); if before[index as int].is_some() { let x = before[index as int].unwrap(); assert(holds_prefix(old_e, it.index@ as int, key_of(v), x)); let i0 = choose|i0: int| 0 <= i0 < it.index@ && #[trigger] old_e[i0] == Some(x) && key_of(x) == key_of(v); lemma_unique(old_e, old_mask, i0, it.index@ as int); } lemma_put(before, mask, v, index as int); lemma_occ_update(before, before.len() as int, index as int, Some(v)); lemma_prefix_step(old_e, it.index@ as int); }
    //@  after_stmt "*dest =" proof { assert(new_entries@ =~= before.update(index as int, Some(v))); assert(!has_key(before, key_of(v))); assert forall|k: Key, x: Root<ObjString>| holds(new_entries@, k, x) <==> holds_prefix(old_e, it.index@ as int + 1, k, x) by { if k == key_of(v) { assert(!holds(before, k, x)); assert(!holds_prefix(old_e, it.index@ as int, k, x)); if holds(new_entries@, k, x) { assert(x == v); } } else { assert(holds(new_entries@, k, x) <==> holds(before, k, x)); } } }
    //@  at loop0.end proof { lemma_prefix_step(old_e, it.index@ as int); }
    //@  before_stmt "for entry in" proof { lemma_occ_none(new_entries@, new_capacity as int); }
    //@  before_stmt "self.entries =" proof { lemma_prefix_all(old_e); }
    //@end
}

// key k is interned as x in one of the first n slots
pub open spec fn holds_prefix(entries: Slots, n: int, k: Key, x: Root<ObjString>) -> bool {
    exists|i: int| 0 <= i < n && i < entries.len() && #[trigger] entries[i] == Some(x) && key_of(x) == k
}
proof fn lemma_prefix_step(entries: Slots, n: int)
    requires 0 <= n < entries.len()
    ensures
        entries[n].is_none() ==> forall|k: Key, x: Root<ObjString>| holds_prefix(entries, n + 1, k, x) <==> holds_prefix(entries, n, k, x),
        entries[n].is_some() ==> forall|k: Key, x: Root<ObjString>| holds_prefix(entries, n + 1, k, x) <==> (holds_prefix(entries, n, k, x) || (entries[n] == Some(x) && key_of(x) == k)),
        occ(entries, n + 1) == occ(entries, n) + (if entries[n].is_some() { 1int } else { 0int }),
{
    assert forall|k: Key, x: Root<ObjString>| holds_prefix(entries, n + 1, k, x) implies (holds_prefix(entries, n, k, x) || (entries[n] == Some(x) && key_of(x) == k)) by {
        let i = choose|i: int| 0 <= i < n + 1 && i < entries.len() && #[trigger] entries[i] == Some(x) && key_of(x) == k;
        if i < n { assert(holds_prefix(entries, n, k, x)); }
    }
    assert forall|k: Key, x: Root<ObjString>| holds_prefix(entries, n, k, x) implies holds_prefix(entries, n + 1, k, x) by {
        let i = choose|i: int| 0 <= i < n && i < entries.len() && #[trigger] entries[i] == Some(x) && key_of(x) == k;
        assert(0 <= i < n + 1);
    }
    assert forall|k: Key, x: Root<ObjString>| (entries[n] == Some(x) && key_of(x) == k) implies #[trigger] holds_prefix(entries, n + 1, k, x) by { }
}
proof fn lemma_prefix_all(entries: Slots)
    ensures forall|k: Key, x: Root<ObjString>| holds_prefix(entries, entries.len() as int, k, x) <==> holds(entries, k, x)
{
}
proof fn lemma_occ_none(entries: Slots, n: int)
    requires 0 <= n <= entries.len(), forall|i: int| 0 <= i < n ==> (#[trigger] entries[i]).is_none()
    ensures occ(entries, n) == 0
    decreases n
{
    if n > 0 { lemma_occ_none(entries, n - 1); }
}
proof fn lemma_occ_mono(entries: Slots, a: int, b: int)
    requires 0 <= a <= b <= entries.len()
    ensures occ(entries, a) <= occ(entries, b)
    decreases b - a
{
    if a < b { lemma_occ_mono(entries, a, b - 1); }
}
proof fn lemma_mask_double(mask: usize)
    requires mask_ok(mask), mask < 0x4_0000_0000_0000
    ensures mask_ok((2 * (mask + 1) - 1) as usize)
{
    let m = mask as u64;
    assert(m < 0x4_0000_0000_0000u64 && (m & add(m, 1)) == 0 ==> (sub(mul(2, add(m, 1)), 1) & add(sub(mul(2, add(m, 1)), 1), 1)) == 0) by(bit_vector);
}

impl ObjStringStore {
    //@fn file=yarel/src/vm.rs path="string_store::<Default for ObjStringStore>::default" ret=r
    //@  subst "entries: vec![Default::default(); INIT_CAPACITY]," => "entries: vec![None; INIT_CAPACITY]," count=1
    //@  ensures r.wf(), forall|k: Key, x: Root<ObjString>| !holds(r.entries@, k, x)
    //@  at body.start proof { assert((3usize & 4usize) == 0) by(bit_vector); assert forall|e: Slots| e.len() == 4 && (forall|i: int| 0 <= i < 4 ==> (#[trigger] e[i]).is_none()) implies #[trigger] occ(e, 4) == 0 by { lemma_occ_none(e, 4); } }
    //@end
}
//@const file=yarel/src/vm.rs name=string_store::INIT_CAPACITY


// ------------------------------------------------------------------ FNV-1a (hash.rs): the string hash is a function of the byte sequence alone
//@struct file=yarel/src/hash.rs name=FnvHasher
pub open spec fn fnv_step(h: u64, c: u8) -> u64 { (((h ^ (c as u64)) as u128 * 16777619) as u64) }
pub open spec fn fnv_fold(h: u64, bytes: Seq<u8>) -> u64
    decreases bytes.len()
{
    if bytes.len() == 0 { h } else { fnv_fold(fnv_step(h, bytes[0]), bytes.subrange(1, bytes.len() as int)) }
}
proof fn lemma_fnv_fold_snoc(h: u64, bytes: Seq<u8>, c: u8)
    ensures fnv_fold(h, bytes.push(c)) == fnv_step(fnv_fold(h, bytes), c)
    decreases bytes.len()
{
    let b2 = bytes.push(c);
    if bytes.len() == 0 {
        assert(b2.subrange(1, 1) =~= Seq::<u8>::empty());
        assert(b2[0] == c);
        assert(fnv_fold(h, b2) == fnv_fold(fnv_step(h, c), b2.subrange(1, 1)));
        assert(fnv_fold(fnv_step(h, c), Seq::<u8>::empty()) == fnv_step(h, c));
        assert(fnv_fold(h, bytes) == h);
    } else {
        let tail = bytes.subrange(1, bytes.len() as int);
        assert(b2.subrange(1, b2.len() as int) =~= tail.push(c));
        assert(b2[0] == bytes[0]);
        lemma_fnv_fold_snoc(fnv_step(h, bytes[0]), tail, c);
        assert(fnv_fold(h, b2) == fnv_fold(fnv_step(h, bytes[0]), tail.push(c)));
        assert(fnv_fold(h, bytes) == fnv_fold(fnv_step(h, bytes[0]), tail));
    }
}
impl FnvHasher {
    //@fn file=yarel/src/hash.rs path="<Hasher for FnvHasher>::write"
    //@  ensures final(self).hash == fnv_fold(old(self).hash, msg@)
    //@  loop 0 iter it
    //@  loop 0 invariant it.seq().len() == msg@.len(), forall|j: int| 0 <= j < msg@.len() ==> *it.seq()[j] == msg@[j]
    //@  loop 0 invariant self.hash == fnv_fold(old(self).hash, msg@.subrange(0, it.index@ as int))
    //@  before_stmt "for c in" proof { assert(msg@.subrange(0, 0) =~= Seq::<u8>::empty()); }
    //@  at loop0.start let ghost h0 = self.hash;
    //@  at loop0.end proof { lemma_fnv_fold_snoc(old(self).hash, msg@.subrange(0, it.index@ as int), *c); assert(msg@.subrange(0, it.index@ as int).push(*c) =~= msg@.subrange(0, it.index@ as int + 1)); }
    //@  at body.end proof { assert(msg@.subrange(0, msg@.len() as int) =~= msg@); }
    //@end
    //@fn file=yarel/src/hash.rs path="<Default for FnvHasher>::default" ret=r
    //@  ensures r.hash == 2166136261
    //@end
}

// ------------------------------------------------------------------ Vm::new_gc_obj_string
// FNV-1a over the bytes of the str (hash.rs FnvHasher + std `impl Hash for str`): a function of the byte sequence.
// Determinism/totality of FnvHasher::write is checked by Kani (unit hashk, bounded length); std's Hash for str is trusted.
pub uninterp spec fn fnv_spec(s: Seq<char>) -> u64;
#[verifier::external_body]
fn fnv_hash_str(data: &str) -> (r: u64) ensures r == fnv_spec(data@) { unimplemented!() }

impl<T> Root<T> {
    // Heap allocation of a new rooted object (memory.rs Root::new -> Heap::allocate_root)
    #[verifier::external_body]
    pub fn new(data: T) -> (r: Root<T>) ensures r.obj() == data { unimplemented!() }
}
impl ObjString {
    //@fn file=yarel/src/object.rs path=ObjString::new ret=r
    //@  subst "String::from(string)" => "string_from_str(string)" count=1
    //@  ensures r.string@ == string@ && r.hash == hash && r.class == class
    //@end
}

//@struct file=yarel/src/vm.rs name=Vm keepfields=string_class,string_store map "string_store::ObjStringStore" => "ObjStringStore"

// the key under which a byte string is interned
pub open spec fn skey(data: Seq<char>) -> Key { (fnv_spec(data), data) }

impl Vm {
    //@fn file=yarel/src/vm.rs path=Vm::new_gc_obj_string ret=r
    //@  subst "{ let mut hasher = FnvHasher::new(); (*data).hash(&mut hasher); hasher.finish() }" => "fnv_hash_str(data)" count=1
    //@  subst ".expect(\"Expected Root.\")" => ".unwrap()" count=1
    //@  requires old(self).string_store.wf(), old(self).string_store.entries@.len() <= 0x4_0000_0000_0000, old(self).string_class is Some
    //@  ensures final(self).string_store.wf()
    //@  ensures exists|x: Root<ObjString>| holds(final(self).string_store.entries@, skey(data@), x) && x.id() == r.id() && x.obj().string@ == data@
    //@  ensures forall|x: Root<ObjString>| holds(old(self).string_store.entries@, skey(data@), x) ==> x.id() == r.id()
    //@  ensures forall|k: Key, x: Root<ObjString>| holds(old(self).string_store.entries@, k, x) ==> holds(final(self).string_store.entries@, k, x)
    //@  ensures forall|k: Key, x: Root<ObjString>| k != skey(data@) ==> (holds(final(self).string_store.entries@, k, x) <==> holds(old(self).string_store.entries@, k, x))
    //@  ensures has_key(old(self).string_store.entries@, skey(data@)) ==> final(self).string_store.entries@ == old(self).string_store.entries@
    //@end
}

// ------------------------------------------------------------------ C11 itself, as a lemma over the contract of new_gc_obj_string only
// Allocator assumption: one heap cell holds one object, so equal identities mean equal contents.
pub broadcast axiom fn axiom_id_determines_obj(a: Root<ObjString>, b: Root<ObjString>)
    requires #[trigger] a.id() == #[trigger] b.id()
    ensures a.obj() == b.obj();

// Two strings created at any two points of a history (s1: store after the first creation, s2: store before the second,
// reached from s1 by any number of further creations, which only add keys) are the same object iff their bytes are equal.
// C11 speaks about every string "however it was produced": that holds only if the intern table is the one place where
// string objects are made. A frame condition on the crate, decided from the call sites as they stand on this run
// (ObjString's fields are private to object.rs, so `ObjString::new` is the only way to build one):
//@callsites file=yarel/src/vm.rs,yarel/src/core.rs,yarel/src/object.rs,yarel/src/value.rs,yarel/src/compiler.rs,yarel/src/memory.rs impl=* name=objstring_new pattern="ObjString\s*::\s*new\s*\(|ObjString\s*\{" allowed=Vm::new_gc_obj_string,ObjString::new
//@lemma name=every_string_object_is_made_by_the_intern_table props=C11
pub proof fn every_string_object_is_made_by_the_intern_table() ensures UNEXPECTED_CALLERS_OF_OBJSTRING_NEW == 0 {}

//@lemma name=lemma_c11_identity_iff_content props=C11
proof fn lemma_c11_identity_iff_content(s1: Slots, s2: Slots, s3: Slots, d1: Seq<char>, d2: Seq<char>, x1: Root<ObjString>, x2: Root<ObjString>, id1: int, id2: int)
    requires
        // post of the first call (result id1) on s1
        holds(s1, skey(d1), x1) && x1.id() == id1 && x1.obj().string@ == d1,
        // creations in between never remove or re-home an interned string (post#4 of every call)
        forall|k: Key, x: Root<ObjString>| holds(s1, k, x) ==> holds(s2, k, x),
        // post of the second call (s2 -> s3, result id2)
        holds(s3, skey(d2), x2) && x2.id() == id2 && x2.obj().string@ == d2,
        forall|x: Root<ObjString>| holds(s2, skey(d2), x) ==> x.id() == id2,
    ensures
        d1 == d2 ==> id1 == id2,
        d1 != d2 ==> id1 != id2,
{
    broadcast use axiom_id_determines_obj;
    if d1 == d2 {
        assert(holds(s2, skey(d2), x1));
    } else {
        if id1 == id2 {
            assert(x1.obj() == x2.obj());
        }
    }
}

} // verus!
fn main() {}
