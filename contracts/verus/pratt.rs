//@unit pratt
//@property C05,C03
// "expressions group by the language's precedence and associativity, evaluate their operands once and left to right"
// (C05) and "compiling any source text terminates ... never panics" (C03), as far as the Pratt core is concerned:
// yarel/src/compiler.rs Parser::parse_precedence, expression, binary, unary, dotdot and the table RULES.
//
// The table `const RULES: [ParseRule; 72]` is indexed by `kind as usize`. Its rows are turned mechanically, on every
// run, into three spec functions over TokenKind (row i <-> i-th variant); the function pointers are kept as names.
// Nested parsing (prefix and infix handlers, which call back into parse_precedence) is by contract: a handler appends
// code, records the level it asked for, never un-consumes a token.
use vstd::prelude::*;
verus! {

global size_of usize == 8;

//@enum file=yarel/src/chunk.rs name=OpCode discr=opcode_byte
//@enum file=yarel/src/scanner.rs name=TokenKind eq=1
//@enum file=yarel/src/compiler.rs name=Precedence discr=prec_index
#[verifier::external_body]
fn opcode_u8(op: OpCode) -> (r: u8) ensures r == opcode_byte(op) { op as u8 }
// `p as usize` on the fieldless enum (R21: discriminant = declaration order, generated above)
#[verifier::external_body]
fn prec_usize(p: Precedence) -> (r: usize) ensures r == prec_index(p) { p as usize }

//@const file=yarel/src/common.rs name=NESTING_MAX
//@rules file=yarel/src/compiler.rs name=RULES enum_file=yarel/src/scanner.rs enum=TokenKind

// ------------------------------------------------------------------ obligations on the table itself
// `&RULES[kind as usize]` must be in range for every token kind (C03: a token kind without a row is a host panic)
//@lemma name=rules_table_has_one_row_per_token_kind props=C03
pub proof fn rules_table_has_one_row_per_token_kind() ensures RULE_ROWS == TOKEN_KINDS {}

// parse_precedence's loop runs `infix_rule.unwrap()` for every token whose row has a precedence above None
//@lemma name=every_binding_token_has_an_infix_handler props=C03
pub proof fn every_binding_token_has_an_infix_handler(k: TokenKind)
    ensures !(rule_precedence(k) is None) ==> rule_infix(k) is Some
{}

// Parser::binary asks for `Precedence::from(p as usize + 1)`, which panics above Primary
//@lemma name=binary_operators_have_a_next_level props=C03
pub proof fn binary_operators_have_a_next_level(k: TokenKind)
    ensures rule_infix(k) == Some(ParseFnName::binary) ==> prec_index(rule_precedence(k)) < prec_index(Precedence::Primary)
{}

// the end of the token stream binds nothing: the operator loop stops there (termination of parse_precedence)
//@lemma name=end_of_input_binds_nothing props=C03
pub proof fn end_of_input_binds_nothing()
    ensures rule_precedence(TokenKind::Eof) is None, rule_precedence(TokenKind::Error) is None
{}

// `impl From<usize> for Precedence`: the inverse of the cast, a host panic outside 0..=15
//@fn file=yarel/src/compiler.rs path="<From for Precedence>::from" obname=Precedence::from ret=r
//@  rewrite R26
//@  sig "fn from(value: usize) -> Self" => "fn precedence_from(value: usize) -> Precedence"
//@  subst "_ => panic!(\"Unknown precedence {}\", value)," => "_ => verif_panic(),"
//@  requires value <= prec_index(Precedence::Primary)
//@  ensures prec_index(r) == value
//@end
#[verifier::external_body]
fn verif_panic() -> (r: Precedence) requires false { unimplemented!() }

// ------------------------------------------------------------------ the parser's recursion, by call sites
// The termination argument below models every statement parser except if_statement as "recurses only through block() /
// parse_precedence()". That is a frame condition on compiler.rs, decided from the call sites as they stand on this run:
//@callsites file=yarel/src/compiler.rs impl=Parser callee=statement allowed=declaration,if_statement
//@callsites file=yarel/src/compiler.rs impl=Parser callee=declaration allowed=block,parse
//@callsites file=yarel/src/compiler.rs impl=Parser callee=if_statement allowed=statement
//@lemma name=statement_level_recursion_enters_only_where_it_is_counted props=C03
pub proof fn statement_level_recursion_enters_only_where_it_is_counted()
    ensures UNEXPECTED_CALLERS_OF_STATEMENT == 0, UNEXPECTED_CALLERS_OF_DECLARATION == 0, UNEXPECTED_CALLERS_OF_IF_STATEMENT == 0
{}

pub struct Token { pub kind: TokenKind }
#[verifier::external_body]
#[verifier::accept_recursive_types(T)]
pub struct Root<T> { p: core::marker::PhantomData<T> }
pub struct ObjFunction { }
pub struct Error { }
// one row of the table, as seen by the extracted code
pub struct ParseRule { pub prefix: Option<ParseFnName>, pub infix: Option<ParseFnName>, pub precedence: Precedence }

//@struct file=yarel/src/compiler.rs name=Parser keepfields=current,previous,single_target_mode,nesting map "Parser<'a>" => "Parser" addfield "pub code: Vec<u8>" addfield "pub ghost tokens_left: nat" addfield "pub ghost parsed_at: Seq<Precedence>" addfield "pub ghost bound: Seq<TokenKind>" addfield "pub ghost had_error: bool" addfield "pub ghost ended_code: Map<int, int>" addfield "pub ghost ended_tokens: Map<int, nat>"

pub open spec fn prefix_of<T>(a: Seq<T>, b: Seq<T>) -> bool { a.len() <= b.len() && forall|j: int| 0 <= j < a.len() ==> #[trigger] b[j] == a[j] }
// `ended_code[n]` / `ended_tokens[n]`: code length and tokens left when the parse_precedence call logged at parsed_at[n] returned
pub open spec fn ends_kept(n: int, a: Map<int, int>, at: Map<int, nat>, b: Map<int, int>, bt: Map<int, nat>) -> bool {
    &&& (forall|k: int| 0 <= k < n && #[trigger] a.dom().contains(k) ==> b.dom().contains(k) && b[k] == a[k])
    &&& (forall|k: int| 0 <= k < n && #[trigger] at.dom().contains(k) ==> bt.dom().contains(k) && bt[k] == at[k])
}
pub open spec fn next_level(p: Precedence) -> int { prec_index(p) as int + 1 }

impl Parser {
    // what nested parsing may do: append code, consume tokens, report errors
    pub open spec fn extends(&self, o: &Parser) -> bool {
        &&& self.code@.len() <= o.code@.len()
        &&& (forall|j: int| 0 <= j < self.code@.len() ==> #[trigger] o.code@[j] == self.code@[j])
        &&& o.tokens_left <= self.tokens_left
        &&& (self.had_error ==> o.had_error)
    }
    pub proof fn lemma_extends_trans(a: &Parser, b: &Parser, c: &Parser)
        requires a.extends(b), b.extends(c)
        ensures a.extends(c)
    {
        assert forall|j: int| 0 <= j < a.code@.len() implies #[trigger] c.code@[j] == a.code@[j] by { assert(b.code@[j] == a.code@[j]); }
    }
    // the token stream: `current` is Eof exactly when nothing is left; advancing consumes one token unless at the end
    pub open spec fn stream_ok(&self) -> bool { (self.current.kind is Eof) <==> self.tokens_left == 0 }

    #[verifier::external_body]
    fn advance(&mut self)
        requires old(self).stream_ok()
        ensures final(self).stream_ok(), final(self).previous.kind == old(self).current.kind,
            final(self).tokens_left == (if old(self).tokens_left > 0 { (old(self).tokens_left - 1) as nat } else { 0 }),
            final(self).code == old(self).code, final(self).parsed_at == old(self).parsed_at, final(self).ended_code == old(self).ended_code, final(self).ended_tokens == old(self).ended_tokens, final(self).bound == old(self).bound,
            final(self).single_target_mode == old(self).single_target_mode, final(self).nesting == old(self).nesting, old(self).had_error ==> final(self).had_error,
    { unimplemented!() }
    //@fn file=yarel/src/compiler.rs path=Parser::check ret=r
    //@  ensures r == (self.current.kind == kind)
    //@end
    // match_token: consumes the current token iff it is of the given kind
    //@fn file=yarel/src/compiler.rs path=Parser::match_token ret=r
    //@  requires old(self).stream_ok()
    //@  ensures final(self).stream_ok(), old(self).extends(final(self)), final(self).code == old(self).code, final(self).parsed_at == old(self).parsed_at, final(self).ended_code == old(self).ended_code, final(self).ended_tokens == old(self).ended_tokens, final(self).bound == old(self).bound
    //@  ensures final(self).single_target_mode == old(self).single_target_mode, final(self).nesting == old(self).nesting
    //@  ensures r == (old(self).current.kind == kind)
    //@  ensures !r ==> final(self).current == old(self).current && final(self).tokens_left == old(self).tokens_left && final(self).previous == old(self).previous && final(self).had_error == old(self).had_error
    //@  ensures @a_matched_token_is_consumed r ==> final(self).tokens_left == (if old(self).tokens_left > 0 { (old(self).tokens_left - 1) as nat } else { 0 })
    //@end
    #[verifier::external_body]
    fn error(&mut self, message: &str)
        ensures final(self).had_error, final(self).code == old(self).code, final(self).tokens_left == old(self).tokens_left, final(self).current == old(self).current,
            final(self).previous == old(self).previous, final(self).parsed_at == old(self).parsed_at, final(self).ended_code == old(self).ended_code, final(self).ended_tokens == old(self).ended_tokens, final(self).bound == old(self).bound, final(self).single_target_mode == old(self).single_target_mode, final(self).nesting == old(self).nesting,
    { unimplemented!() }
    #[verifier::external_body]
    fn error_at_current(&mut self, message: &str)
        ensures final(self).had_error, final(self).code == old(self).code, final(self).tokens_left == old(self).tokens_left, final(self).current == old(self).current,
            final(self).previous == old(self).previous, final(self).parsed_at == old(self).parsed_at, final(self).ended_code == old(self).ended_code, final(self).ended_tokens == old(self).ended_tokens, final(self).bound == old(self).bound, final(self).single_target_mode == old(self).single_target_mode, final(self).nesting == old(self).nesting,
    { unimplemented!() }
    #[verifier::external_body]
    fn emit_byte(&mut self, byte: u8)
        ensures final(self).code@ == old(self).code@.push(byte), final(self).tokens_left == old(self).tokens_left, final(self).current == old(self).current, final(self).previous == old(self).previous,
            final(self).parsed_at == old(self).parsed_at, final(self).ended_code == old(self).ended_code, final(self).ended_tokens == old(self).ended_tokens, final(self).bound == old(self).bound, final(self).had_error == old(self).had_error, final(self).single_target_mode == old(self).single_target_mode, final(self).nesting == old(self).nesting,
    { unimplemented!() }
    #[verifier::external_body]
    fn emit_bytes(&mut self, bytes: [u8; 2])
        ensures final(self).code@ == old(self).code@.push(bytes[0]).push(bytes[1]), final(self).tokens_left == old(self).tokens_left, final(self).current == old(self).current, final(self).previous == old(self).previous,
            final(self).parsed_at == old(self).parsed_at, final(self).ended_code == old(self).ended_code, final(self).ended_tokens == old(self).ended_tokens, final(self).bound == old(self).bound, final(self).had_error == old(self).had_error, final(self).single_target_mode == old(self).single_target_mode, final(self).nesting == old(self).nesting,
    { unimplemented!() }

    // `&RULES[kind as usize]`: by the generated table (in range: rules_table_has_one_row_per_token_kind)
    #[verifier::external_body]
    fn get_rule(&self, kind: TokenKind) -> (r: &ParseRule)
        ensures r.prefix == rule_prefix(kind), r.infix == rule_infix(kind), r.precedence == rule_precedence(kind)
    { unimplemented!() }
    // calling through the table's function pointers (prefix handler of the token just consumed / infix handler): the
    // handler is some parsing function; it appends code and may consume tokens
    #[verifier::external_body]
    fn call_prefix(&mut self, handler: &ParseFnName, can_assign: bool)
        requires old(self).stream_ok(), 1 <= old(self).nesting <= NESTING_MAX
        ensures final(self).stream_ok(), old(self).extends(final(self)), final(self).bound == old(self).bound, final(self).single_target_mode == old(self).single_target_mode, final(self).nesting == old(self).nesting,
            prefix_of(old(self).parsed_at, final(self).parsed_at),
            ends_kept(old(self).parsed_at.len() as int, old(self).ended_code, old(self).ended_tokens, final(self).ended_code, final(self).ended_tokens),
    { unimplemented!() }
    #[verifier::external_body]
    fn call_infix(&mut self, handler: Option<ParseFnName>, can_assign: bool)
        requires old(self).stream_ok(), handler is Some, 1 <= old(self).nesting <= NESTING_MAX
        ensures final(self).stream_ok(), old(self).extends(final(self)), final(self).bound == old(self).bound.push(old(self).previous.kind), final(self).single_target_mode == old(self).single_target_mode, final(self).nesting == old(self).nesting,
            prefix_of(old(self).parsed_at, final(self).parsed_at),
            ends_kept(old(self).parsed_at.len() as int, old(self).ended_code, old(self).ended_tokens, final(self).ended_code, final(self).ended_tokens),
    { unimplemented!() }

    // The operator loop: an infix operator is bound by THIS call only if its table level is at least the requested
    // level; when the call returns, the next token binds more weakly than requested (or an error is on record).
    //@fn file=yarel/src/compiler.rs path=Parser::parse_operand_and_operators
    //@  rewrite R21
    //@  subst "self.get_rule(self.current.kind).precedence as usize" => "prec_usize(self.get_rule(self.current.kind).precedence)"
    //@  subst "Precedence::Assignment as usize" => "prec_usize(Precedence::Assignment)"
    //@  subst "precedence as usize" => "prec_usize(precedence)"
    //@  subst "Some(ref handler) => handler(self, can_assign)," => "Some(ref handler) => self.call_prefix(handler, can_assign),"
    //@  subst "infix_rule.unwrap()(self, can_assign);" => "self.call_infix(infix_rule, can_assign);"
    //@  requires old(self).stream_ok(), prec_index(precedence) >= prec_index(Precedence::Assignment), 1 <= old(self).nesting <= NESTING_MAX
    //@  at body.start let ghost b0 = self.bound.len(); let ghost n0 = self.parsed_at.len() as int; proof { self.parsed_at = self.parsed_at.push(precedence); }
    //@  before_stmt "return;#*" proof { self.ended_code = self.ended_code.insert(n0, self.code@.len() as int); self.ended_tokens = self.ended_tokens.insert(n0, self.tokens_left); }
    //@  at body.end proof { self.ended_code = self.ended_code.insert(n0, self.code@.len() as int); self.ended_tokens = self.ended_tokens.insert(n0, self.tokens_left); }
    //@  loop 0 invariant old(self).tokens_left > 0 ==> self.tokens_left < old(self).tokens_left
    //@  loop 0 invariant self.stream_ok(), old(self).extends(self), self.bound.len() >= b0, self.bound.subrange(0, b0 as int) == old(self).bound, self.single_target_mode == old(self).single_target_mode, self.nesting == old(self).nesting
    //@  loop 0 invariant forall|i: int| b0 <= i < self.bound.len() ==> prec_index(rule_precedence(#[trigger] self.bound[i])) >= prec_index(precedence)
    //@  loop 0 invariant prec_index(precedence) >= prec_index(Precedence::Assignment), n0 == old(self).parsed_at.len(), 1 <= self.nesting <= NESTING_MAX
    //@  loop 0 invariant ends_kept(n0, old(self).ended_code, old(self).ended_tokens, self.ended_code, self.ended_tokens)
    //@  loop 0 invariant self.parsed_at.len() > old(self).parsed_at.len(), prefix_of(old(self).parsed_at, self.parsed_at), self.parsed_at[old(self).parsed_at.len() as int] == precedence
    //@  loop 0 decreases self.tokens_left
    //@  at loop0.start let ghost s0 = *self; proof { every_binding_token_has_an_infix_handler(self.current.kind); end_of_input_binds_nothing(); }
    //@  at loop0.end proof { let ghost s1 = *self; Parser::lemma_extends_trans(old(self), &s0, &s1); }
    //@  ensures final(self).stream_ok(), old(self).extends(final(self)), final(self).single_target_mode == old(self).single_target_mode, final(self).nesting == old(self).nesting
    //@  ensures final(self).parsed_at.len() > old(self).parsed_at.len(), prefix_of(old(self).parsed_at, final(self).parsed_at), final(self).parsed_at[old(self).parsed_at.len() as int] == precedence
    //@  ensures ends_kept(old(self).parsed_at.len() as int, old(self).ended_code, old(self).ended_tokens, final(self).ended_code, final(self).ended_tokens)
    //@  ensures ({ let n = old(self).parsed_at.len() as int; final(self).ended_code.dom().contains(n) && final(self).ended_code[n] == final(self).code@.len() && final(self).ended_tokens.dom().contains(n) && final(self).ended_tokens[n] == final(self).tokens_left })
    //@  ensures old(self).tokens_left > 0 ==> final(self).tokens_left < old(self).tokens_left
    //@  ensures @only_operators_at_or_above_the_requested_level_are_bound final(self).bound.len() >= old(self).bound.len() && final(self).bound.subrange(0, old(self).bound.len() as int) == old(self).bound && forall|i: int| old(self).bound.len() <= i < final(self).bound.len() ==> prec_index(rule_precedence(#[trigger] final(self).bound[i])) >= prec_index(precedence)
    //@  ensures @stops_at_the_first_weaker_operator final(self).had_error || prec_index(rule_precedence(final(self).current.kind)) < prec_index(precedence)
    //@end

    // Nesting bound (C03): blocks and expressions nest by recursion; `nesting` counts the activations of block() and
    // parse_precedence() on the host stack and never exceeds NESTING_MAX, so no source text can exhaust the stack.
    //@fn file=yarel/src/compiler.rs path=Parser::enter_nesting ret=r
    //@  rewrite R11
    //@  requires old(self).stream_ok(), old(self).nesting <= NESTING_MAX
    //@  ensures final(self).stream_ok(), old(self).extends(final(self)), final(self).code == old(self).code, final(self).parsed_at == old(self).parsed_at, final(self).bound == old(self).bound, final(self).ended_code == old(self).ended_code, final(self).ended_tokens == old(self).ended_tokens, final(self).single_target_mode == old(self).single_target_mode
    //@  ensures r || old(self).tokens_left == 0 || final(self).tokens_left < old(self).tokens_left
    //@  ensures @an_accepted_level_is_within_the_bound r ==> final(self).nesting == old(self).nesting + 1 && final(self).nesting <= NESTING_MAX && final(self).tokens_left == old(self).tokens_left && final(self).current == old(self).current && final(self).previous == old(self).previous && final(self).had_error == old(self).had_error
    //@  ensures @a_level_beyond_the_bound_is_a_compile_error_that_consumes_input !r ==> final(self).had_error && final(self).nesting == old(self).nesting && (old(self).tokens_left > 0 ==> final(self).tokens_left < old(self).tokens_left)
    //@end

    //@fn file=yarel/src/compiler.rs path=Parser::parse_precedence
    //@  requires old(self).stream_ok(), prec_index(precedence) >= prec_index(Precedence::Assignment), old(self).nesting <= NESTING_MAX
    //@  ensures final(self).stream_ok(), old(self).extends(final(self)), final(self).single_target_mode == old(self).single_target_mode
    //@  ensures @the_nesting_count_is_restored final(self).nesting == old(self).nesting
    //@  ensures @parsing_an_expression_consumes_input old(self).tokens_left > 0 ==> final(self).tokens_left < old(self).tokens_left
    //@  ensures prefix_of(old(self).parsed_at, final(self).parsed_at), ends_kept(old(self).parsed_at.len() as int, old(self).ended_code, old(self).ended_tokens, final(self).ended_code, final(self).ended_tokens)
    //@  ensures final(self).had_error || (final(self).parsed_at.len() > old(self).parsed_at.len() && final(self).parsed_at[old(self).parsed_at.len() as int] == precedence)
    //@  ensures final(self).had_error || ({ let n = old(self).parsed_at.len() as int; final(self).ended_code.dom().contains(n) && final(self).ended_code[n] == final(self).code@.len() && final(self).ended_tokens.dom().contains(n) && final(self).ended_tokens[n] == final(self).tokens_left })
    //@  ensures final(self).had_error || (final(self).bound.len() >= old(self).bound.len() && final(self).bound.subrange(0, old(self).bound.len() as int) == old(self).bound && forall|i: int| old(self).bound.len() <= i < final(self).bound.len() ==> prec_index(rule_precedence(#[trigger] final(self).bound[i])) >= prec_index(precedence))
    //@  ensures final(self).had_error || prec_index(rule_precedence(final(self).current.kind)) < prec_index(precedence)
    //@end

    // the parsers of the individual statement / declaration kinds (entered after their keyword has been consumed):
    // they never un-consume a token, keep the nesting count, and recurse only through block() / parse_precedence()
    #[verifier::external_body]
    fn nested_statement_parser(&mut self)
        requires old(self).stream_ok(), old(self).nesting <= NESTING_MAX
        ensures final(self).stream_ok(), final(self).tokens_left <= old(self).tokens_left, final(self).nesting == old(self).nesting, final(self).single_target_mode == old(self).single_target_mode
    { unimplemented!() }
    #[verifier::external_body]
    fn check_no_attributes(&mut self)
        ensures final(self).stream_ok() == old(self).stream_ok(), final(self).tokens_left <= old(self).tokens_left, final(self).nesting == old(self).nesting, final(self).single_target_mode == old(self).single_target_mode, final(self).tokens_left == old(self).tokens_left, final(self).current == old(self).current
    { unimplemented!() }
    #[verifier::external_body]
    fn begin_scope(&mut self)
        ensures final(self).stream_ok() == old(self).stream_ok(), final(self).tokens_left <= old(self).tokens_left, final(self).nesting == old(self).nesting, final(self).single_target_mode == old(self).single_target_mode, final(self).tokens_left == old(self).tokens_left, final(self).current == old(self).current
    { unimplemented!() }
    #[verifier::external_body]
    fn end_scope(&mut self)
        ensures final(self).stream_ok() == old(self).stream_ok(), final(self).tokens_left <= old(self).tokens_left, final(self).nesting == old(self).nesting, final(self).single_target_mode == old(self).single_target_mode, final(self).tokens_left == old(self).tokens_left, final(self).current == old(self).current
    { unimplemented!() }
    // error recovery: skips tokens up to a statement boundary
    #[verifier::external_body]
    fn synchronise(&mut self)
        requires old(self).stream_ok()
        ensures final(self).stream_ok(), final(self).tokens_left <= old(self).tokens_left, final(self).nesting == old(self).nesting, final(self).single_target_mode == old(self).single_target_mode
    { unimplemented!() }
    #[verifier::external_body]
    fn in_panic_mode(&self) -> bool { unimplemented!() }
    #[verifier::external_body]
    fn consume(&mut self, kind: TokenKind, message: &str)
        requires old(self).stream_ok()
        ensures final(self).stream_ok(), final(self).tokens_left <= old(self).tokens_left, final(self).nesting == old(self).nesting, final(self).single_target_mode == old(self).single_target_mode
    { unimplemented!() }

    #[verifier::external_body]
    fn emit_jump(&mut self, instruction: OpCode) -> usize
        ensures final(self).stream_ok() == old(self).stream_ok(), final(self).tokens_left == old(self).tokens_left, final(self).current == old(self).current, final(self).nesting == old(self).nesting, final(self).single_target_mode == old(self).single_target_mode
    { unimplemented!() }
    #[verifier::external_body]
    fn patch_jump(&mut self, offset: usize)
        ensures final(self).stream_ok() == old(self).stream_ok(), final(self).tokens_left == old(self).tokens_left, final(self).current == old(self).current, final(self).nesting == old(self).nesting, final(self).single_target_mode == old(self).single_target_mode
    { unimplemented!() }
    #[verifier::external_body]
    fn check_any(&self, kinds: &[TokenKind]) -> bool { unimplemented!() }

    // if / else if / else: the one statement parser that re-enters statement() without entering a block — the
    // `else` branch is counted as a nesting level (fix 9f9c840)
    //@fn file=yarel/src/compiler.rs path=Parser::if_statement
    //@  rewrite R21
    //@  requires old(self).stream_ok(), old(self).nesting <= NESTING_MAX
    //@  decreases NESTING_MAX + 1 - old(self).nesting, 2int
    //@  ensures final(self).stream_ok(), final(self).tokens_left <= old(self).tokens_left
    //@  ensures @the_nesting_count_is_restored final(self).nesting == old(self).nesting
    //@end

    // Progress (C03: compilation terminates): a statement / declaration consumes at least one token unless the input is
    // exhausted — every branch either matched (and consumed) its keyword or parses an expression, which consumes.
    //@fn file=yarel/src/compiler.rs path=Parser::expression_statement
    //@  rewrite R21
    //@  requires old(self).stream_ok(), old(self).nesting <= NESTING_MAX
    //@  ensures final(self).stream_ok(), final(self).tokens_left <= old(self).tokens_left, final(self).nesting == old(self).nesting
    //@  ensures old(self).tokens_left > 0 ==> final(self).tokens_left < old(self).tokens_left
    //@end
    //@fn file=yarel/src/compiler.rs path=Parser::statement
    //@  subst "self.import_statement();" => "self.nested_statement_parser();"
    //@  subst "self.for_statement();" => "self.nested_statement_parser();"
    //@  subst "self.return_statement();" => "self.nested_statement_parser();"
    //@  subst "self.break_statement();" => "self.nested_statement_parser();"
    //@  subst "self.continue_statement();" => "self.nested_statement_parser();"
    //@  subst "self.throw_statement();" => "self.nested_statement_parser();"
    //@  subst "self.try_statement();" => "self.nested_statement_parser();"
    //@  subst "self.while_statement();" => "self.nested_statement_parser();"
    //@  requires old(self).stream_ok(), old(self).nesting <= NESTING_MAX
    //@  decreases NESTING_MAX + 1 - old(self).nesting, 3int
    //@  ensures final(self).stream_ok(), final(self).tokens_left <= old(self).tokens_left, final(self).nesting == old(self).nesting
    //@  ensures @a_statement_consumes_input old(self).tokens_left > 0 ==> final(self).tokens_left < old(self).tokens_left
    //@  at body.start proof { assert(old(self).tokens_left > 0 ==> !(old(self).current.kind is Eof)); }
    //@end
    //@fn file=yarel/src/compiler.rs path=Parser::declaration
    //@  subst "self.class_declaration();" => "self.nested_statement_parser();"
    //@  subst "self.fn_declaration();" => "self.nested_statement_parser();"
    //@  subst "self.attributes_declaration();" => "self.nested_statement_parser();"
    //@  subst "self.var_declaration();" => "self.nested_statement_parser();"
    //@  subst "self.panic_mode.get()" => "self.in_panic_mode()"
    //@  requires old(self).stream_ok(), old(self).nesting <= NESTING_MAX
    //@  decreases NESTING_MAX + 1 - old(self).nesting, 4int
    //@  ensures final(self).stream_ok(), final(self).tokens_left <= old(self).tokens_left, final(self).nesting == old(self).nesting
    //@  ensures @a_declaration_consumes_input old(self).tokens_left > 0 ==> final(self).tokens_left < old(self).tokens_left
    //@end
    // the top-level loop of Parser::parse (the error bookkeeping behind it: unit diag)
    #[verifier::external_body]
    fn parse_tail(&mut self) -> Result<Root<ObjFunction>, Error> { unimplemented!() }
    //@fn file=yarel/src/compiler.rs path=Parser::parse obname=Parser::parse#declaration_loop
    //@  truncate_at "self.check_no_attributes();" => "self.parse_tail()"
    //@  requires old(self).stream_ok(), old(self).nesting == 0
    //@  loop 0 invariant self.stream_ok(), self.nesting == 0
    //@  loop 0 decreases self.tokens_left
    //@end
    // block(): one nesting level per block; the count is restored on every path; the statement loop terminates
    //@fn file=yarel/src/compiler.rs path=Parser::block
    //@  requires old(self).stream_ok(), old(self).nesting <= NESTING_MAX
    //@  decreases NESTING_MAX + 1 - old(self).nesting, 1int
    //@  loop 0 invariant self.stream_ok(), self.nesting == old(self).nesting + 1, 1 <= self.nesting <= NESTING_MAX, self.tokens_left <= old(self).tokens_left
    //@  loop 0 decreases self.tokens_left
    //@  ensures final(self).stream_ok(), final(self).tokens_left <= old(self).tokens_left
    //@  ensures @the_nesting_count_is_restored final(self).nesting == old(self).nesting
    //@end

    // expression(): the whole assignment level — or, for the right-hand side of a compound assignment, the level of `|`
    //@fn file=yarel/src/compiler.rs path=Parser::expression
    //@  requires old(self).stream_ok(), old(self).nesting <= NESTING_MAX
    //@  ensures final(self).stream_ok(), old(self).extends(final(self)), final(self).single_target_mode == old(self).single_target_mode, final(self).nesting == old(self).nesting
    //@  ensures old(self).tokens_left > 0 ==> final(self).tokens_left < old(self).tokens_left
    //@  ensures @an_expression_is_parsed_at_the_assignment_level final(self).had_error || final(self).parsed_at.len() > old(self).parsed_at.len() && final(self).parsed_at[old(self).parsed_at.len() as int] == (if old(self).single_target_mode { Precedence::BitwiseOr } else { Precedence::Assignment })
    //@end

    // A op B (left-associative): the right operand is parsed ONE LEVEL ABOVE the operator's own level, so an operator of
    // the same level ends it (`a - b - c` is `(a - b) - c`); the operator's code comes after both operands; every token
    // the table routes to `binary` emits an instruction.
    //@fn file=yarel/src/compiler.rs path=Parser::binary
    //@  rewrite R21
    //@  subst "Precedence::from(" => "precedence_from("
    //@  subst "rule_precedence as usize" => "prec_usize(rule_precedence)"
    //@  requires old(s).stream_ok(), old(s).nesting <= NESTING_MAX, rule_infix(old(s).previous.kind) == Some(ParseFnName::binary)
    //@  at body.start proof { binary_operators_have_a_next_level(s.previous.kind); }
    //@  ensures final(s).stream_ok(), old(s).extends(final(s))
    //@  ensures @right_operand_binds_one_level_tighter_than_the_operator final(s).had_error || final(s).parsed_at.len() > old(s).parsed_at.len() && prec_index(final(s).parsed_at[old(s).parsed_at.len() as int]) == prec_index(rule_precedence(old(s).previous.kind)) + 1
    //@  ensures @operator_code_follows_both_operands final(s).had_error || ({ let n = old(s).parsed_at.len() as int; final(s).ended_code.dom().contains(n) && final(s).ended_tokens.dom().contains(n) && final(s).tokens_left == final(s).ended_tokens[n] && final(s).code@.len() <= final(s).ended_code[n] + 2 })
    //@  ensures @every_operator_routed_to_binary_emits_an_instruction final(s).had_error || ({ let n = old(s).parsed_at.len() as int; final(s).ended_code.dom().contains(n) && final(s).code@.len() > final(s).ended_code[n] })
    //@end

    // op A: the operand is parsed at the Unary level (so `-a.b` negates `a.b`, `-a * b` is `(-a) * b`), operator last
    //@fn file=yarel/src/compiler.rs path=Parser::unary
    //@  rewrite R21
    //@  requires old(s).stream_ok(), old(s).nesting <= NESTING_MAX, rule_prefix(old(s).previous.kind) == Some(ParseFnName::unary)
    //@  ensures final(s).stream_ok(), old(s).extends(final(s))
    //@  ensures @operand_binds_at_the_unary_level final(s).had_error || final(s).parsed_at.len() > old(s).parsed_at.len() && final(s).parsed_at[old(s).parsed_at.len() as int] == Precedence::Unary
    //@  ensures @the_operand_starts_right_behind_the_operator final(s).had_error || ({ let n = old(s).parsed_at.len() as int; final(s).ended_tokens.dom().contains(n) && final(s).ended_tokens[n] <= old(s).tokens_left }) && old(s).code@.len() <= final(s).code@.len()
    //@  ensures @operator_instruction_follows_the_operand final(s).had_error || ({ let n = old(s).parsed_at.len() as int; final(s).ended_code.dom().contains(n) && final(s).ended_tokens.dom().contains(n) && final(s).tokens_left == final(s).ended_tokens[n] && final(s).code@.len() == final(s).ended_code[n] + 1 })
    //@end

    // A .. B: the right bound is parsed at the Unary level (`1..n+1` is `(1..n)+1`), BuildRange last
    //@fn file=yarel/src/compiler.rs path=Parser::dotdot
    //@  rewrite R21
    //@  requires old(s).stream_ok(), old(s).nesting <= NESTING_MAX
    //@  ensures final(s).stream_ok(), old(s).extends(final(s))
    //@  ensures @right_bound_binds_at_the_unary_level final(s).had_error || final(s).parsed_at.len() > old(s).parsed_at.len() && final(s).parsed_at[old(s).parsed_at.len() as int] == Precedence::Unary
    //@  ensures @build_range_follows_both_bounds final(s).had_error || ({ let n = old(s).parsed_at.len() as int; final(s).ended_code.dom().contains(n) && final(s).ended_tokens.dom().contains(n) && final(s).tokens_left == final(s).ended_tokens[n] && final(s).code@.len() == final(s).ended_code[n] + 1 && final(s).code@[final(s).ended_code[n]] == opcode_byte(OpCode::BuildRange) })
    //@end
}

} // verus!
fn main() {}
