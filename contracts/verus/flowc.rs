//@unit flowc
//@property C05
// Compile-time side of "if/else, while ... transfer control exactly as the source nesting says" and of short-circuit
// `and` / `or` (yarel/src/compiler.rs Parser::if_statement, while_statement, and, or): where the emitted jumps land.
//
// `targets` (ghost): operand position of a patched jump -> the code position execution continues at when the jump is
// taken. patch_jump(p) makes that the current end of the code, emit_loop(s) makes it s: these are the byte-level
// contracts proved in unit `compiler` under C04 (decoded operand == distance, or an error is on record) composed with
// the VM's decoding proved in unit `flowvm` (ip after the operand + operand, resp. − operand).
use vstd::prelude::*;
verus! {

global size_of usize == 8;

//@enum file=yarel/src/chunk.rs name=OpCode discr=opcode_byte
//@enum file=yarel/src/scanner.rs name=TokenKind
//@enum file=yarel/src/compiler.rs name=CompilerError
//@enum file=yarel/src/compiler.rs name=Precedence
#[verifier::external_body]
fn opcode_u8(op: OpCode) -> (r: u8) ensures r == opcode_byte(op) { op as u8 }

pub struct Chunk { pub code: Vec<u8> }
pub struct Local { }
pub struct Compiler { pub chunk: Chunk, pub locals: Vec<Local>, pub ghost loop_header: int }
pub struct Token { }
impl Token { #[verifier::external_body] fn from_string(s: &str) -> Token { unimplemented!() } }
impl Compiler {
    // compiler.rs push_loop records the current end of the code as the loop header (unit compiler)
    #[verifier::external_body]
    fn push_loop(&mut self) ensures final(self).chunk == old(self).chunk, final(self).locals == old(self).locals, final(self).loop_header == old(self).chunk.code@.len() { unimplemented!() }
    #[verifier::external_body]
    fn current_loop_header(&self) -> (r: Option<(usize, usize, usize)>) ensures r matches Some(h) && h.0 == self.loop_header { unimplemented!() }
    #[verifier::external_body]
    fn add_local(&mut self, name: &Token) -> bool ensures final(self).chunk == old(self).chunk, final(self).loop_header == old(self).loop_header { unimplemented!() }
    #[verifier::external_body]
    fn mark_initialised(&mut self, index: usize) ensures final(self).chunk == old(self).chunk, final(self).loop_header == old(self).loop_header, final(self).locals == old(self).locals { unimplemented!() }
    #[verifier::external_body]
    fn pop_loop(&mut self) -> (r: Result<(), CompilerError>) ensures final(self).chunk.code@.len() == old(self).chunk.code@.len(), final(self).chunk == old(self).chunk { unimplemented!() }
}

pub struct Parser { pub comp: Compiler, pub nesting: usize, pub ghost targets: Map<int, int>, pub ghost had_error: bool, pub ghost parsed_at: Seq<Precedence> }

impl Parser {
    pub open spec fn code(&self) -> Seq<u8> { self.comp.chunk.code@ }
    // code emitted so far stays (nested constructs patch only operands inside their own code), recorded targets stay
    pub open spec fn extends(&self, o: &Parser) -> bool {
        &&& self.code().len() <= o.code().len()
        &&& (forall|j: int| 0 <= j < self.code().len() ==> #[trigger] o.code()[j] == self.code()[j])
        &&& (forall|k: int| #![trigger o.targets[k]] #![trigger o.targets.dom().contains(k)] self.targets.dom().contains(k) ==> o.targets.dom().contains(k) && o.targets[k] == self.targets[k])
        &&& (forall|k: int| o.targets.dom().contains(k) && !self.targets.dom().contains(k) ==> k >= self.code().len())
        &&& (self.had_error ==> o.had_error)
    }
    pub open spec fn quiet(&self, o: &Parser) -> bool { self.comp == o.comp && self.targets == o.targets && (self.had_error ==> o.had_error) }

    #[verifier::external_body]
    fn chunk(&self) -> (r: &Chunk) ensures *r == self.comp.chunk { unimplemented!() }
    #[verifier::external_body]
    fn compiler_mut(&mut self) -> (r: &mut Compiler) ensures *r == old(self).comp, final(self).comp == *final(r), final(self).targets == old(self).targets, final(self).had_error == old(self).had_error { unimplemented!() }
    // compiler.rs enter_nesting (its own contract: unit pratt): a nesting level is entered, or a compile error is reported
    #[verifier::external_body]
    fn enter_nesting(&mut self) -> (r: bool)
        ensures final(self).comp == old(self).comp, final(self).targets == old(self).targets, final(self).parsed_at == old(self).parsed_at, old(self).had_error ==> final(self).had_error,
            r ==> final(self).nesting == old(self).nesting + 1 && final(self).nesting >= 1, !r ==> final(self).nesting == old(self).nesting
    { unimplemented!() }
    #[verifier::external_body]
    fn compiler(&self) -> (r: &Compiler) ensures *r == self.comp { unimplemented!() }
    #[verifier::external_body]
    fn declare_variable(&mut self) ensures final(self).code() == old(self).code(), final(self).targets == old(self).targets, old(self).had_error ==> final(self).had_error, final(self).parsed_at == old(self).parsed_at, final(self).comp.locals@.len() >= old(self).comp.locals@.len() { unimplemented!() }
    #[verifier::external_body]
    fn mark_initialised(&mut self) ensures old(self).quiet(final(self)) { unimplemented!() }
    #[verifier::external_body]
    fn identifier_constant(&mut self, token: &Token) -> u16 ensures old(self).quiet(final(self)) { unimplemented!() }
    #[verifier::external_body]
    fn error(&mut self, message: &str) ensures final(self).comp == old(self).comp, final(self).targets == old(self).targets, final(self).had_error { unimplemented!() }
    #[verifier::external_body]
    fn emit_constant_op(&mut self, opcode: OpCode, constant: u16)
        ensures final(self).parsed_at == old(self).parsed_at, final(self).code().len() == old(self).code().len() + 3, old(self).extends(final(self)), final(self).targets == old(self).targets, final(self).had_error == old(self).had_error, final(self).comp.loop_header == old(self).comp.loop_header, final(self).comp.locals == old(self).comp.locals
    { unimplemented!() }
    #[verifier::external_body]
    fn emit_bytes(&mut self, bytes: [u8; 2])
        ensures final(self).parsed_at == old(self).parsed_at, final(self).code() == old(self).code().push(bytes[0]).push(bytes[1]), final(self).targets == old(self).targets, final(self).had_error == old(self).had_error, final(self).comp.loop_header == old(self).comp.loop_header, final(self).comp.locals == old(self).comp.locals
    { unimplemented!() }
    // ---- emitters (byte-level contracts: unit `compiler`)
    #[verifier::external_body]
    fn emit_byte(&mut self, byte: u8)
        ensures final(self).parsed_at == old(self).parsed_at, final(self).code() == old(self).code().push(byte), final(self).targets == old(self).targets, final(self).had_error == old(self).had_error
    { unimplemented!() }
    #[verifier::external_body]
    fn emit_jump(&mut self, instruction: OpCode) -> (r: usize)
        ensures final(self).parsed_at == old(self).parsed_at, final(self).code() == old(self).code().push(opcode_byte(instruction)).push(0xffu8).push(0xffu8), r == old(self).code().len() + 1,
            final(self).targets == old(self).targets, final(self).had_error == old(self).had_error,
    { unimplemented!() }
    // C04 (compiler/Parser::patch_jump + flowvm): a taken jump whose operand sits at `offset` continues at the current end
    // of the code — or an error is on record
    #[verifier::external_body]
    fn patch_jump(&mut self, offset: usize)
        requires offset + 2 <= old(self).code().len()
        ensures final(self).parsed_at == old(self).parsed_at, final(self).code().len() == old(self).code().len(),
            forall|j: int| 0 <= j < old(self).code().len() && j != offset && j != offset + 1 ==> #[trigger] final(self).code()[j] == old(self).code()[j],
            final(self).targets == old(self).targets.insert(offset as int, old(self).code().len() as int), old(self).had_error ==> final(self).had_error,
    { unimplemented!() }
    // C04 (compiler/Parser::emit_loop + flowvm): a Loop instruction whose taken target is `loop_start`
    #[verifier::external_body]
    fn emit_loop(&mut self, loop_start: usize)
        requires loop_start <= old(self).code().len()
        ensures final(self).code().len() == old(self).code().len() + 3, forall|j: int| 0 <= j < old(self).code().len() ==> #[trigger] final(self).code()[j] == old(self).code()[j],
            final(self).code()[old(self).code().len() as int] == opcode_byte(OpCode::Loop),
            final(self).targets == old(self).targets.insert(old(self).code().len() as int + 1, loop_start as int), old(self).had_error ==> final(self).had_error,
    { unimplemented!() }
    // ---- nested constructs and the token stream
    #[verifier::external_body]
    fn expression(&mut self) ensures old(self).extends(final(self)) { unimplemented!() }
    #[verifier::external_body]
    fn parse_precedence(&mut self, precedence: Precedence) ensures old(self).extends(final(self)), final(self).parsed_at == old(self).parsed_at.push(precedence) { unimplemented!() }
    #[verifier::external_body]
    fn block(&mut self) ensures old(self).extends(final(self)) { unimplemented!() }
    #[verifier::external_body]
    fn statement(&mut self) ensures old(self).extends(final(self)), final(self).nesting == old(self).nesting { unimplemented!() }
    #[verifier::external_body]
    fn begin_scope(&mut self) ensures old(self).quiet(final(self)) { unimplemented!() }
    #[verifier::external_body]
    fn end_scope(&mut self) ensures old(self).extends(final(self)) { unimplemented!() }
    #[verifier::external_body]
    fn consume(&mut self, kind: TokenKind, message: &str) ensures old(self).quiet(final(self)) { unimplemented!() }
    #[verifier::external_body]
    fn match_token(&mut self, kind: TokenKind) -> bool ensures old(self).quiet(final(self)) { unimplemented!() }
    #[verifier::external_body]
    fn check_any(&self, kinds: &[TokenKind]) -> bool { unimplemented!() }
    #[verifier::external_body]
    fn error_at_current(&mut self, message: &str) ensures final(self).comp == old(self).comp, final(self).targets == old(self).targets, final(self).had_error { unimplemented!() }
    #[verifier::external_body]
    fn compiler_error(&mut self, error: CompilerError) ensures final(self).comp == old(self).comp, final(self).targets == old(self).targets, final(self).had_error { unimplemented!() }

    // if C { T } [else E]:   C  JumpIfFalse→X  Pop  T  Jump→END  X: Pop  E  END:
    // a false condition continues right behind the jump that ends the then-part, at a Pop (the condition is popped on
    // both paths, once); the then-part's closing jump continues behind the whole statement.
    //@fn file=yarel/src/compiler.rs path=Parser::if_statement
    //@  rewrite R21
    //@  requires old(self).code().len() < 0x4000_0000_0000_0000
    //@  assert @false_condition_continues_at_the_else_part after_stmt "self.patch_jump(then_jump)" self.targets[then_jump as int] == else_jump + 2 && self.targets[then_jump as int] == self.code().len() && self.code()[then_jump + 2] == opcode_byte(OpCode::Pop) && self.code()[then_jump - 1] == opcode_byte(OpCode::JumpIfFalse) && self.code()[else_jump - 1] == opcode_byte(OpCode::Jump)
    //@  assert @else_part_starts_by_dropping_the_condition before_stmt "if self.match_token(TokenKind::Else)" self.code()[self.targets[then_jump as int]] == opcode_byte(OpCode::Pop)
    //@  assert @then_part_skips_the_else_part after_stmt "self.patch_jump(else_jump)" self.targets.dom().contains(else_jump as int) && self.targets[else_jump as int] == self.code().len() && self.targets[then_jump as int] == else_jump + 2
    //@end

    // while C { B }:   L: C  JumpIfFalse→X  Pop  B  Loop→L  X: Pop
    //@fn file=yarel/src/compiler.rs path=Parser::while_statement
    //@  rewrite R21
    //@  requires old(self).code().len() < 0x4000_0000_0000_0000
    //@  assert @loop_jumps_back_to_the_condition after_stmt "self.emit_loop(loop_start)" self.targets[self.code().len() - 2] == old(self).code().len() && self.code()[self.code().len() - 3] == opcode_byte(OpCode::Loop)
    //@  assert @false_condition_leaves_the_loop_behind_the_back_jump after_stmt "self.patch_jump(exit_jump)" self.targets[exit_jump as int] == self.code().len() && self.code()[self.code().len() - 3] == opcode_byte(OpCode::Loop) && self.code()[exit_jump + 2] == opcode_byte(OpCode::Pop) && self.code()[exit_jump - 1] == opcode_byte(OpCode::JumpIfFalse)
    //@  assert @loop_exit_drops_the_condition after_stmt "self.emit_byte(opcode_u8(OpCode::Pop))#2" self.code()[self.targets[exit_jump as int]] == opcode_byte(OpCode::Pop) && self.code().len() == self.targets[exit_jump as int] + 1
    //@end

    // for v in E { B }:   Nil  E  Invoke iter 0   L: IterNext  SetLocal v  JumpIfStopIter→X  Pop  B  Loop→L   X: Pop
    // every iteration starts by asking the iterator for its next value and storing it in the loop variable; the exit
    // test looks at that value; the back jump returns to the iterator step; the exit continues behind the back jump,
    // at the Pop that drops the StopIter value (the fall-through path has its own Pop)
    //@fn file=yarel/src/compiler.rs path=Parser::for_statement props=C05,C18
    //@  rewrite R21
    //@  requires old(self).code().len() < 0x4000_0000_0000_0000, old(self).comp.locals@.len() >= 1
    //@  assert @each_iteration_asks_the_iterator_and_stores_the_value_in_the_loop_variable before_stmt "self.emit_byte(opcode_u8(OpCode::Pop))#1" self.code().len() == loop_start + 6 && self.code()[loop_start as int] == opcode_byte(OpCode::IterNext) && self.code()[loop_start + 1] == opcode_byte(OpCode::SetLocal) && self.code()[loop_start + 2] == loop_var as u8 && self.code()[loop_start + 3] == opcode_byte(OpCode::JumpIfStopIter) && exit_jump == loop_start + 4
    //@  assert @loop_jumps_back_to_the_iterator_step after_stmt "self.emit_loop(loop_start)" self.targets[self.code().len() - 2] == loop_start && self.code()[self.code().len() - 3] == opcode_byte(OpCode::Loop) && self.code()[loop_start as int] == opcode_byte(OpCode::IterNext)
    //@  assert @exhausted_iterator_leaves_the_loop_behind_the_back_jump after_stmt "self.patch_jump(exit_jump)" self.targets[exit_jump as int] == self.code().len() && self.code()[self.code().len() - 3] == opcode_byte(OpCode::Loop) && self.code()[exit_jump + 2] == opcode_byte(OpCode::Pop)
    //@  assert @loop_exit_drops_the_stop_value after_stmt "self.emit_byte(opcode_u8(OpCode::Pop))#2" self.code()[self.targets[exit_jump as int]] == opcode_byte(OpCode::Pop) && self.code().len() == self.targets[exit_jump as int] + 1
    //@end

    // A and B:   A  JumpIfFalse→END  Pop  B  END:   (a falsey A is the result: JumpIfFalse leaves it on the stack)
    //@fn file=yarel/src/compiler.rs path=Parser::and
    //@  rewrite R21
    //@  requires old(s).code().len() < 0x4000_0000_0000_0000
    //@  ensures @right_operand_binds_at_the_level_of_and final(s).parsed_at == old(s).parsed_at.push(Precedence::And)
    //@  ensures @falsey_left_operand_skips_the_right_operand final(s).code()[old(s).code().len() as int] == opcode_byte(OpCode::JumpIfFalse) && final(s).targets.dom().contains(old(s).code().len() as int + 1) && final(s).targets[old(s).code().len() as int + 1] == final(s).code().len() && final(s).code()[old(s).code().len() as int + 3] == opcode_byte(OpCode::Pop)
    //@end

    // A or B:   A  JumpIfFalse→X  Jump→END  X: Pop  B  END:   (a truthy A is the result)
    //@fn file=yarel/src/compiler.rs path=Parser::or
    //@  rewrite R21
    //@  requires old(s).code().len() < 0x4000_0000_0000_0000
    //@  ensures @right_operand_binds_at_the_level_of_or final(s).parsed_at == old(s).parsed_at.push(Precedence::Or)
    //@  ensures @truthy_left_operand_skips_the_right_operand ({ let n = old(s).code().len() as int; final(s).code()[n] == opcode_byte(OpCode::JumpIfFalse) && final(s).code()[n + 3] == opcode_byte(OpCode::Jump) && final(s).targets.dom().contains(n + 1) && final(s).targets[n + 1] == n + 6 && final(s).code()[n + 6] == opcode_byte(OpCode::Pop) && final(s).targets.dom().contains(n + 4) && final(s).targets[n + 4] == final(s).code().len() })
    //@end
}

} // verus!
fn main() {}
