//@unit flowc
//@property C05
// Compile-time side of "if/else, while ... transfer control exactly as the source nesting says" and of short-circuit
// `and` / `or` (yarel/src/compiler.rs Parser::if_statement, while_statement, and, or): where the emitted jumps land.
//
// `targets` (ghost): operand position of a patched jump -> the code position execution continues at when the jump is
// taken. patch_jump(p) makes that the current end of the code, emit_loop(s) makes it s: these are the byte-level
// contracts proved in unit `compiler` under C04 (decoded operand == distance, or an error is on record) composed with
// the VM's decoding proved in unit `flowvm` (ip after the operand + operand, resp. − operand).
use vstd::prelude::*;
verus! {

global size_of usize == 8;

//@enum file=yarel/src/chunk.rs name=OpCode discr=opcode_byte
//@enum file=yarel/src/scanner.rs name=TokenKind
//@enum file=yarel/src/compiler.rs name=CompilerError
//@enum file=yarel/src/compiler.rs name=Precedence
#[verifier::external_body]
fn opcode_u8(op: OpCode) -> (r: u8) ensures r == opcode_byte(op) { op as u8 }

pub struct Chunk { pub code: Vec<u8> }
pub struct Local { }
pub struct Compiler { pub chunk: Chunk, pub locals: Vec<Local>, pub ghost loop_header: int }
pub struct Token { pub kind: TokenKind }
impl Token { #[verifier::external_body] fn from_string(s: &str) -> Token { unimplemented!() } }
impl Compiler {
    // compiler.rs push_loop records the current end of the code as the loop header (unit compiler)
    #[verifier::external_body]
    fn push_loop(&mut self) ensures final(self).chunk == old(self).chunk, final(self).locals == old(self).locals, final(self).loop_header == old(self).chunk.code@.len() { unimplemented!() }
    #[verifier::external_body]
    fn current_loop_header(&self) -> (r: Option<(usize, usize, usize)>) ensures r matches Some(h) && h.0 == self.loop_header { unimplemented!() }
    #[verifier::external_body]
    fn add_local(&mut self, name: &Token) -> bool ensures final(self).chunk == old(self).chunk, final(self).loop_header == old(self).loop_header { unimplemented!() }
    #[verifier::external_body]
    fn mark_initialised(&mut self, index: usize) ensures final(self).chunk == old(self).chunk, final(self).loop_header == old(self).loop_header, final(self).locals == old(self).locals { unimplemented!() }
    #[verifier::external_body]
    fn pop_loop(&mut self) -> (r: Result<(), CompilerError>) ensures final(self).chunk.code@.len() == old(self).chunk.code@.len(), final(self).chunk == old(self).chunk { unimplemented!() }
}

// the operator a compound-assignment token names
pub open spec fn compound_op(k: TokenKind) -> Option<OpCode> {
    match k {
        TokenKind::MinusEqual => Some(OpCode::Subtract), TokenKind::PlusEqual => Some(OpCode::Add), TokenKind::SlashEqual => Some(OpCode::Divide),
        TokenKind::StarEqual => Some(OpCode::Multiply), TokenKind::AmpEqual => Some(OpCode::BitwiseAnd), TokenKind::BarEqual => Some(OpCode::BitwiseOr),
        TokenKind::CaretEqual => Some(OpCode::BitwiseXor), TokenKind::PercentEqual => Some(OpCode::Modulo), TokenKind::LessLessEqual => Some(OpCode::BitShiftLeft),
        TokenKind::GreaterGreaterEqual => Some(OpCode::BitShiftRight), _ => None,
    }
}
// chunk.rs OpCode::arg_sizes: locals and captures have a one-byte operand, globals a two-byte constant index
pub uninterp spec fn byte_operand(op: OpCode) -> bool;
pub open spec fn var_op_len(op: OpCode) -> int { if byte_operand(op) { 2 } else { 3 } }
pub open spec fn access_pair(g: OpCode, s: OpCode) -> bool { (g is GetLocal && s is SetLocal) || (g is GetUpvalue && s is SetUpvalue) || (g is GetGlobal && s is SetGlobal) }
pub open spec fn is_get(b: u8) -> bool { b == opcode_byte(OpCode::GetLocal) || b == opcode_byte(OpCode::GetUpvalue) || b == opcode_byte(OpCode::GetGlobal) }
pub open spec fn is_set(b: u8) -> bool { b == opcode_byte(OpCode::SetLocal) || b == opcode_byte(OpCode::SetUpvalue) || b == opcode_byte(OpCode::SetGlobal) }
#[verifier::external_body]
fn verif_unreachable() requires false { unimplemented!() }

pub struct Parser { pub comp: Compiler, pub nesting: usize, pub previous: Token, pub single_target_mode: bool, pub ghost targets: Map<int, int>, pub ghost had_error: bool, pub ghost parsed_at: Seq<Precedence> }

impl Parser {
    pub open spec fn code(&self) -> Seq<u8> { self.comp.chunk.code@ }
    // code emitted so far stays (nested constructs patch only operands inside their own code), recorded targets stay
    pub open spec fn extends(&self, o: &Parser) -> bool {
        &&& self.code().len() <= o.code().len()
        &&& (forall|j: int| 0 <= j < self.code().len() ==> #[trigger] o.code()[j] == self.code()[j])
        &&& (forall|k: int| #![trigger o.targets[k]] #![trigger o.targets.dom().contains(k)] self.targets.dom().contains(k) ==> o.targets.dom().contains(k) && o.targets[k] == self.targets[k])
        &&& (forall|k: int| o.targets.dom().contains(k) && !self.targets.dom().contains(k) ==> k >= self.code().len())
        &&& (self.had_error ==> o.had_error)
    }
    pub open spec fn quiet(&self, o: &Parser) -> bool { self.comp == o.comp && self.targets == o.targets && (self.had_error ==> o.had_error) }

    #[verifier::external_body]
    fn chunk(&self) -> (r: &Chunk) ensures *r == self.comp.chunk { unimplemented!() }
    #[verifier::external_body]
    fn compiler_mut(&mut self) -> (r: &mut Compiler) ensures *r == old(self).comp, final(self).comp == *final(r), final(self).targets == old(self).targets, final(self).had_error == old(self).had_error { unimplemented!() }
    // compiler.rs enter_nesting (its own contract: unit pratt): a nesting level is entered, or a compile error is reported
    #[verifier::external_body]
    fn enter_nesting(&mut self) -> (r: bool)
        ensures final(self).comp == old(self).comp, final(self).targets == old(self).targets, final(self).parsed_at == old(self).parsed_at, old(self).had_error ==> final(self).had_error,
            r ==> final(self).nesting == old(self).nesting + 1 && final(self).nesting >= 1, !r ==> final(self).nesting == old(self).nesting
    { unimplemented!() }
    #[verifier::external_body]
    fn compiler(&self) -> (r: &Compiler) ensures *r == self.comp { unimplemented!() }
    #[verifier::external_body]
    fn declare_variable(&mut self) ensures final(self).code() == old(self).code(), final(self).targets == old(self).targets, old(self).had_error ==> final(self).had_error, final(self).parsed_at == old(self).parsed_at, final(self).comp.locals@.len() >= old(self).comp.locals@.len() { unimplemented!() }
    #[verifier::external_body]
    fn mark_initialised(&mut self) ensures old(self).quiet(final(self)) { unimplemented!() }
    #[verifier::external_body]
    fn identifier_constant(&mut self, token: &Token) -> u16 ensures old(self).quiet(final(self)) { unimplemented!() }
    #[verifier::external_body]
    fn error(&mut self, message: &str) ensures final(self).comp == old(self).comp, final(self).targets == old(self).targets, final(self).had_error { unimplemented!() }
    #[verifier::external_body]
    fn emit_constant_op(&mut self, opcode: OpCode, constant: u16)
        ensures final(self).parsed_at == old(self).parsed_at, final(self).code().len() == old(self).code().len() + 3, final(self).code()[old(self).code().len() as int] == opcode_byte(opcode), old(self).extends(final(self)), final(self).targets == old(self).targets, final(self).had_error == old(self).had_error, final(self).comp.loop_header == old(self).comp.loop_header, final(self).comp.locals == old(self).comp.locals
    { unimplemented!() }
    #[verifier::external_body]
    fn emit_bytes(&mut self, bytes: [u8; 2])
        ensures final(self).parsed_at == old(self).parsed_at, final(self).code() == old(self).code().push(bytes[0]).push(bytes[1]), final(self).targets == old(self).targets, final(self).had_error == old(self).had_error, final(self).comp.loop_header == old(self).comp.loop_header, final(self).comp.locals == old(self).comp.locals
    { unimplemented!() }
    // ---- emitters (byte-level contracts: unit `compiler`)
    #[verifier::external_body]
    fn emit_byte(&mut self, byte: u8)
        ensures final(self).parsed_at == old(self).parsed_at, final(self).code() == old(self).code().push(byte), final(self).targets == old(self).targets, final(self).had_error == old(self).had_error
    { unimplemented!() }
    #[verifier::external_body]
    fn emit_jump(&mut self, instruction: OpCode) -> (r: usize)
        ensures final(self).parsed_at == old(self).parsed_at, final(self).code() == old(self).code().push(opcode_byte(instruction)).push(0xffu8).push(0xffu8), r == old(self).code().len() + 1,
            final(self).targets == old(self).targets, final(self).had_error == old(self).had_error,
    { unimplemented!() }
    // C04 (compiler/Parser::patch_jump + flowvm): a taken jump whose operand sits at `offset` continues at the current end
    // of the code — or an error is on record
    #[verifier::external_body]
    fn patch_jump(&mut self, offset: usize)
        requires offset + 2 <= old(self).code().len()
        ensures final(self).parsed_at == old(self).parsed_at, final(self).code().len() == old(self).code().len(),
            forall|j: int| 0 <= j < old(self).code().len() && j != offset && j != offset + 1 ==> #[trigger] final(self).code()[j] == old(self).code()[j],
            final(self).targets == old(self).targets.insert(offset as int, old(self).code().len() as int), old(self).had_error ==> final(self).had_error,
    { unimplemented!() }
    // C04 (compiler/Parser::emit_loop + flowvm): a Loop instruction whose taken target is `loop_start`
    #[verifier::external_body]
    fn emit_loop(&mut self, loop_start: usize)
        requires loop_start <= old(self).code().len()
        ensures final(self).code().len() == old(self).code().len() + 3, forall|j: int| 0 <= j < old(self).code().len() ==> #[trigger] final(self).code()[j] == old(self).code()[j],
            final(self).code()[old(self).code().len() as int] == opcode_byte(OpCode::Loop),
            final(self).targets == old(self).targets.insert(old(self).code().len() as int + 1, loop_start as int), old(self).had_error ==> final(self).had_error,
    { unimplemented!() }
    // ---- nested constructs and the token stream
    #[verifier::external_body]
    fn expression(&mut self) ensures old(self).extends(final(self)), final(self).parsed_at.len() == old(self).parsed_at.len() + 1, final(self).parsed_at.subrange(0, old(self).parsed_at.len() as int) == old(self).parsed_at { unimplemented!() }
    // compiler.rs Parser::expression with single_target_mode set (its own contract: unit pratt — the level it asks
    // parse_precedence for is BitwiseOr in that mode); whatever it parses, the flag is what nested parsing leaves
    #[verifier::external_body]
    fn expression_in_target_mode(&mut self)
        requires old(self).single_target_mode
        ensures old(self).extends(final(self)), final(self).parsed_at == old(self).parsed_at.push(Precedence::BitwiseOr), final(self).code().len() >= old(self).code().len() + 1
    { unimplemented!() }
    #[verifier::external_body]
    fn parse_precedence(&mut self, precedence: Precedence) ensures old(self).extends(final(self)), final(self).parsed_at == old(self).parsed_at.push(precedence) { unimplemented!() }
    #[verifier::external_body]
    fn block(&mut self) ensures old(self).extends(final(self)) { unimplemented!() }
    #[verifier::external_body]
    fn statement(&mut self) ensures old(self).extends(final(self)), final(self).nesting == old(self).nesting { unimplemented!() }
    #[verifier::external_body]
    fn begin_scope(&mut self) ensures old(self).quiet(final(self)) { unimplemented!() }
    #[verifier::external_body]
    fn end_scope(&mut self) ensures old(self).extends(final(self)) { unimplemented!() }
    #[verifier::external_body]
    fn consume(&mut self, kind: TokenKind, message: &str) ensures old(self).quiet(final(self)) { unimplemented!() }
    #[verifier::external_body]
    fn match_token(&mut self, kind: TokenKind) -> (r: bool) ensures old(self).quiet(final(self)), final(self).parsed_at == old(self).parsed_at, final(self).single_target_mode == old(self).single_target_mode, final(self).nesting == old(self).nesting, r ==> final(self).previous.kind == kind, !r ==> final(self).previous == old(self).previous { unimplemented!() }
    #[verifier::external_body]
    fn check_any(&self, kinds: &[TokenKind]) -> bool { unimplemented!() }
    #[verifier::external_body]
    fn error_at_current(&mut self, message: &str) ensures final(self).comp == old(self).comp, final(self).targets == old(self).targets, final(self).had_error { unimplemented!() }
    #[verifier::external_body]
    fn compiler_error(&mut self, error: CompilerError) ensures final(self).comp == old(self).comp, final(self).targets == old(self).targets, final(self).had_error { unimplemented!() }

    // ---- assignment and compound assignment to a named variable
    // what resolution found for a name (unit compiler: Parser::resolve_variable): a matching get / set pair and the operand
    #[verifier::external_body]
    fn resolve_variable(&mut self, name: &Token) -> (r: (OpCode, OpCode, u16))
        ensures old(self).quiet(final(self)), final(self).parsed_at == old(self).parsed_at, final(self).single_target_mode == old(self).single_target_mode, final(self).previous == old(self).previous, final(self).nesting == old(self).nesting, access_pair(r.0, r.1)
    { unimplemented!() }
    // byte-level contract: unit compiler (Parser::emit_variable_op): the opcode, then a one- or two-byte operand
    #[verifier::external_body]
    fn emit_variable_op(&mut self, opcode: OpCode, variable: u16)
        ensures final(self).code().len() == old(self).code().len() + var_op_len(opcode), final(self).code()[old(self).code().len() as int] == opcode_byte(opcode), old(self).extends(final(self)),
            final(self).targets == old(self).targets, final(self).had_error == old(self).had_error, final(self).parsed_at == old(self).parsed_at, final(self).single_target_mode == old(self).single_target_mode, final(self).previous == old(self).previous, final(self).nesting == old(self).nesting
    { unimplemented!() }
    #[verifier::external_body]
    fn verif_has_byte_operand(opcode: &OpCode) -> (r: bool) ensures r == byte_operand(*opcode) { unimplemented!() }

    //@fn file=yarel/src/compiler.rs path=Parser::match_binary_assignment ret=r
    //@  ensures r ==> compound_op(final(self).previous.kind) is Some
    //@  ensures old(self).quiet(final(self)), final(self).parsed_at == old(self).parsed_at, final(self).single_target_mode == old(self).single_target_mode, final(self).nesting == old(self).nesting
    //@end

    // `x OP= E`:   Get x   E   OP   (then Set x, emitted by named_variable): the variable is read BEFORE the right operand
    // is evaluated, the operator is the one the token names, the right operand binds tighter than comparison / logic
    //@fn file=yarel/src/compiler.rs path=Parser::binary_assign
    //@  rewrite R21
    //@  subst "_ => unreachable!()," => "_ => verif_unreachable(),"
    //@  subst "self.expression();" => "self.expression_in_target_mode();"
    //@  requires compound_op(old(self).previous.kind) is Some
    //@  ensures @a_compound_assignment_reads_the_variable_first final(self).code()[old(self).code().len() as int] == opcode_byte(get_op) && final(self).code().len() >= old(self).code().len() + var_op_len(get_op) + 1
    //@  ensures @a_compound_assignment_applies_the_operator_its_token_names final(self).code().last() == opcode_byte(compound_op(old(self).previous.kind)->0)
    //@  ensures @the_right_operand_of_a_compound_assignment_binds_above_comparison final(self).parsed_at == old(self).parsed_at.push(Precedence::BitwiseOr)
    //@  ensures old(self).extends(final(self)), !final(self).single_target_mode
    //@end

    // a name in an expression: plain read, `name = E` (value, then Set), or `name OP= E` (Get, E, OP, then Set)
    //@fn file=yarel/src/compiler.rs path=Parser::named_variable
    //@  rewrite R21
    //@  subst "get_op.arg_sizes() == &[1]" => "Parser::verif_has_byte_operand(&get_op)"
    //@  ensures old(self).extends(final(self)), final(self).code().len() >= old(self).code().len() + 2
    //@  ensures @a_name_that_cannot_be_assigned_is_only_read !can_assign ==> final(self).code().len() <= old(self).code().len() + 3 && is_get(final(self).code()[old(self).code().len() as int]) && final(self).parsed_at == old(self).parsed_at
    //@  ensures @every_use_of_a_name_is_a_read_or_ends_in_a_store_to_it (is_get(final(self).code()[old(self).code().len() as int]) && final(self).code().len() <= old(self).code().len() + 3 && final(self).parsed_at == old(self).parsed_at) || is_set(final(self).code()[final(self).code().len() - 2]) || is_set(final(self).code()[final(self).code().len() - 3])
    //@end

    // if C { T } [else E]:   C  JumpIfFalse→X  Pop  T  Jump→END  X: Pop  E  END:
    // a false condition continues right behind the jump that ends the then-part, at a Pop (the condition is popped on
    // both paths, once); the then-part's closing jump continues behind the whole statement.
    //@fn file=yarel/src/compiler.rs path=Parser::if_statement
    //@  rewrite R21
    //@  requires old(self).code().len() < 0x4000_0000_0000_0000
    //@  assert @false_condition_continues_at_the_else_part after_stmt "self.patch_jump(then_jump)" self.targets[then_jump as int] == else_jump + 2 && self.targets[then_jump as int] == self.code().len() && self.code()[then_jump + 2] == opcode_byte(OpCode::Pop) && self.code()[then_jump - 1] == opcode_byte(OpCode::JumpIfFalse) && self.code()[else_jump - 1] == opcode_byte(OpCode::Jump)
    //@  assert @else_part_starts_by_dropping_the_condition before_stmt "if self.match_token(TokenKind::Else)" self.code()[self.targets[then_jump as int]] == opcode_byte(OpCode::Pop)
    //@  assert @then_part_skips_the_else_part after_stmt "self.patch_jump(else_jump)" self.targets.dom().contains(else_jump as int) && self.targets[else_jump as int] == self.code().len() && self.targets[then_jump as int] == else_jump + 2
    //@end

    // while C { B }:   L: C  JumpIfFalse→X  Pop  B  Loop→L  X: Pop
    //@fn file=yarel/src/compiler.rs path=Parser::while_statement
    //@  rewrite R21
    //@  requires old(self).code().len() < 0x4000_0000_0000_0000
    //@  assert @loop_jumps_back_to_the_condition after_stmt "self.emit_loop(loop_start)" self.targets[self.code().len() - 2] == old(self).code().len() && self.code()[self.code().len() - 3] == opcode_byte(OpCode::Loop)
    //@  assert @false_condition_leaves_the_loop_behind_the_back_jump after_stmt "self.patch_jump(exit_jump)" self.targets[exit_jump as int] == self.code().len() && self.code()[self.code().len() - 3] == opcode_byte(OpCode::Loop) && self.code()[exit_jump + 2] == opcode_byte(OpCode::Pop) && self.code()[exit_jump - 1] == opcode_byte(OpCode::JumpIfFalse)
    //@  assert @loop_exit_drops_the_condition after_stmt "self.emit_byte(opcode_u8(OpCode::Pop))#2" self.code()[self.targets[exit_jump as int]] == opcode_byte(OpCode::Pop) && self.code().len() == self.targets[exit_jump as int] + 1
    //@end

    // for v in E { B }:   Nil  E  Invoke iter 0   L: IterNext  SetLocal v  JumpIfStopIter→X  Pop  B  Loop→L   X: Pop
    // every iteration starts by asking the iterator for its next value and storing it in the loop variable; the exit
    // test looks at that value; the back jump returns to the iterator step; the exit continues behind the back jump,
    // at the Pop that drops the StopIter value (the fall-through path has its own Pop)
    //@fn file=yarel/src/compiler.rs path=Parser::for_statement props=C05,C18
    //@  rewrite R21
    //@  requires old(self).code().len() < 0x4000_0000_0000_0000, old(self).comp.locals@.len() >= 1
    //@  assert @each_iteration_asks_the_iterator_and_stores_the_value_in_the_loop_variable before_stmt "self.emit_byte(opcode_u8(OpCode::Pop))#1" self.code().len() == loop_start + 6 && self.code()[loop_start as int] == opcode_byte(OpCode::IterNext) && self.code()[loop_start + 1] == opcode_byte(OpCode::SetLocal) && self.code()[loop_start + 2] == loop_var as u8 && self.code()[loop_start + 3] == opcode_byte(OpCode::JumpIfStopIter) && exit_jump == loop_start + 4
    //@  assert @loop_jumps_back_to_the_iterator_step after_stmt "self.emit_loop(loop_start)" self.targets[self.code().len() - 2] == loop_start && self.code()[self.code().len() - 3] == opcode_byte(OpCode::Loop) && self.code()[loop_start as int] == opcode_byte(OpCode::IterNext)
    //@  assert @exhausted_iterator_leaves_the_loop_behind_the_back_jump after_stmt "self.patch_jump(exit_jump)" self.targets[exit_jump as int] == self.code().len() && self.code()[self.code().len() - 3] == opcode_byte(OpCode::Loop) && self.code()[exit_jump + 2] == opcode_byte(OpCode::Pop)
    //@  assert @loop_exit_drops_the_stop_value after_stmt "self.emit_byte(opcode_u8(OpCode::Pop))#2" self.code()[self.targets[exit_jump as int]] == opcode_byte(OpCode::Pop) && self.code().len() == self.targets[exit_jump as int] + 1
    //@end

    // A and B:   A  JumpIfFalse→END  Pop  B  END:   (a falsey A is the result: JumpIfFalse leaves it on the stack)
    //@fn file=yarel/src/compiler.rs path=Parser::and
    //@  rewrite R21
    //@  requires old(s).code().len() < 0x4000_0000_0000_0000
    //@  ensures @right_operand_binds_at_the_level_of_and final(s).parsed_at == old(s).parsed_at.push(Precedence::And)
    //@  ensures @falsey_left_operand_skips_the_right_operand final(s).code()[old(s).code().len() as int] == opcode_byte(OpCode::JumpIfFalse) && final(s).targets.dom().contains(old(s).code().len() as int + 1) && final(s).targets[old(s).code().len() as int + 1] == final(s).code().len() && final(s).code()[old(s).code().len() as int + 3] == opcode_byte(OpCode::Pop)
    //@end

    // A or B:   A  JumpIfFalse→X  Jump→END  X: Pop  B  END:   (a truthy A is the result)
    //@fn file=yarel/src/compiler.rs path=Parser::or
    //@  rewrite R21
    //@  requires old(s).code().len() < 0x4000_0000_0000_0000
    //@  ensures @right_operand_binds_at_the_level_of_or final(s).parsed_at == old(s).parsed_at.push(Precedence::Or)
    //@  ensures @truthy_left_operand_skips_the_right_operand ({ let n = old(s).code().len() as int; final(s).code()[n] == opcode_byte(OpCode::JumpIfFalse) && final(s).code()[n + 3] == opcode_byte(OpCode::Jump) && final(s).targets.dom().contains(n + 1) && final(s).targets[n + 1] == n + 6 && final(s).code()[n + 6] == opcode_byte(OpCode::Pop) && final(s).targets.dom().contains(n + 4) && final(s).targets[n + 4] == final(s).code().len() })
    //@end
}

} // verus!
fn main() {}
