//@unit resetu
//@property C15
// "After a reset the interpreter is indistinguishable from a newly created one" (yarel/src/vm.rs Vm::reset), as far as
// the state a program can observe through names is concerned: the module registry holds `main` only, `main`'s global
// table is exactly what Vm::with_built_ins puts there (init_built_in_globals applied to an EMPTY table), the chunk list
// is the core chunk list, and the failed/finished run's stack is gone.
use vstd::prelude::*;
verus! {

global size_of usize == 8;

#[verifier::external_body]
#[verifier::accept_recursive_types(T)]
pub struct Gc<T> { p: core::marker::PhantomData<T> }
impl<T> Clone for Gc<T> { #[verifier::external_body] fn clone(&self) -> (r: Self) ensures r == *self { Gc { p: core::marker::PhantomData } } }
impl<T> Copy for Gc<T> {}
impl<T> Gc<T> { pub uninterp spec fn id(&self) -> int; }
pub struct RefCell<T> { pub v: T }
pub struct ObjModule { }
#[verifier::external_body]
pub struct Value { _p: u8 }

// names are modelled by an uninterpreted key (interned strings: C11)
pub type Name = int;
pub uninterp spec fn main_name() -> Name;
// the table init_built_in_globals writes (clock, type, print, Type, Object, … the core classes)
pub uninterp spec fn built_ins() -> Map<Name, Value>;

// object.rs new_obj_string_value_map(): an empty name -> value table
pub struct AttrMap { pub ghost m: Map<Name, Value> }
#[verifier::external_body]
fn new_obj_string_value_map() -> (r: AttrMap) ensures r.m == Map::<Name, Value>::empty() { unimplemented!() }

// the chunk list (Vec<Root<Chunk>>): only its identity as a list matters here
pub struct ChunkList { pub ghost ids: Seq<int> }
impl ChunkList {
    #[verifier::external_body]
    fn clone(&self) -> (r: ChunkList) ensures r.ids == self.ids { unimplemented!() }
}
// the module registry: registered path -> module cell
pub struct ModReg { pub ghost m: Map<Name, int> }

pub struct Vm {
    pub chunks: ChunkList,
    pub core_chunks: ChunkList,
    pub modules: ModReg,
    pub active_module: Gc<RefCell<ObjModule>>,
    pub ghost attrs: Map<int, Map<Name, Value>>,   // module cell -> its global table
    pub ghost stack_cleared: bool,
}

impl Vm {
    // vm.rs reset_stack (unit `fiber`: upvalues closed first): the active fiber's stacks are emptied
    #[verifier::external_body]
    fn reset_stack(&mut self)
        ensures final(self).stack_cleared, final(self).chunks == old(self).chunks, final(self).core_chunks == old(self).core_chunks, final(self).modules == old(self).modules,
            final(self).active_module == old(self).active_module, final(self).attrs == old(self).attrs
    { unimplemented!() }
    // `self.modules.retain(|&k, _| k.as_str() == "main")` (closure + str comparison: by contract)
    #[verifier::external_body]
    fn retain_main_module(&mut self)
        ensures final(self).modules.m == old(self).modules.m.restrict(set![main_name()]),
            final(self).stack_cleared == old(self).stack_cleared, final(self).chunks == old(self).chunks, final(self).core_chunks == old(self).core_chunks,
            final(self).active_module == old(self).active_module, final(self).attrs == old(self).attrs
    { unimplemented!() }
    // Vm::module (unit `modules`): the registered object, or a fresh registered one with an empty table
    #[verifier::external_body]
    fn module_main(&mut self) -> (r: Gc<RefCell<ObjModule>>)
        ensures old(self).modules.m.dom().contains(main_name()) ==> r.id() == old(self).modules.m[main_name()] && final(self).modules == old(self).modules && final(self).attrs == old(self).attrs,
            !old(self).modules.m.dom().contains(main_name()) ==> !old(self).attrs.dom().contains(r.id()) && final(self).modules.m == old(self).modules.m.insert(main_name(), r.id()) && final(self).attrs == old(self).attrs.insert(r.id(), Map::<Name, Value>::empty()),
            final(self).stack_cleared == old(self).stack_cleared, final(self).chunks == old(self).chunks, final(self).core_chunks == old(self).core_chunks, final(self).active_module == old(self).active_module,
    { unimplemented!() }
    // `self.active_module.borrow_mut().attributes = X`
    #[verifier::external_body]
    fn set_active_module_attributes(&mut self, a: AttrMap)
        ensures final(self).attrs == old(self).attrs.insert(old(self).active_module.id(), a.m),
            final(self).stack_cleared == old(self).stack_cleared, final(self).chunks == old(self).chunks, final(self).core_chunks == old(self).core_chunks,
            final(self).active_module == old(self).active_module, final(self).modules == old(self).modules
    { unimplemented!() }
    // vm.rs init_built_in_globals("main"): define_native / set_global on the module registered as `main` — every built-in
    // name is (re)bound, no other name of the table is touched
    #[verifier::external_body]
    fn init_built_in_globals_main(&mut self)
        requires old(self).modules.m.dom().contains(main_name())
        ensures final(self).attrs == old(self).attrs.insert(old(self).modules.m[main_name()], old(self).attrs[old(self).modules.m[main_name()]].union_prefer_right(built_ins())),
            final(self).stack_cleared == old(self).stack_cleared, final(self).chunks == old(self).chunks, final(self).core_chunks == old(self).core_chunks,
            final(self).active_module == old(self).active_module, final(self).modules == old(self).modules
    { unimplemented!() }

    //@fn file=yarel/src/vm.rs path=Vm::reset
    //@  subst "self.modules.retain(|&k, _| k.as_str() == \"main\");" => "self.retain_main_module();"
    //@  subst "self.module(\"main\")" => "self.module_main()"
    //@  subst "self.active_module.borrow_mut().attributes = object::new_obj_string_value_map();" => "self.set_active_module_attributes(new_obj_string_value_map());"
    //@  subst "self.init_built_in_globals(\"main\");" => "self.init_built_in_globals_main();"
    //@  ensures @the_previous_runs_stack_is_gone final(self).stack_cleared
    //@  ensures @only_main_stays_registered final(self).modules.m.dom() =~= set![main_name()]
    //@  ensures @mains_globals_are_exactly_the_built_ins final(self).modules.m.dom().contains(main_name()) && final(self).attrs.dom().contains(final(self).modules.m[main_name()]) && final(self).attrs[final(self).modules.m[main_name()]] =~= built_ins()
    //@  ensures @main_is_the_active_namespace final(self).active_module.id() == final(self).modules.m[main_name()]
    //@  ensures @user_chunks_are_dropped final(self).chunks.ids == final(self).core_chunks.ids && final(self).core_chunks == old(self).core_chunks
    //@end
}

} // verus!
fn main() {}
