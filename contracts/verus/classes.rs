//@unit classes
//@property C07
// Member lookup and method binding (yarel/src/vm.rs): an instance's own fields first, otherwise the method table of its
// class — which already contains the inherited methods, copied down when the class was defined — a method taken as a
// value is bound to the instance it was taken from, and `super` dispatches on the class VALUE the compiler captured
// (the declared superclass), never on the receiver's dynamic class.
//
// Method and field tables are std HashMaps keyed by interned name strings (identity = content, C11): by contract, as
// maps from the key's cell to the value. Instances and modules are heap cells read through ghost maps.
use vstd::prelude::*;
use std::ops::Deref;
verus! {

global size_of usize == 8;

// ------------------------------------------------------------------ environment stand-ins (assumed)
#[verifier::external_body]
#[verifier::accept_recursive_types(T)]
pub struct Gc<T> { p: core::marker::PhantomData<T> }
impl<T> Clone for Gc<T> { #[verifier::external_body] fn clone(&self) -> (r: Self) ensures r == *self { Gc { p: core::marker::PhantomData } } }
impl<T> Copy for Gc<T> {}
impl<T> Gc<T> {
    pub uninterp spec fn id(&self) -> int;
    pub uninterp spec fn obj(&self) -> T;       // content of an immutable cell (classes after their definition)
}
// memory.rs `impl PartialEq for Gc`: pointer comparison — two handles are equal iff they are the same handle value
#[verifier::external_body]
fn gc_eq<T>(a: Gc<T>, b: Gc<T>) -> (r: bool) ensures r == (a == b) { unimplemented!() }
impl<T> Deref for Gc<T> {
    type Target = T;
    #[verifier::external_body]
    fn deref(&self) -> (r: &T) ensures *r == self.obj() { unimplemented!() }
}
#[verifier::external_body]
#[verifier::accept_recursive_types(T)]
pub struct Root<T> { p: core::marker::PhantomData<T> }
impl<T> Root<T> {
    pub uninterp spec fn id(&self) -> int;
    pub uninterp spec fn gc(&self) -> Gc<T>;
    #[verifier::external_body]
    pub fn as_gc(&self) -> (g: Gc<T>) ensures g == self.gc(), g.id() == self.id() { unimplemented!() }
}
pub struct RefCell<T> { pub v: T }
pub struct ObjString { }
pub struct ObjClosure { }
pub struct ObjNative { }
//@enum file=yarel/src/error.rs name=ErrorKind
pub struct Error { pub kind: ErrorKind }
#[verifier::external_body]
fn verif_error(kind: ErrorKind) -> (e: Error) ensures e.kind == kind { Error { kind } }

//@enum file=yarel/src/value.rs name=Value keep=ObjNative,ObjClosure,ObjClass,ObjInstance,ObjBoundMethod,ObjBoundNative,ObjModule,None other=Other
impl Value {
    //@fn file=yarel/src/value.rs path=Value::try_as_obj_instance ret=r
    //@  ensures r == (match *self { Value::ObjInstance(i) => Some(i), _ => None })
    //@end
    //@fn file=yarel/src/value.rs path=Value::try_as_obj_module ret=r
    //@  ensures r == (match *self { Value::ObjModule(i) => Some(i), _ => None })
    //@end
    //@fn file=yarel/src/value.rs path=Value::try_as_obj_class ret=r
    //@  ensures r == (match *self { Value::ObjClass(i) => Some(i), _ => None })
    //@end
}

// std HashMap<Gc<ObjString>, Value, _> by contract
pub struct VMap { pub ghost view: Map<int, Value> }
impl VMap {
    #[verifier::external_body]
    fn get(&self, k: &Gc<ObjString>) -> (r: Option<&Value>)
        ensures self.view.dom().contains(k.id()) ==> (r matches Some(v) && *v == self.view[k.id()]), !self.view.dom().contains(k.id()) ==> r is None,
    { unimplemented!() }
    #[verifier::external_body]
    fn contains_key(&self, k: &Gc<ObjString>) -> (r: bool) ensures r == self.view.dom().contains(k.id()) { unimplemented!() }
    #[verifier::external_body]
    fn insert(&mut self, k: Gc<ObjString>, v: Value) -> (r: Option<Value>) ensures final(self).view == old(self).view.insert(k.id(), v) { unimplemented!() }
    #[verifier::external_body]
    fn remove(&mut self, k: &Gc<ObjString>) -> (r: Option<Value>) ensures final(self).view == old(self).view.remove(k.id()) { unimplemented!() }
    // R24: `entry(k).or_insert(v)` — inserts only when the key is absent
    #[verifier::external_body]
    fn entry_or_insert(&mut self, k: Gc<ObjString>, v: Value)
        ensures old(self).view.dom().contains(k.id()) ==> final(self).view == old(self).view, !old(self).view.dom().contains(k.id()) ==> final(self).view == old(self).view.insert(k.id(), v)
    { unimplemented!() }
    // `for (name, method) in &other { self.insert(*name, *method); }` — std iteration visits every entry once
    #[verifier::external_body]
    fn insert_all_from(&mut self, other: &VMap)
        ensures final(self).view == old(self).view.union_prefer_right(other.view)
    { unimplemented!() }
}

//@struct file=yarel/src/object.rs name=ObjClass map "HashMap<Gc<ObjString>, Value, BuildPassThroughHasher>" => "VMap"
//@struct file=yarel/src/object.rs name=ObjInstance map "HashMap<Gc<ObjString>, Value, BuildPassThroughHasher>" => "VMap"
//@struct file=yarel/src/object.rs name=ObjModule keepfields=class,attributes map "HashMap<Gc<ObjString>, Value, BuildPassThroughHasher>" => "VMap"
//@struct file=yarel/src/object.rs name=ObjBoundMethod map "ObjBoundMethod<T: GcManaged>" => "ObjBoundMethod<T>"
// the class under construction: UniqueRoot<ObjClass> is a unique owner, modelled by the owned value
//@struct file=yarel/src/vm.rs name=ClassDef map "UniqueRoot<ObjClass>" => "ObjClass"


// lookups in a class's method table
pub open spec fn has_method(c: Gc<ObjClass>, k: int) -> bool { c.obj().methods.view.dom().contains(k) }
pub open spec fn closure_method(c: Gc<ObjClass>, k: int) -> bool { has_method(c, k) && c.obj().methods.view[k] is ObjClosure }
pub open spec fn native_method(c: Gc<ObjClass>, k: int) -> bool { has_method(c, k) && c.obj().methods.view[k] is ObjNative }
pub open spec fn the_closure(c: Gc<ObjClass>, k: int) -> Gc<ObjClosure> { c.obj().methods.view[k]->ObjClosure_0 }
pub open spec fn the_native(c: Gc<ObjClass>, k: int) -> Gc<ObjNative> { c.obj().methods.view[k]->ObjNative_0 }
// "v is the method m bound to receiver recv"
pub open spec fn is_bound(v: Value, recv: Value, m: Gc<ObjClosure>) -> bool { v is ObjBoundMethod && v->ObjBoundMethod_0.obj().v.receiver == recv && v->ObjBoundMethod_0.obj().v.method == m }
pub open spec fn is_bound_native(v: Value, recv: Value, m: Gc<ObjNative>) -> bool { v is ObjBoundNative && v->ObjBoundNative_0.obj().v.receiver == recv && v->ObjBoundNative_0.obj().v.method == m }
// method tables hold closures and natives only (Method/StaticMethod operands are closures; core classes register natives)
pub open spec fn tables_ok() -> bool { forall|c: Gc<ObjClass>, k: int| has_method(c, k) ==> (#[trigger] c.obj().methods.view[k] is ObjClosure || c.obj().methods.view[k] is ObjNative) }

// what a call made by these functions was made on
pub enum Callee { Closure(Gc<ObjClosure>), Native(Gc<ObjNative>), AnyValue(Value) }

// The built-in classes whose instances are native objects / values, not ObjInstances (their native methods expect that
// representation): the NativeValue / NativeObject kinds of the class store (class_store.rs is_native_class, generated)
// AND the String class, which does not live in the class store but in `Vm.string_class` (vm.rs init_heap_allocated_data)
pub uninterp spec fn store_native(c: Gc<ObjClass>) -> bool;
pub open spec fn native_class(vm: &Vm, c: Gc<ObjClass>) -> bool { store_native(c) || c == vm.the_string_class }
#[verifier::external_body]
pub struct ClassStore { _p: u8 }
// the method table of the root class Object (core.yl / class_store: `derives`, `iter` …)
pub uninterp spec fn object_methods() -> Map<int, Value>;
// every class has Object in its ancestry: its table has an entry for every method name of Object
pub open spec fn derives_object(c: Gc<ObjClass>) -> bool { object_methods().dom().subset_of(c.obj().methods.view.dom()) }
impl ClassStore {
    #[verifier::external_body]
    fn is_native_class(&self, class: Gc<ObjClass>) -> (r: bool) ensures r == store_native(class) { unimplemented!() }
    #[verifier::external_body]
    fn object_class(&self) -> (r: Gc<ObjClass>) ensures r.obj().methods.view == object_methods() { unimplemented!() }
    #[verifier::external_body]
    fn base_metaclass(&self) -> (r: Gc<ObjClass>) { unimplemented!() }
}
#[verifier::external_body]
fn new_obj_string_value_map() -> (r: VMap) ensures r.view == Map::<int, Value>::empty() { unimplemented!() }
// UniqueRoot::new(x): unique ownership of a not yet shared object — modelled by the owned value
#[verifier::external_body]
fn unique_root_new(x: ObjClass) -> (r: ObjClass) ensures r == x { unimplemented!() }
// `let r: Root<ObjClass> = unique.into()`: the object becomes a shared heap cell with exactly that content
#[verifier::external_body]
fn into_root(x: ObjClass) -> (r: Root<ObjClass>) ensures r.gc().obj() == x { unimplemented!() }
#[verifier::external_body]
fn metaclass_name(vm: &mut Vm, name: Gc<ObjString>) -> (r: Gc<ObjString>) ensures *final(vm) == *old(vm) { unimplemented!() }

impl ObjClass {
    // A class object: its table is the superclass's table (copy-down at creation) overlaid with its own methods
    //@fn file=yarel/src/object.rs path=ObjClass::new ret=r
    //@  subst "parent.methods.clone()" => "vmap_clone(&parent.methods)"
    //@  subst "for (&k, &v) in &methods { merged_methods.insert(k, v); }" => "merged_methods.insert_all_from(&methods);"
    //@  sig "methods: ObjStringValueMap" => "methods: VMap"
    //@  ensures r.name == name, r.metaclass == metaclass, r.superclass == superclass
    //@  ensures @a_class_starts_with_its_superclasss_table_overlaid_with_its_own r.methods.view == (match superclass { Some(p) => p.obj().methods.view, None => Map::<int, Value>::empty() }).union_prefer_right(methods.view)
    //@end
}
#[verifier::external_body]
fn vmap_clone(m: &VMap) -> (r: VMap) ensures r.view == m.view { unimplemented!() }
pub struct Vm {
    pub class_store: ClassStore,
    pub working_class_def: Option<ClassDef>,
    pub ghost stack: Seq<Value>,
    pub ghost insts: Map<int, ObjInstance>,
    pub ghost mods: Map<int, ObjModule>,
    pub ghost raised: Option<ErrorKind>,
    pub ghost called: Option<(Callee, usize)>,
    pub ghost stack_at_call: Seq<Value>,   // the value stack as the callee of the last call found it
    pub ghost next_name: int,
    pub ghost next_byte: u8,
    pub ghost the_string_class: Gc<ObjClass>,   // the cell `Vm.string_class` roots
    pub next_string: Gc<ObjString>,             // the interned name "next" (vm.rs init_heap_allocated_data)
}

impl Vm {
    // `self.string_class.as_ref().expect(..).as_gc()`: the String class (set once by init_heap_allocated_data)
    #[verifier::external_body]
    fn string_class_gc(&self) -> (r: Gc<ObjClass>) ensures r == self.the_string_class { unimplemented!() }
    pub open spec fn same_heap(&self, o: &Vm) -> bool { self.insts == o.insts && self.mods == o.mods && self.working_class_def == o.working_class_def && self.next_string == o.next_string && self.the_string_class == o.the_string_class }
    pub open spec fn quiet(&self, o: &Vm) -> bool { self.same_heap(o) && self.stack == o.stack && self.raised == o.raised && self.called == o.called && self.next_name == o.next_name && self.next_byte == o.next_byte }
    pub open spec fn top(&self, depth: int) -> Value { self.stack[self.stack.len() - 1 - depth] }
    // every instance / module value on the stack designates a cell with content
    pub open spec fn wf(&self) -> bool {
        forall|i: int| 0 <= i < self.stack.len() ==> match #[trigger] self.stack[i] {
            Value::ObjInstance(g) => self.insts.dom().contains(g.id()),
            Value::ObjModule(g) => self.mods.dom().contains(g.id()),
            _ => true,
        }
    }

    #[verifier::external_body]
    fn inst(&self, g: Gc<RefCell<ObjInstance>>) -> (r: &ObjInstance) requires self.insts.dom().contains(g.id()) ensures *r == self.insts[g.id()] { unimplemented!() }
    #[verifier::external_body]
    fn modl(&self, g: Gc<RefCell<ObjModule>>) -> (r: &ObjModule) requires self.mods.dom().contains(g.id()) ensures *r == self.mods[g.id()] { unimplemented!() }
    #[verifier::external_body]
    fn read_string(&mut self) -> (r: Gc<ObjString>) ensures r.id() == old(self).next_name, old(self).same_heap(final(self)), final(self).stack == old(self).stack, final(self).raised == old(self).raised, final(self).called == old(self).called, final(self).next_byte == old(self).next_byte { unimplemented!() }
    #[verifier::external_body]
    fn read_byte(&mut self) -> (r: u8) ensures r == old(self).next_byte, old(self).same_heap(final(self)), final(self).stack == old(self).stack, final(self).raised == old(self).raised, final(self).called == old(self).called, final(self).next_name == old(self).next_name { unimplemented!() }
    #[verifier::external_body]
    fn peek(&self, depth: usize) -> (r: Value) requires depth < self.stack.len() ensures r == self.top(depth as int) { unimplemented!() }
    #[verifier::external_body]
    fn push(&mut self, value: Value) ensures final(self).stack == old(self).stack.push(value), old(self).same_heap(final(self)), final(self).raised == old(self).raised, final(self).called == old(self).called, final(self).next_name == old(self).next_name { unimplemented!() }
    #[verifier::external_body]
    fn pop(&mut self) -> (r: Value) requires old(self).stack.len() > 0 ensures r == old(self).stack.last(), final(self).stack == old(self).stack.drop_last(), old(self).same_heap(final(self)), final(self).raised == old(self).raised, final(self).called == old(self).called, final(self).next_name == old(self).next_name { unimplemented!() }
    #[verifier::external_body]
    fn poke(&mut self, depth: usize, value: Value) requires depth < old(self).stack.len() ensures final(self).stack == old(self).stack.update(old(self).stack.len() - 1 - depth, value), old(self).same_heap(final(self)), final(self).raised == old(self).raised, final(self).called == old(self).called { unimplemented!() }
    // vm.rs get_class: the class of an instance is its `class` field (the other kinds: core classes, not modelled)
    pub uninterp spec fn class_of_other(v: Value) -> Gc<ObjClass>;
    pub open spec fn class_of(&self, v: Value) -> Gc<ObjClass> {
        match v { Value::ObjInstance(g) => self.insts[g.id()].class, Value::ObjModule(g) => self.mods[g.id()].class, Value::ObjClass(c) => c.obj().metaclass, _ => Self::class_of_other(v) }
    }
    #[verifier::external_body]
    fn get_class(&self, value: Value) -> (r: Gc<ObjClass>) ensures r == self.class_of(value) { unimplemented!() }
    #[verifier::external_body]
    fn new_root_obj_bound_method<T>(&mut self, receiver: Value, method: Gc<T>) -> (r: Root<RefCell<ObjBoundMethod<T>>>)
        ensures r.gc().obj().v.receiver == receiver && r.gc().obj().v.method == method, old(self).quiet(final(self))
    { unimplemented!() }
    #[verifier::external_body]
    fn new_root_obj_instance(&mut self, class: Gc<ObjClass>) -> (r: Root<RefCell<ObjInstance>>)
        ensures !old(self).insts.dom().contains(r.id()), final(self).insts == old(self).insts.insert(r.id(), ObjInstance { class, fields: VMap { view: Map::empty() } }),
            final(self).mods == old(self).mods, final(self).working_class_def == old(self).working_class_def, final(self).stack == old(self).stack, final(self).raised == old(self).raised, final(self).called == old(self).called,
    { unimplemented!() }
    #[verifier::external_body]
    fn try_handle_error(&mut self, error: Error) -> (r: Result<(), Error>) ensures old(self).same_heap(final(self)), final(self).raised == Some(error.kind), final(self).called == old(self).called { unimplemented!() }
    #[verifier::external_body]
    fn call_closure(&mut self, closure: Gc<ObjClosure>, arg_count: usize) -> (r: Result<(), Error>) ensures old(self).same_heap(final(self)), final(self).stack_at_call == old(self).stack, final(self).called == Some((Callee::Closure(closure), arg_count)), final(self).raised == old(self).raised { unimplemented!() }
    #[verifier::external_body]
    fn call_native(&mut self, native: Gc<ObjNative>, arg_count: usize) -> (r: Result<(), Error>) ensures old(self).same_heap(final(self)), final(self).stack_at_call == old(self).stack, final(self).called == Some((Callee::Native(native), arg_count)), final(self).raised == old(self).raised { unimplemented!() }
    #[verifier::external_body]
    fn call_value(&mut self, value: Value, arg_count: usize) -> (r: Result<(), Error>) ensures old(self).same_heap(final(self)), final(self).stack_at_call == old(self).stack, final(self).called == Some((Callee::AnyValue(value), arg_count)), final(self).raised == old(self).raised { unimplemented!() }

    pub open spec fn inst_of(&self, v: Value) -> ObjInstance { self.insts[v->ObjInstance_0.id()] }
    // `instance.borrow_mut().fields` / `module.borrow_mut().attributes` as places
    #[verifier::external_body]
    fn inst_fields_mut(&mut self, g: Gc<RefCell<ObjInstance>>) -> (r: &mut VMap)
        requires old(self).insts.dom().contains(g.id())
        ensures *r == old(self).insts[g.id()].fields, final(self).insts == old(self).insts.insert(g.id(), ObjInstance { class: old(self).insts[g.id()].class, fields: *final(r) }),
            final(self).mods == old(self).mods, final(self).working_class_def == old(self).working_class_def, final(self).stack == old(self).stack, final(self).raised == old(self).raised, final(self).called == old(self).called, final(self).next_name == old(self).next_name
    { unimplemented!() }
    #[verifier::external_body]
    fn mod_attributes_mut(&mut self, g: Gc<RefCell<ObjModule>>) -> (r: &mut VMap)
        requires old(self).mods.dom().contains(g.id())
        ensures *r == old(self).mods[g.id()].attributes, final(self).mods == old(self).mods.insert(g.id(), ObjModule { class: old(self).mods[g.id()].class, attributes: *final(r) }),
            final(self).insts == old(self).insts, final(self).working_class_def == old(self).working_class_def, final(self).stack == old(self).stack, final(self).raised == old(self).raised, final(self).called == old(self).called, final(self).next_name == old(self).next_name
    { unimplemented!() }

    // SetProperty (stack: receiver, value): the receiver instance's OWN field of that name becomes the value — no other
    // field, no other instance and no class table changes — and the expression's value is the assigned value; a module's
    // attribute likewise; anything else has no fields: AttributeError, nothing changes.
    //@fn file=yarel/src/vm.rs path=Vm::set_property_impl ret=r
    //@  rewrite R1
    //@  subst "module.borrow_mut().attributes.insert(name, value);" => "self.mod_attributes_mut(module).insert(name, value);"
    //@  subst "instance.borrow_mut().fields.insert(name, value);" => "self.inst_fields_mut(instance).insert(name, value);"
    //@  requires old(self).wf(), old(self).stack.len() >= 2
    //@  ensures @assignment_sets_exactly_that_field_of_that_instance old(self).top(1) is ObjInstance ==> r is Ok && ({ let id = old(self).top(1)->ObjInstance_0.id(); final(self).insts == old(self).insts.insert(id, ObjInstance { class: old(self).insts[id].class, fields: VMap { view: old(self).insts[id].fields.view.insert(old(self).next_name, old(self).top(0)) } }) }) && final(self).mods == old(self).mods
    //@  ensures @the_assignment_expression_yields_the_assigned_value (old(self).top(1) is ObjInstance || old(self).top(1) is ObjModule) ==> final(self).stack == old(self).stack.drop_last().drop_last().push(old(self).top(0)) && final(self).raised == old(self).raised
    //@  ensures @only_instances_and_modules_have_fields !(old(self).top(1) is ObjInstance || old(self).top(1) is ObjModule) ==> final(self).raised == Some(ErrorKind::AttributeError) && old(self).same_heap(final(self))
    //@  ensures final(self).working_class_def == old(self).working_class_def
    //@end

    // DeclareClass: a class under construction whose table is Object's (every class derives Object), a placeholder on
    // the stack; DefineClass: the class becomes a shared object with exactly the tables assembled, linked to its metaclass
    //@fn file=yarel/src/vm.rs path=Vm::declare_class_impl props=C07,C15
    //@  subst "self.new_gc_obj_string(format!(\"{}Class\", *name).as_str())" => "metaclass_name(self, name)"
    //@  subst "UniqueRoot::new(" => "unique_root_new("
    //@  subst "object::new_obj_string_value_map()" => "new_obj_string_value_map()"
    //@  subst "ClassDef::new(class, metaclass)" => "ClassDef { class, metaclass }"
    //@  ensures @a_declared_class_starts_with_objects_methods final(self).working_class_def is Some && final(self).working_class_def->0.class.methods.view =~= object_methods() && final(self).working_class_def->0.metaclass.methods.view =~= object_methods()
    //@  ensures @a_class_declaration_starts_a_class_of_the_declared_name_whatever_an_abandoned_declaration_left_behind final(self).working_class_def is Some && final(self).working_class_def->0.class.name.id() == old(self).next_name
    //@  ensures final(self).stack == old(self).stack.push(Value::None), final(self).insts == old(self).insts, final(self).mods == old(self).mods
    //@end
    //@fn file=yarel/src/vm.rs path=Vm::define_class_impl
    //@  subst "self.working_class_def.take().expect(\"Expected ClassDef.\")" => "self.working_class_def.take().unwrap()"
    //@  subst "let defined_metaclass: Root<ObjClass> = class_def.metaclass.into();" => "let defined_metaclass: Root<ObjClass> = into_root(class_def.metaclass);"
    //@  subst "let defined_class: Root<ObjClass> = class_def.class.into();" => "let defined_class: Root<ObjClass> = into_root(class_def.class);"
    //@  requires old(self).working_class_def is Some, old(self).stack.len() >= 1
    //@  ensures @the_defined_class_has_exactly_the_tables_assembled final(self).working_class_def is None && final(self).stack.len() == old(self).stack.len() && final(self).stack.drop_last() == old(self).stack.drop_last() && ({ let c = final(self).stack.last(); c is ObjClass && c->ObjClass_0.obj().methods == old(self).working_class_def->0.class.methods && c->ObjClass_0.obj().superclass == old(self).working_class_def->0.class.superclass && c->ObjClass_0.obj().metaclass.obj().methods == old(self).working_class_def->0.metaclass.methods })
    //@end

    // Method / StaticMethod: the closure on top of the stack becomes the member named by the operand
    //@fn file=yarel/src/vm.rs path=Vm::method_impl ret=r
    //@  requires old(self).stack.len() >= 1, old(self).working_class_def is Some
    //@  ensures @an_instance_method_goes_into_the_class_table r is Ok && final(self).working_class_def is Some && final(self).working_class_def->0.class.methods.view == old(self).working_class_def->0.class.methods.view.insert(old(self).next_name, old(self).stack.last()) && final(self).working_class_def->0.metaclass.methods.view == old(self).working_class_def->0.metaclass.methods.view.remove(old(self).next_name)
    //@end
    //@fn file=yarel/src/vm.rs path=Vm::static_method_impl ret=r
    //@  requires old(self).stack.len() >= 1, old(self).working_class_def is Some
    //@  ensures @a_static_method_or_constructor_goes_into_the_metaclass_table_too r is Ok && final(self).working_class_def is Some && final(self).working_class_def->0.metaclass.methods.view == old(self).working_class_def->0.metaclass.methods.view.insert(old(self).next_name, old(self).stack.last()) && final(self).working_class_def->0.class.methods.view == old(self).working_class_def->0.class.methods.view.insert(old(self).next_name, old(self).stack.last())
    //@end

    // Binding: the method named `name` of `class`, bound to the value on top of the stack (which it replaces).
    //@fn file=yarel/src/vm.rs path=Vm::bind_method ret=r
    //@  rewrite R1
    //@  requires old(self).stack.len() > 0, tables_ok()
    //@  ensures old(self).same_heap(final(self)), final(self).called == old(self).called
    //@  ensures @method_value_is_bound_to_the_instance_it_was_taken_from closure_method(class, name.id()) ==> r is Ok && final(self).stack.len() == old(self).stack.len() && final(self).stack.drop_last() == old(self).stack.drop_last() && is_bound(final(self).stack.last(), old(self).stack.last(), the_closure(class, name.id())) && final(self).raised == old(self).raised
    //@  ensures native_method(class, name.id()) ==> r is Ok && final(self).stack.len() == old(self).stack.len() && final(self).stack.drop_last() == old(self).stack.drop_last() && is_bound_native(final(self).stack.last(), old(self).stack.last(), the_native(class, name.id()))
    //@  ensures @unknown_member_is_an_attribute_error !has_method(class, name.id()) ==> final(self).raised == Some(ErrorKind::AttributeError)
    //@end

    // GetProperty: an instance's own field wins; a module's global; otherwise the method of the value's class.
    //@fn file=yarel/src/vm.rs path=Vm::get_property_impl ret=r
    //@  rewrite R15
    //@  subst "instance.borrow()" => "self.inst(instance)"
    //@  subst "module.borrow()" => "self.modl(module)"
    //@  requires old(self).wf(), old(self).stack.len() > 0, tables_ok()
    //@  ensures old(self).same_heap(final(self))
    //@  ensures @own_field_first (old(self).stack.last() is ObjInstance && old(self).inst_of(old(self).stack.last()).fields.view.dom().contains(old(self).next_name)) ==> r is Ok && final(self).stack == old(self).stack.drop_last().push(old(self).inst_of(old(self).stack.last()).fields.view[old(self).next_name]) && final(self).raised == old(self).raised
    //@  ensures @otherwise_the_method_of_its_class (old(self).stack.last() is ObjInstance && !old(self).inst_of(old(self).stack.last()).fields.view.dom().contains(old(self).next_name) && closure_method(old(self).inst_of(old(self).stack.last()).class, old(self).next_name)) ==> r is Ok && is_bound(final(self).stack.last(), old(self).stack.last(), the_closure(old(self).inst_of(old(self).stack.last()).class, old(self).next_name)) && final(self).stack.drop_last() == old(self).stack.drop_last() && final(self).stack.len() == old(self).stack.len()
    //@  ensures @unknown_member_is_an_attribute_error (old(self).stack.last() is ObjInstance && !old(self).inst_of(old(self).stack.last()).fields.view.dom().contains(old(self).next_name) && !has_method(old(self).inst_of(old(self).stack.last()).class, old(self).next_name)) ==> final(self).raised == Some(ErrorKind::AttributeError)
    //@end

    // Invoke from a given class: the class's own table decides (it holds the inherited methods too).
    //@fn file=yarel/src/vm.rs path=Vm::invoke_from_class ret=r
    //@  rewrite R1
    //@  subst "_ => unreachable!()," => "_ => verif_unreachable(),"
    //@  requires tables_ok()
    //@  ensures old(self).same_heap(final(self))
    //@  ensures closure_method(class, name.id()) ==> final(self).called == Some((Callee::Closure(the_closure(class, name.id())), arg_count)) && final(self).raised == old(self).raised && final(self).stack_at_call == old(self).stack
    //@  ensures native_method(class, name.id()) ==> final(self).called == Some((Callee::Native(the_native(class, name.id())), arg_count)) && final(self).raised == old(self).raised
    //@  ensures @unknown_member_is_an_attribute_error !has_method(class, name.id()) ==> final(self).raised == Some(ErrorKind::AttributeError) && final(self).called == old(self).called
    //@end

    // Invoke (`recv.name(args)`): agrees with GetProperty followed by Call — own field first (called as a plain value),
    // otherwise the method of the receiver's class.
    //@fn file=yarel/src/vm.rs path=Vm::invoke ret=r
    //@  subst "if let Some(value) = instance.borrow().fields.get(&name) {" => "if let Some(value__) = option_value_copied(self.inst(instance).fields.get(&name)) { let value = &value__;"
    //@  subst "instance.borrow()" => "self.inst(instance)"
    //@  subst "module.borrow().attributes.get(&name).copied()" => "option_value_copied(self.modl(module).attributes.get(&name))"
    //@  subst "module.borrow()" => "self.modl(module)"
    //@  requires old(self).wf(), arg_count < old(self).stack.len(), tables_ok()
    //@  ensures old(self).same_heap(final(self))
    //@  ensures @own_field_first (old(self).top(arg_count as int) is ObjInstance && old(self).inst_of(old(self).top(arg_count as int)).fields.view.dom().contains(name.id())) ==> final(self).called == Some((Callee::AnyValue(old(self).inst_of(old(self).top(arg_count as int)).fields.view[name.id()]), arg_count)) && final(self).stack_at_call == old(self).stack.update(old(self).stack.len() - 1 - arg_count, old(self).inst_of(old(self).top(arg_count as int)).fields.view[name.id()])
    //@  ensures @otherwise_the_method_of_its_class (old(self).top(arg_count as int) is ObjInstance && !old(self).inst_of(old(self).top(arg_count as int)).fields.view.dom().contains(name.id()) && closure_method(old(self).inst_of(old(self).top(arg_count as int)).class, name.id())) ==> final(self).called == Some((Callee::Closure(the_closure(old(self).inst_of(old(self).top(arg_count as int)).class, name.id())), arg_count)) && final(self).stack_at_call == old(self).stack
    //@  ensures @unknown_member_is_an_attribute_error (old(self).top(arg_count as int) is ObjInstance && !old(self).inst_of(old(self).top(arg_count as int)).fields.view.dom().contains(name.id()) && !has_method(old(self).inst_of(old(self).top(arg_count as int)).class, name.id())) ==> final(self).raised == Some(ErrorKind::AttributeError) && final(self).called == old(self).called
    //@end

    // Call n: the callee is the value n slots below the top (pushed BEFORE its arguments), called with exactly n arguments
    //@fn file=yarel/src/vm.rs path=Vm::call_impl ret=r props=C07,C05
    //@  requires old(self).next_byte < old(self).stack.len()
    //@  ensures @the_callee_is_the_value_below_its_arguments final(self).called == Some((Callee::AnyValue(old(self).top(old(self).next_byte as int)), old(self).next_byte as usize)) && final(self).stack_at_call == old(self).stack
    //@end
    // Invoke name n: the same lookup as GetProperty + Call on the receiver n slots below the top (unit contract of invoke)
    //@fn file=yarel/src/vm.rs path=Vm::invoke_impl ret=r props=C07
    //@  requires old(self).wf(), old(self).next_byte < old(self).stack.len(), tables_ok()
    //@  ensures old(self).same_heap(final(self))
    //@  ensures @invoke_looks_the_operand_name_up_on_the_receiver_below_the_arguments (old(self).top(old(self).next_byte as int) is ObjInstance && !old(self).inst_of(old(self).top(old(self).next_byte as int)).fields.view.dom().contains(old(self).next_name) && closure_method(old(self).inst_of(old(self).top(old(self).next_byte as int)).class, old(self).next_name)) ==> final(self).called == Some((Callee::Closure(the_closure(old(self).inst_of(old(self).top(old(self).next_byte as int)).class, old(self).next_name)), old(self).next_byte as usize)) && final(self).stack_at_call == old(self).stack
    //@end

    // IterNext (every `for` loop, once per iteration): the iterator on top of the stack is asked for its next element
    // EXACTLY as an explicit `it.next()` would — duplicated, then Invoke "next" with no arguments: own field first,
    // otherwise the method of its class, otherwise an AttributeError. (C18: a for loop over "any object offering the
    // iteration protocol" — whatever way the object offers `next` to an explicit call.)
    //@fn file=yarel/src/vm.rs path=Vm::iter_next_impl ret=r props=C18,C07
    //@  requires old(self).wf(), old(self).stack.len() >= 1, tables_ok()
    //@  ensures old(self).same_heap(final(self))
    //@  ensures @a_for_loop_finds_next_like_an_explicit_call_own_field_first (old(self).top(0) is ObjInstance && old(self).inst_of(old(self).top(0)).fields.view.dom().contains(old(self).next_string.id())) ==> final(self).called == Some((Callee::AnyValue(old(self).inst_of(old(self).top(0)).fields.view[old(self).next_string.id()]), 0usize)) && final(self).stack_at_call =~= old(self).stack.push(old(self).inst_of(old(self).top(0)).fields.view[old(self).next_string.id()])
    //@  ensures @a_for_loop_finds_next_like_an_explicit_call_otherwise_the_method_of_its_class (old(self).top(0) is ObjInstance && !old(self).inst_of(old(self).top(0)).fields.view.dom().contains(old(self).next_string.id()) && closure_method(old(self).inst_of(old(self).top(0)).class, old(self).next_string.id())) ==> final(self).called == Some((Callee::Closure(the_closure(old(self).inst_of(old(self).top(0)).class, old(self).next_string.id())), 0usize)) && final(self).stack_at_call == old(self).stack.push(old(self).top(0))
    //@  ensures @an_object_without_next_is_an_attribute_error (old(self).top(0) is ObjInstance && !old(self).inst_of(old(self).top(0)).fields.view.dom().contains(old(self).next_string.id()) && !has_method(old(self).inst_of(old(self).top(0)).class, old(self).next_string.id())) ==> final(self).raised == Some(ErrorKind::AttributeError) && final(self).called == old(self).called
    //@end

    // GetClass (`Self`, compiled as "read the variable named Self, then GetClass"; also the first step of `type(x)`):
    // a CLASS on top of the stack stays that very class — so inside a static method, whose slot 0 holds the class the
    // method was invoked through (calls/Vm::call_value: the receiver goes into the callee slot), `Self` is that class,
    // for an inherited static method the subclass it was called on; an instance is replaced by its class; nothing
    // else on the stack moves.
    //@fn file=yarel/src/vm.rs path=Vm::get_class_impl props=C07
    //@  subst "instance.borrow()" => "self.inst(instance)"
    //@  requires old(self).wf(), old(self).stack.len() >= 1
    //@  ensures @the_class_of_a_class_value_is_that_class_itself old(self).top(0) is ObjClass ==> final(self).stack == old(self).stack
    //@  ensures @the_class_of_an_instance_is_the_class_it_was_made_from old(self).top(0) is ObjInstance ==> final(self).stack == old(self).stack.drop_last().push(Value::ObjClass(old(self).inst_of(old(self).top(0)).class))
    //@  ensures @the_class_of_anything_else_is_the_class_of_its_kind !(old(self).top(0) is ObjClass) ==> final(self).stack == old(self).stack.drop_last().push(Value::ObjClass(old(self).class_of(old(self).top(0))))
    //@  ensures old(self).same_heap(final(self)), final(self).raised == old(self).raised, final(self).called == old(self).called
    //@end

    // `super.name` / `super.name(args)`: the class value the compiler pushed (the `super` variable captured at class
    // definition) decides — not the receiver's class.
    //@fn file=yarel/src/vm.rs path=Vm::get_super_impl ret=r
    //@  subst ".try_as_obj_class().expect(\"Expected ObjClass.\")" => ".try_as_obj_class().unwrap()"
    //@  requires old(self).stack.len() >= 2, old(self).stack.last() is ObjClass, tables_ok()
    //@  ensures @super_uses_the_declared_superclass closure_method(old(self).stack.last()->ObjClass_0, old(self).next_name) ==> r is Ok && is_bound(final(self).stack.last(), old(self).stack[old(self).stack.len() - 2], the_closure(old(self).stack.last()->ObjClass_0, old(self).next_name)) && final(self).stack.len() == old(self).stack.len() - 1
    //@  ensures !has_method(old(self).stack.last()->ObjClass_0, old(self).next_name) ==> final(self).raised == Some(ErrorKind::AttributeError)
    //@end
    //@fn file=yarel/src/vm.rs path=Vm::super_invoke_impl ret=r
    //@  subst "_ => unreachable!()," => "_ => verif_unreachable(),"
    //@  requires old(self).stack.len() >= 1, old(self).stack.last() is ObjClass, tables_ok()
    //@  ensures @super_uses_the_declared_superclass closure_method(old(self).stack.last()->ObjClass_0, old(self).next_name) ==> final(self).called == Some((Callee::Closure(the_closure(old(self).stack.last()->ObjClass_0, old(self).next_name)), old(self).next_byte as usize)) && final(self).stack_at_call == old(self).stack.drop_last()
    //@  ensures !has_method(old(self).stack.last()->ObjClass_0, old(self).next_name) ==> final(self).raised == Some(ErrorKind::AttributeError)
    //@end

    // Class definition: Inherit copies the superclass's table down (so "nearest in the ancestry" is decided when the
    // class is defined), methods defined afterwards override what was copied.
    //@fn file=yarel/src/vm.rs path=Vm::inherit_impl ret=r
    //@  rewrite R1
    //@  subst "self.string_class.as_ref().expect(\"Expected Root.\").as_gc()" => "self.string_class_gc()"
    //@  subst "superclass == string_class" => "gc_eq(superclass, string_class)"
    //@  subst "for (name, method) in &superclass.methods { self.working_class_def .as_mut() .unwrap() .class .methods .insert(*name, *method); }" => "self.working_class_def.as_mut().unwrap().class.methods.insert_all_from(&superclass.methods);"
    //@  requires old(self).stack.len() >= 2, old(self).working_class_def is Some
    //@  requires old(self).stack[old(self).stack.len() - 2] is ObjClass ==> old(self).working_class_def->0.class.methods.view.dom().subset_of(old(self).stack[old(self).stack.len() - 2]->ObjClass_0.obj().methods.view.dom())   // Inherit directly follows DeclareClass (unit classc): the table is still Object's, and every class derives Object
    //@  ensures @native_class_cannot_be_derived_from (old(self).stack[old(self).stack.len() - 2] is ObjClass && native_class(old(self), old(self).stack[old(self).stack.len() - 2]->ObjClass_0)) ==> final(self).raised == Some(ErrorKind::TypeError) && final(self).working_class_def == old(self).working_class_def
    //@  ensures @inherited_methods_are_those_of_the_declared_superclass (old(self).stack[old(self).stack.len() - 2] is ObjClass && !native_class(old(self), old(self).stack[old(self).stack.len() - 2]->ObjClass_0)) ==> ({ let sup = old(self).stack[old(self).stack.len() - 2]->ObjClass_0; let t0 = old(self).working_class_def->0.class.methods.view; let t1 = final(self).working_class_def->0.class.methods.view; r is Ok && final(self).working_class_def is Some && final(self).working_class_def->0.class.superclass == Some(sup) && t1 =~= sup.obj().methods.view && final(self).stack == old(self).stack.drop_last() })
    //@  ensures @superclass_must_be_a_class !(old(self).stack[old(self).stack.len() - 2] is ObjClass) ==> final(self).raised == Some(ErrorKind::RuntimeError) && final(self).working_class_def == old(self).working_class_def
    //@end
    //@fn file=yarel/src/vm.rs path=Vm::define_method ret=r
    //@  rewrite R24
    //@  requires old(self).stack.len() >= 1, old(self).working_class_def is Some
    //@  ensures @own_method_overrides_inherited r is Ok && final(self).working_class_def is Some && final(self).working_class_def->0.class.methods.view == old(self).working_class_def->0.class.methods.view.insert(name.id(), old(self).stack.last())
    //@  ensures is_static ==> final(self).working_class_def->0.metaclass.methods.view == old(self).working_class_def->0.metaclass.methods.view.insert(name.id(), old(self).stack.last())
    //@  ensures !is_static ==> final(self).working_class_def->0.metaclass.methods.view == old(self).working_class_def->0.metaclass.methods.view.remove(name.id())
    //@  ensures final(self).stack == old(self).stack.drop_last()
    //@end

    // Construct: `C(args)` puts a new instance of exactly that class in the callee slot (the initialiser then runs
    // with it as receiver); a non-class callee is left alone (the call that follows reports it).
    //@fn file=yarel/src/vm.rs path=Vm::construct_impl
    //@  requires (old(self).next_byte as int) < old(self).stack.len()
    //@  ensures @constructor_makes_an_instance_of_the_called_class old(self).top(old(self).next_byte as int) is ObjClass ==> ({ let v = final(self).top(old(self).next_byte as int); v is ObjInstance && final(self).insts.dom().contains(v->ObjInstance_0.id()) && !old(self).insts.dom().contains(v->ObjInstance_0.id()) && final(self).inst_of(v).class == old(self).top(old(self).next_byte as int)->ObjClass_0 && final(self).inst_of(v).fields.view == Map::<int, Value>::empty() && final(self).stack.len() == old(self).stack.len() })
    //@  ensures !(old(self).top(old(self).next_byte as int) is ObjClass) ==> final(self).stack == old(self).stack && final(self).insts == old(self).insts
    //@end
}
// `unreachable!()`: reaching it is a panic, so "never reached" is an obligation
#[verifier::external_body]
fn verif_unreachable<T>() -> T requires false { unreachable!() }
#[verifier::external_body]
fn option_value_copied(o: Option<&Value>) -> (r: Option<Value>)
    ensures o is None ==> r is None, o matches Some(p) ==> r == Some(*p),
{ unimplemented!() }

} // verus!
fn main() {}
