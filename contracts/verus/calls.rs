//@unit calls
//@property C07
// Calling a value (yarel/src/vm.rs Vm::call_value, Vm::call_closure; yarel/src/object.rs ObjFiber::push_call_frame): a
// bound method is called on the receiver it was bound to (the receiver goes into the callee slot), a wrong argument
// count is a TypeError, exhausted call depth is a reported error (never more than FRAMES_MAX frames), anything that is
// not callable is a TypeError; a successful call pushes exactly one frame whose slots start at the callee slot.
use vstd::prelude::*;
use std::ops::Deref;
verus! {

global size_of usize == 8;

#[verifier::external_body]
#[verifier::accept_recursive_types(T)]
pub struct Gc<T> { p: core::marker::PhantomData<T> }
impl<T> Clone for Gc<T> { #[verifier::external_body] fn clone(&self) -> (r: Self) ensures r == *self { Gc { p: core::marker::PhantomData } } }
impl<T> Copy for Gc<T> {}
impl<T> Gc<T> { pub uninterp spec fn obj(&self) -> T; }
impl<T> Deref for Gc<T> {
    type Target = T;
    #[verifier::external_body]
    fn deref(&self) -> (r: &T) ensures *r == self.obj() { unimplemented!() }
}
pub struct RefCell<T> { pub v: T }
impl<T> RefCell<T> {
    #[verifier::external_body]
    pub fn borrow(&self) -> (r: &T) ensures *r == self.v { &self.v }
}
//@enum file=yarel/src/error.rs name=ErrorKind
pub struct Error { pub kind: ErrorKind }
#[verifier::external_body]
fn verif_error(kind: ErrorKind) -> (e: Error) ensures e.kind == kind { Error { kind } }
//@const file=yarel/src/common.rs name=FRAMES_MAX

pub struct ObjNative { }
pub struct ObjFunction { pub arity: usize, pub code_start: usize }
pub struct ObjClosure { pub function: Gc<ObjFunction> }
//@struct file=yarel/src/object.rs name=ObjBoundMethod map "ObjBoundMethod<T: GcManaged>" => "ObjBoundMethod<T>"
//@enum file=yarel/src/value.rs name=Value keep=ObjNative,ObjClosure,ObjBoundMethod,ObjBoundNative,None other=Other
//@struct file=yarel/src/object.rs name=CallFrame map "*const u8" => "usize"

pub struct StackS { pub ghost view: Seq<Value> }
impl StackS {
    #[verifier::external_body]
    pub fn len(&self) -> (r: usize) ensures r == self.view.len() { unimplemented!() }
}
// `closure.function.chunk.code.as_ptr()`: the address of the first instruction of the function
#[verifier::external_body]
fn code_start(c: &Gc<ObjClosure>) -> (r: usize) ensures r == c.obj().function.obj().code_start { unimplemented!() }

//@struct file=yarel/src/object.rs name=ObjFiber keepfields=stack,frames map "Stack<Value, STACK_MAX>" => "StackS"
impl ObjFiber {
    //@fn file=yarel/src/object.rs path=ObjFiber::push_call_frame
    //@  subst "closure.function.chunk.code.as_ptr()" => "code_start(&closure)"
    //@  requires closure.obj().function.obj().arity <= old(self).stack.view.len()
    //@  ensures final(self).frames@ == old(self).frames@.push(CallFrame { closure, ip: closure.obj().function.obj().code_start, slot_base: (old(self).stack.view.len() - closure.obj().function.obj().arity) as usize }), final(self).stack == old(self).stack
    //@end
    #[verifier::external_body]
    fn current_frame_mut(&mut self) -> (r: Option<&mut CallFrame>)
        requires old(self).frames@.len() > 0
        ensures r matches Some(f) && *f == old(self).frames@.last() && final(self).frames@ == old(self).frames@.drop_last().push(*final(f))
            && final(f).slot_base == f.slot_base && final(f).closure == f.closure, final(self).stack == old(self).stack,
    { unimplemented!() }
}

pub enum Callee { Native(Gc<ObjNative>) }
pub struct Vm { pub ip: usize, pub fib: ObjFiber, pub ghost raised: Option<ErrorKind>, pub ghost native_called: Option<(Gc<ObjNative>, usize)>, pub ghost stack_at_call: Seq<Value> }

impl Vm {
    #[verifier::external_body]
    fn active_fiber(&self) -> (r: &ObjFiber) ensures *r == self.fib { unimplemented!() }
    #[verifier::external_body]
    fn active_fiber_mut(&mut self) -> (r: &mut ObjFiber)
        ensures *r == old(self).fib, final(self).fib == *final(r), final(self).ip == old(self).ip, final(self).raised == old(self).raised, final(self).native_called == old(self).native_called, final(self).stack_at_call == old(self).stack_at_call
    { unimplemented!() }
    #[verifier::external_body]
    fn poke(&mut self, depth: usize, value: Value)
        requires depth < old(self).fib.stack.view.len()
        ensures final(self).fib.stack.view == old(self).fib.stack.view.update(old(self).fib.stack.view.len() - 1 - depth, value), final(self).fib.frames == old(self).fib.frames, final(self).ip == old(self).ip,
            final(self).raised == old(self).raised, final(self).native_called == old(self).native_called,
    { unimplemented!() }
    #[verifier::external_body]
    fn load_frame(&mut self)
        requires old(self).fib.frames@.len() > 0
        ensures final(self).fib == old(self).fib, final(self).ip == old(self).fib.frames@.last().ip, final(self).raised == old(self).raised, final(self).native_called == old(self).native_called
    { unimplemented!() }
    #[verifier::external_body]
    fn try_handle_error(&mut self, error: Error) -> (r: Result<(), Error>)
        ensures final(self).raised == Some(error.kind), final(self).native_called == old(self).native_called, final(self).fib.frames@.len() <= old(self).fib.frames@.len()
    { unimplemented!() }
    #[verifier::external_body]
    fn call_native(&mut self, native: Gc<ObjNative>, arg_count: usize) -> (r: Result<(), Error>)
        ensures final(self).native_called == Some((native, arg_count)), final(self).stack_at_call == old(self).fib.stack.view, final(self).fib.frames@.len() <= old(self).fib.frames@.len()
    { unimplemented!() }

    // Calling a closure with arg_count arguments sitting above the callee slot.
    //@fn file=yarel/src/vm.rs path=Vm::call_closure ret=r props=C07,C02,C08
    //@  rewrite R1 R11
    //@  requires closure.obj().function.obj().arity >= 1, arg_count < old(self).fib.stack.view.len(), old(self).fib.stack.view.len() < 0x1000_0000, old(self).fib.frames@.len() >= 1, old(self).fib.frames@.len() <= FRAMES_MAX
    //@  ensures @wrong_argument_count_is_a_type_error arg_count != closure.obj().function.obj().arity - 1 ==> final(self).raised == Some(ErrorKind::TypeError)
    //@  ensures @exhausted_call_depth_is_reported (arg_count == closure.obj().function.obj().arity - 1 && old(self).fib.frames@.len() == FRAMES_MAX) ==> final(self).raised is Some
    //@  ensures @call_depth_never_exceeds_its_bound final(self).fib.frames@.len() <= FRAMES_MAX
    //@  ensures @callee_frame_starts_at_the_callee_slot (arg_count == closure.obj().function.obj().arity - 1 && old(self).fib.frames@.len() < FRAMES_MAX) ==> r is Ok && final(self).fib.frames@.len() == old(self).fib.frames@.len() + 1 && final(self).fib.frames@.last().closure == closure && final(self).fib.frames@.last().slot_base == old(self).fib.stack.view.len() - 1 - arg_count
    //@  ensures @callee_starts_at_its_first_instruction (arg_count == closure.obj().function.obj().arity - 1 && old(self).fib.frames@.len() < FRAMES_MAX) ==> final(self).ip == closure.obj().function.obj().code_start
    //@  ensures @caller_remembers_where_to_continue (arg_count == closure.obj().function.obj().arity - 1 && old(self).fib.frames@.len() < FRAMES_MAX) ==> final(self).fib.frames@[old(self).fib.frames@.len() - 1].ip == old(self).ip
    //@  ensures (arg_count == closure.obj().function.obj().arity - 1 && old(self).fib.frames@.len() < FRAMES_MAX) ==> final(self).fib.stack == old(self).fib.stack && final(self).raised == old(self).raised
    //@end

    // Calling any value.
    //@fn file=yarel/src/vm.rs path=Vm::call_value ret=r props=C07,C02,C08
    //@  rewrite R1
    //@  requires arg_count < old(self).fib.stack.view.len(), old(self).fib.stack.view.len() < 0x1000_0000, old(self).fib.frames@.len() >= 1, old(self).fib.frames@.len() <= FRAMES_MAX
    //@  requires forall|c: Gc<ObjClosure>| (#[trigger] c.obj()).function.obj().arity >= 1
    //@  ensures final(self).fib.frames@.len() <= FRAMES_MAX
    //@  ensures @bound_method_is_called_on_the_receiver_it_was_bound_to (value is ObjBoundMethod && arg_count == value->ObjBoundMethod_0.obj().v.method.obj().function.obj().arity - 1 && old(self).fib.frames@.len() < FRAMES_MAX) ==> r is Ok && final(self).fib.frames@.last().closure == value->ObjBoundMethod_0.obj().v.method && final(self).fib.stack.view == old(self).fib.stack.view.update(old(self).fib.stack.view.len() - 1 - arg_count, value->ObjBoundMethod_0.obj().v.receiver) && final(self).fib.frames@.last().slot_base == old(self).fib.stack.view.len() - 1 - arg_count
    //@  ensures @bound_native_is_called_on_the_receiver_it_was_bound_to value is ObjBoundNative ==> final(self).native_called == Some((value->ObjBoundNative_0.obj().v.method, arg_count)) && final(self).stack_at_call == old(self).fib.stack.view.update(old(self).fib.stack.view.len() - 1 - arg_count, value->ObjBoundNative_0.obj().v.receiver)
    //@  ensures @calling_a_non_callable_is_a_type_error !(value is ObjBoundMethod || value is ObjBoundNative || value is ObjClosure || value is ObjNative) ==> final(self).raised == Some(ErrorKind::TypeError) && final(self).native_called == old(self).native_called
    //@end
}

} // verus!
fn main() {}
