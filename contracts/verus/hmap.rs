//@unit hmap
//@property C12
// "After any sequence of literal construction, insert, remove, get, has_key, clear and len with hashable keys, a HashMap
// holds exactly the entries of an abstract map whose keys are compared with the language's `==` ... Unhashable keys are
// rejected with a ValueError and leave the map unchanged" (yarel/src/core.rs hash_map_* natives, validate_hash_map_key;
// yarel/src/vm.rs Vm::build_hash_map).
//
// The table is std `HashMap<Value, Value, _>`: by contract an abstract map keyed by `key_class(k)` — the equivalence
// class of k under the language's `==`. That std's table behaves like that is exactly what Hash/Eq coherence of
// `Value` buys (proved by the Kani units utils/hashk/objectk of this property: equal values hash alike); here each
// operation of the language is checked against the corresponding operation of the abstract map.
use vstd::prelude::*;
verus! {

global size_of usize == 8;

#[verifier::external_body]
#[verifier::accept_recursive_types(T)]
pub struct Gc<T> { p: core::marker::PhantomData<T> }
impl<T> Clone for Gc<T> { #[verifier::external_body] fn clone(&self) -> (r: Self) ensures r == *self { Gc { p: core::marker::PhantomData } } }
impl<T> Copy for Gc<T> {}
impl<T> Gc<T> { pub uninterp spec fn id(&self) -> int; }
#[verifier::external_body]
#[verifier::accept_recursive_types(T)]
pub struct Root<T> { p: core::marker::PhantomData<T> }
impl<T> Root<T> {
    pub uninterp spec fn id(&self) -> int;
}
pub struct RefCell<T> { pub v: T }
//@enum file=yarel/src/error.rs name=ErrorKind
pub struct Error { pub kind: ErrorKind }
#[verifier::external_body]
fn verif_error(kind: ErrorKind) -> (e: Error) ensures e.kind == kind { Error { kind } }

//@enum file=yarel/src/value.rs name=Value keep=Boolean,Number,ObjHashMap,None other=Other
impl Value {
    // value.rs has_hash (its own contract: Kani unit objectk — "all elements hashable", same answer when asked twice)
    pub uninterp spec fn hashable(&self) -> bool;
    #[verifier::external_body]
    fn has_hash(&self) -> (r: bool) ensures r == self.hashable() { unimplemented!() }
    //@fn file=yarel/src/value.rs path=Value::try_as_obj_hash_map ret=r
    //@  ensures r == (match *self { Value::ObjHashMap(g) => Some(g), _ => None })
    //@end
}
// the equivalence class of a key under the language's `==`
pub uninterp spec fn key_class(k: Value) -> int;

// std HashMap<Value, Value, _> by contract
pub struct ValMap { pub ghost view: Map<int, Value> }
impl ValMap {
    #[verifier::external_body]
    fn insert(&mut self, k: Value, v: Value) -> (r: Option<Value>)
        ensures final(self).view == old(self).view.insert(key_class(k), v),
            old(self).view.dom().contains(key_class(k)) ==> r == Some(old(self).view[key_class(k)]), !old(self).view.dom().contains(key_class(k)) ==> r is None,
    { unimplemented!() }
    // R24: `entry(k).or_insert(v)`
    #[verifier::external_body]
    fn entry_or_insert(&mut self, k: Value, v: Value)
        ensures old(self).view.dom().contains(key_class(k)) ==> final(self).view == old(self).view, !old(self).view.dom().contains(key_class(k)) ==> final(self).view == old(self).view.insert(key_class(k), v),
    { unimplemented!() }
    #[verifier::external_body]
    fn remove(&mut self, k: &Value) -> (r: Option<Value>)
        ensures final(self).view == old(self).view.remove(key_class(*k)),
            old(self).view.dom().contains(key_class(*k)) ==> r == Some(old(self).view[key_class(*k)]), !old(self).view.dom().contains(key_class(*k)) ==> r is None,
    { unimplemented!() }
    #[verifier::external_body]
    fn get(&self, k: &Value) -> (r: Option<&Value>)
        ensures self.view.dom().contains(key_class(*k)) ==> (r matches Some(v) && *v == self.view[key_class(*k)]), !self.view.dom().contains(key_class(*k)) ==> r is None,
    { unimplemented!() }
    #[verifier::external_body]
    fn contains_key(&self, k: &Value) -> (r: bool) ensures r == self.view.dom().contains(key_class(*k)) { unimplemented!() }
    #[verifier::external_body]
    fn clear(&mut self) ensures final(self).view == Map::<int, Value>::empty() { unimplemented!() }
    #[verifier::external_body]
    fn len(&self) -> (r: usize) ensures self.view.dom().finite() ==> r == self.view.dom().len() { unimplemented!() }
}
#[verifier::external_body]
fn root_as_gc<T>(r: &Root<T>) -> (g: Gc<T>) ensures g.id() == r.id() { unimplemented!() }
#[verifier::external_body]
fn option_value_or_nil(o: Option<Value>) -> (r: Value) ensures o matches Some(v) ==> r == v, o is None ==> r == Value::None { unimplemented!() }
#[verifier::external_body]
fn option_ref_or_nil(o: Option<&Value>) -> (r: Value) ensures o matches Some(v) ==> r == *v, o is None ==> r == Value::None { unimplemented!() }

pub struct ObjClass { }
//@struct file=yarel/src/object.rs name=ObjHashMap keepfields=class,elements map "HashMap<Value, Value, BuildPassThroughHasher>" => "ValMap"

//@fn file=yarel/src/core.rs path=check_num_args ret=r
//@  rewrite R1
//@  ensures r is Ok <==> num_args == expected
//@  ensures r matches Err(e) ==> e.kind is TypeError
//@end

//@fn file=yarel/src/core.rs path=validate_hash_map_key ret=r
//@  rewrite R1
//@  ensures @unhashable_key_is_a_value_error !key.hashable() ==> (r matches Err(e) && e.kind is ValueError)
//@  ensures key.hashable() ==> r == Ok::<Value, Error>(key)
//@end

pub struct Vm { pub ghost stack: Seq<Value>, pub ghost maps: Map<int, ObjHashMap> }
impl Vm {
    pub open spec fn top(&self, depth: int) -> Value { self.stack[self.stack.len() - 1 - depth] }
    pub open spec fn map_at(&self, depth: int) -> Map<int, Value> { self.maps[self.top(depth)->ObjHashMap_0.id()].elements.view }
    #[verifier::external_body]
    fn peek(&self, depth: usize) -> (r: Value) requires depth < self.stack.len() ensures r == self.top(depth as int) { unimplemented!() }
    // `hash_map.borrow()` / `.borrow_mut()` on a map cell
    #[verifier::external_body]
    fn map_ref(&self, g: Gc<RefCell<ObjHashMap>>) -> (r: &ObjHashMap) requires self.maps.dom().contains(g.id()) ensures *r == self.maps[g.id()] { unimplemented!() }
    #[verifier::external_body]
    fn map_mut(&mut self, g: Gc<RefCell<ObjHashMap>>) -> (r: &mut ObjHashMap)
        requires old(self).maps.dom().contains(g.id())
        ensures *r == old(self).maps[g.id()], final(self).maps == old(self).maps.insert(g.id(), *final(r)), final(self).stack == old(self).stack
    { unimplemented!() }
    // the receiver slot holds a map that exists (method dispatch delivers the receiver kind the native is registered on)
    pub open spec fn recv_ok(&self, depth: int) -> bool {
        depth < self.stack.len() && self.top(depth) is ObjHashMap && self.maps.dom().contains(self.top(depth)->ObjHashMap_0.id())
    }
    #[verifier::external_body]
    fn new_root_obj_hash_map(&mut self) -> (r: Root<RefCell<ObjHashMap>>)
        ensures !old(self).maps.dom().contains(r.id()), final(self).maps.dom() =~= old(self).maps.dom().insert(r.id()), final(self).maps[r.id()].elements.view == Map::<int, Value>::empty(),
            forall|i: int| #[trigger] old(self).maps.dom().contains(i) ==> final(self).maps[i] == old(self).maps[i], final(self).stack == old(self).stack,
    { unimplemented!() }
    #[verifier::external_body]
    fn stack_size(&self) -> (r: usize) ensures r == self.stack.len() { unimplemented!() }
    // `self.active_fiber().stack[i]`
    #[verifier::external_body]
    fn stack_at(&self, i: usize) -> (r: Value) requires i < self.stack.len() ensures r == self.stack[i as int] { unimplemented!() }
    #[verifier::external_body]
    fn discard(&mut self, num: usize) requires num <= old(self).stack.len() ensures final(self).stack == old(self).stack.take(old(self).stack.len() - num), final(self).maps == old(self).maps { unimplemented!() }
    // the abstract map a literal `{k0: v0, k1: v1, …}` denotes: entries inserted left to right (a later equal key wins)
    pub open spec fn literal_map(st: Seq<Value>, begin: int, n: int) -> Map<int, Value>
        decreases n
    {
        if n <= 0 { Map::<int, Value>::empty() } else { Self::literal_map(st, begin, n - 1).insert(key_class(st[begin + 2 * (n - 1)]), st[begin + 2 * (n - 1) + 1]) }
    }

    // `{k0: v0, …}`: BuildHashMap n
    //@fn file=yarel/src/vm.rs path=Vm::build_hash_map ret=r
    //@  rewrite R1 R24 R25
    //@  subst "map.borrow_mut()" => "self.map_mut(root_as_gc(&map))"
    //@  requires num_elements * 2 <= old(self).stack.len(), old(self).stack.len() < 0x1000_0000
    //@  ensures @unhashable_key_is_a_value_error (exists|i: int| 0 <= i < num_elements && !(#[trigger] old(self).stack[old(self).stack.len() - 2 * num_elements + 2 * i]).hashable()) ==> (r matches Err(e) && e.kind is ValueError)
    //@  ensures @literal_is_the_abstract_map_of_its_entries (forall|i: int| 0 <= i < num_elements ==> (#[trigger] old(self).stack[old(self).stack.len() - 2 * num_elements + 2 * i]).hashable()) ==> (r matches Ok(m) && final(self).maps.dom().contains(m.id()) && !old(self).maps.dom().contains(m.id()) && final(self).maps[m.id()].elements.view == Vm::literal_map(old(self).stack, old(self).stack.len() - 2 * num_elements, num_elements as int) && final(self).stack == old(self).stack.take(old(self).stack.len() - 2 * num_elements))
    //@  ensures forall|i: int| #[trigger] old(self).maps.dom().contains(i) ==> final(self).maps.dom().contains(i) && final(self).maps[i] == old(self).maps[i]
    //@  loop 0 iter it
    //@  loop 0 invariant it.snapshot.start == 0, it.snapshot.end == num_elements, begin == old(self).stack.len() - 2 * num_elements, self.stack == old(self).stack, num_elements * 2 <= old(self).stack.len(), old(self).stack.len() < 0x1000_0000
    //@  loop 0 invariant self.maps.dom().contains(map.id()), !old(self).maps.dom().contains(map.id()), self.maps[map.id()].elements.view == Vm::literal_map(old(self).stack, begin as int, it.index@ as int)
    //@  loop 0 invariant forall|i: int| 0 <= i < it.index@ ==> (#[trigger] old(self).stack[begin + 2 * i]).hashable()
    //@  loop 0 invariant forall|i: int| #[trigger] old(self).maps.dom().contains(i) ==> self.maps.dom().contains(i) && self.maps[i] == old(self).maps[i]
    //@end

    pub open spec fn others_untouched(&self, o: &Vm, depth: int) -> bool {
        o.stack == self.stack && o.maps.dom() =~= self.maps.dom() && forall|i: int| self.maps.dom().contains(i) && i != self.top(depth)->ObjHashMap_0.id() ==> o.maps[i] == self.maps[i]
    }
}

// m.insert(k, v)
//@fn file=yarel/src/core.rs path=hash_map_insert ret=r
//@  subst ".try_as_obj_hash_map() .expect(\"Expected ObjHashMap\")" => ".try_as_obj_hash_map().unwrap()"
//@  subst "let mut borrowed_hash_map = hash_map.borrow_mut();" => "let borrowed_hash_map = vm.map_mut(hash_map);"
//@  subst "Ok(borrowed_hash_map .elements .insert(key, value) .unwrap_or(Value::None))" => "Ok(option_value_or_nil(borrowed_hash_map.elements.insert(key, value)))"
//@  requires num_args == 2 ==> old(vm).recv_ok(2)
//@  ensures @wrong_argument_count_is_a_type_error num_args != 2 ==> (r matches Err(e) && e.kind is TypeError) && final(vm).maps == old(vm).maps
//@  ensures @unhashable_key_leaves_the_map_unchanged (num_args == 2 && !old(vm).top(1).hashable()) ==> (r matches Err(e) && e.kind is ValueError) && final(vm).maps == old(vm).maps
//@  ensures @insert_is_abstract_map_insert (num_args == 2 && old(vm).top(1).hashable()) ==> r is Ok && final(vm).map_at(2) == old(vm).map_at(2).insert(key_class(old(vm).top(1)), old(vm).top(0)) && old(vm).others_untouched(final(vm), 2)
//@  ensures (num_args == 2 && old(vm).top(1).hashable()) ==> r == Ok::<Value, Error>(if old(vm).map_at(2).dom().contains(key_class(old(vm).top(1))) { old(vm).map_at(2)[key_class(old(vm).top(1))] } else { Value::None })
//@end

// m.remove(k)
//@fn file=yarel/src/core.rs path=hash_map_remove ret=r
//@  subst ".try_as_obj_hash_map() .expect(\"Expected ObjHashMap\")" => ".try_as_obj_hash_map().unwrap()"
//@  subst "let mut borrowed_hash_map = hash_map.borrow_mut();" => "let borrowed_hash_map = vm.map_mut(hash_map);"
//@  subst "Ok(borrowed_hash_map .elements .remove(&key) .unwrap_or(Value::None))" => "Ok(option_value_or_nil(borrowed_hash_map.elements.remove(&key)))"
//@  requires num_args == 1 ==> old(vm).recv_ok(1)
//@  ensures @unhashable_key_leaves_the_map_unchanged (num_args == 1 && !old(vm).top(0).hashable()) ==> (r matches Err(e) && e.kind is ValueError) && final(vm).maps == old(vm).maps
//@  ensures @remove_is_abstract_map_remove (num_args == 1 && old(vm).top(0).hashable()) ==> r is Ok && final(vm).map_at(1) == old(vm).map_at(1).remove(key_class(old(vm).top(0))) && old(vm).others_untouched(final(vm), 1)
//@  ensures num_args != 1 ==> r is Err && final(vm).maps == old(vm).maps
//@end

// m.get(k)
//@fn file=yarel/src/core.rs path=hash_map_get ret=r
//@  subst ".try_as_obj_hash_map() .expect(\"Expected ObjHashMap\")" => ".try_as_obj_hash_map().unwrap()"
//@  subst "let borrowed_hash_map = hash_map.borrow();" => "let borrowed_hash_map = vm.map_ref(hash_map);"
//@  subst "Ok(*borrowed_hash_map.elements.get(&key).unwrap_or(&Value::None))" => "Ok(option_ref_or_nil(borrowed_hash_map.elements.get(&key)))"
//@  requires num_args == 1 ==> old(vm).recv_ok(1)
//@  ensures final(vm).maps == old(vm).maps
//@  ensures @unhashable_key_leaves_the_map_unchanged (num_args == 1 && !old(vm).top(0).hashable()) ==> (r matches Err(e) && e.kind is ValueError)
//@  ensures @get_is_abstract_map_lookup (num_args == 1 && old(vm).top(0).hashable()) ==> r == Ok::<Value, Error>(if old(vm).map_at(1).dom().contains(key_class(old(vm).top(0))) { old(vm).map_at(1)[key_class(old(vm).top(0))] } else { Value::None })
//@end

// m.has_key(k)
//@fn file=yarel/src/core.rs path=hash_map_has_key ret=r
//@  subst ".try_as_obj_hash_map() .expect(\"Expected ObjHashMap.\")" => ".try_as_obj_hash_map().unwrap()"
//@  subst "let borrowed_hash_map = hash_map.borrow();" => "let borrowed_hash_map = vm.map_ref(hash_map);"
//@  requires num_args == 1 ==> old(vm).recv_ok(1)
//@  ensures final(vm).maps == old(vm).maps
//@  ensures @has_key_is_abstract_map_membership (num_args == 1 && old(vm).top(0).hashable()) ==> r == Ok::<Value, Error>(Value::Boolean(old(vm).map_at(1).dom().contains(key_class(old(vm).top(0)))))
//@  ensures (num_args == 1 && !old(vm).top(0).hashable()) ==> (r matches Err(e) && e.kind is ValueError)
//@end

// m.clear()
//@fn file=yarel/src/core.rs path=hash_map_clear ret=r
//@  subst ".try_as_obj_hash_map() .expect(\"Expected ObjHashMap\")" => ".try_as_obj_hash_map().unwrap()"
//@  subst "let mut borrowed_hash_map = hash_map.borrow_mut();" => "let borrowed_hash_map = vm.map_mut(hash_map);"
//@  requires num_args == 0 ==> old(vm).recv_ok(0)
//@  ensures @clear_empties_the_map num_args == 0 ==> r is Ok && final(vm).map_at(0) == Map::<int, Value>::empty() && old(vm).others_untouched(final(vm), 0)
//@  ensures num_args != 0 ==> r is Err && final(vm).maps == old(vm).maps
//@end

} // verus!
fn main() {}
