//@unit classc
//@property C07
// Compile-time side of class definition (yarel/src/compiler.rs Parser::class_declaration, method, initialiser): the
// instruction sequence of a class declaration is   DeclareClass  [ … Inherit ]  member*  DefineClass   — in particular the
// declared superclass's methods are copied down (Inherit) BEFORE any member of the class is defined, which is what makes
// "a later own definition overrides what was copied" (Vm::define_method, unit classes) the nearest-definition rule and
// what the precondition of Vm::inherit_impl (unit classes) rests on: the table is still the one DeclareClass created. Instance methods go
// to the class table (Method), constructors and static methods to the metaclass (StaticMethod).
use vstd::prelude::*;
verus! {

global size_of usize == 8;

//@enum file=yarel/src/chunk.rs name=OpCode discr=opcode_byte
//@enum file=yarel/src/scanner.rs name=TokenKind
//@enum file=yarel/src/compiler.rs name=FunctionKind eq=1
#[verifier::external_body]
fn opcode_u8(op: OpCode) -> (r: u8) ensures r == opcode_byte(op) { op as u8 }

pub struct Token { pub kind: TokenKind, pub line: usize, pub source: String }
impl Token {
    #[verifier::external_body]
    fn from_string(s: &str) -> (r: Token) ensures r.source@ == s@ { unimplemented!() }
}
#[verifier::external_body]
fn token_clone(t: &Token) -> (r: Token) ensures r == *t { unimplemented!() }
#[verifier::external_body]
fn string_eq(a: &String, b: &String) -> (r: bool) ensures r == (a@ == b@) { unimplemented!() }
//@struct file=yarel/src/compiler.rs name=Attribute
// `attr.map(|a| a.arguments[0].clone())` (take_attribute(name, 1) has checked the argument count)
#[verifier::external_body]
fn first_argument(a: Option<Attribute>) -> (r: Option<Token>) ensures (r is Some) == (a is Some) { unimplemented!() }
//@struct file=yarel/src/compiler.rs name=ClassCompiler

#[verifier::external_body]
#[verifier::accept_recursive_types(T)]
pub struct Gc<T> { p: core::marker::PhantomData<T> }
impl<T> Clone for Gc<T> { #[verifier::external_body] fn clone(&self) -> (r: Self) ensures r == *self { Gc { p: core::marker::PhantomData } } }
impl<T> Copy for Gc<T> {}
#[verifier::external_body]
#[verifier::accept_recursive_types(T)]
pub struct Root<T> { p: core::marker::PhantomData<T> }
impl<T> Root<T> { #[verifier::external_body] fn as_gc(&self) -> Gc<T> { unimplemented!() } }
pub struct ObjString { }
pub struct ObjFunction { }
pub struct Upvalue { }
#[verifier::external_body]
pub struct Value { _p: u8 }
#[verifier::external_body]
fn function_value(f: Gc<ObjFunction>) -> Value { unimplemented!() }

// what a class declaration emits, as far as the class protocol is concerned
pub enum Ev { Declare, Inherit, Method, StaticMethod, Define }
pub struct CompilerS { pub ghost addlocal_ok: bool }
impl CompilerS {
    #[verifier::external_body]
    fn add_local(&mut self, name: &Token) -> bool { unimplemented!() }
}

pub struct Parser {
    pub previous: Token,
    pub class_compilers: Vec<ClassCompiler>,
    pub module_path: Gc<ObjString>,
    pub comp: CompilerS,
    pub ghost events: Seq<Ev>,          // class-protocol instructions emitted by THIS class declaration
    pub ghost scopes: int,              // begin_scope / end_scope balance
    pub ghost had_error: bool,
    pub ghost default_ctor_body: bool,  // the function under compilation consists of `Construct 0` only
}

pub open spec fn ev_of(op: OpCode) -> Option<Ev> {
    match op {
        OpCode::DeclareClass => Some(Ev::Declare), OpCode::Inherit => Some(Ev::Inherit), OpCode::Method => Some(Ev::Method),
        OpCode::StaticMethod => Some(Ev::StaticMethod), OpCode::DefineClass => Some(Ev::Define), _ => None,
    }
}
pub open spec fn ev_of_byte(b: u8) -> Option<Ev> {
    if b == opcode_byte(OpCode::DeclareClass) { Some(Ev::Declare) } else if b == opcode_byte(OpCode::Inherit) { Some(Ev::Inherit) }
    else if b == opcode_byte(OpCode::Method) { Some(Ev::Method) } else if b == opcode_byte(OpCode::StaticMethod) { Some(Ev::StaticMethod) }
    else if b == opcode_byte(OpCode::DefineClass) { Some(Ev::Define) } else { None }
}
pub open spec fn is_member(e: Ev) -> bool { e is Method || e is StaticMethod }
pub open spec fn log(old_e: Seq<Ev>, e: Option<Ev>) -> Seq<Ev> { match e { Some(x) => old_e.push(x), None => old_e } }

impl Parser {
    // nested constructs (expressions, function bodies — including class declarations nested in them, whose own protocol
    // is their own obligation): nothing of THIS declaration's protocol, scopes balanced
    pub open spec fn quiet(&self, o: &Parser) -> bool {
        o.events == self.events && o.scopes == self.scopes && o.class_compilers == self.class_compilers && (self.had_error ==> o.had_error) && o.module_path == self.module_path
    }
    #[verifier::external_body] fn take_attribute(&mut self, name: &str, num_args: usize) -> Option<Attribute> ensures old(self).quiet(final(self)) { unimplemented!() }
    #[verifier::external_body] fn check_supported_attributes(&mut self, kind: &str) ensures old(self).quiet(final(self)) { unimplemented!() }
    #[verifier::external_body] fn attributes_declaration(&mut self) ensures old(self).quiet(final(self)) { unimplemented!() }
    #[verifier::external_body] fn consume(&mut self, kind: TokenKind, message: &str) ensures old(self).quiet(final(self)) { unimplemented!() }
    #[verifier::external_body] fn match_token(&mut self, kind: TokenKind) -> bool ensures old(self).quiet(final(self)) { unimplemented!() }
    #[verifier::external_body] fn check(&self, kind: TokenKind) -> bool { unimplemented!() }
    #[verifier::external_body] fn identifier_constant(&mut self, token: &Token) -> u16 ensures old(self).quiet(final(self)) { unimplemented!() }
    #[verifier::external_body] fn declare_variable(&mut self) ensures old(self).quiet(final(self)) { unimplemented!() }
    #[verifier::external_body] fn define_variable(&mut self, global: u16) ensures old(self).quiet(final(self)) { unimplemented!() }
    #[verifier::external_body] fn named_variable(&mut self, name: Token, can_assign: bool) ensures old(self).quiet(final(self)) { unimplemented!() }
    #[verifier::external_body] fn resolve_variable(&mut self, name: &Token) -> (OpCode, OpCode, u16) ensures old(self).quiet(final(self)) { unimplemented!() }
    #[verifier::external_body] fn emit_variable_op(&mut self, opcode: OpCode, variable: u16) ensures old(self).quiet(final(self)) { unimplemented!() }
    #[verifier::external_body] fn error(&mut self, message: &str) ensures old(self).quiet(final(self)), final(self).had_error { unimplemented!() }
    #[verifier::external_body] fn error_at(&mut self, token: Token, message: &str) ensures old(self).quiet(final(self)), final(self).had_error { unimplemented!() }
    #[verifier::external_body] fn begin_scope(&mut self) ensures final(self).scopes == old(self).scopes + 1, final(self).events == old(self).events, final(self).class_compilers == old(self).class_compilers, final(self).had_error == old(self).had_error, final(self).module_path == old(self).module_path, final(self).default_ctor_body == old(self).default_ctor_body { unimplemented!() }
    #[verifier::external_body] fn end_scope(&mut self) ensures final(self).scopes == old(self).scopes - 1, final(self).events == old(self).events, final(self).class_compilers == old(self).class_compilers, old(self).had_error ==> final(self).had_error, final(self).module_path == old(self).module_path { unimplemented!() }
    #[verifier::external_body] fn compiler_mut(&mut self) -> (r: &mut CompilerS) ensures final(self).events == old(self).events, final(self).scopes == old(self).scopes, final(self).class_compilers == old(self).class_compilers, final(self).had_error == old(self).had_error, final(self).module_path == old(self).module_path { unimplemented!() }
    // the emitters, as far as the class protocol is concerned
    #[verifier::external_body] fn emit_constant_op(&mut self, opcode: OpCode, constant: u16)
        ensures final(self).default_ctor_body == old(self).default_ctor_body, final(self).events == log(old(self).events, ev_of(opcode)), final(self).scopes == old(self).scopes, final(self).class_compilers == old(self).class_compilers, final(self).had_error == old(self).had_error, final(self).module_path == old(self).module_path { unimplemented!() }
    #[verifier::external_body] fn emit_byte(&mut self, byte: u8)
        ensures final(self).events == log(old(self).events, ev_of_byte(byte)), final(self).scopes == old(self).scopes, final(self).class_compilers == old(self).class_compilers, final(self).had_error == old(self).had_error, final(self).module_path == old(self).module_path { unimplemented!() }
    #[verifier::external_body] fn emit_byte_for_token(&mut self, byte: u8, token: Token)
        ensures final(self).events == log(old(self).events, ev_of_byte(byte)), final(self).scopes == old(self).scopes, final(self).class_compilers == old(self).class_compilers, final(self).had_error == old(self).had_error, final(self).module_path == old(self).module_path { unimplemented!() }
    // a function body is compiled by its own compiler: new_compiler … finalise_compiler bracket it, what is emitted in
    // between goes into the inner function's chunk (not this class's protocol)
    #[verifier::external_body] fn function(&mut self, kind: FunctionKind) ensures old(self).quiet(final(self)) { unimplemented!() }
    #[verifier::external_body] fn new_gc_name(&mut self, name: &Token) -> Gc<ObjString> ensures old(self).quiet(final(self)) { unimplemented!() }
    #[verifier::external_body] fn new_compiler(&mut self, kind: FunctionKind, name: Gc<ObjString>, module_path: Gc<ObjString>)
        ensures old(self).quiet(final(self)), final(self).default_ctor_body == false { unimplemented!() }
    #[verifier::external_body] fn emit_inner_bytes(&mut self, bytes: [u8; 2])
        ensures old(self).quiet(final(self)), final(self).default_ctor_body == (bytes[0] == opcode_byte(OpCode::Construct) && bytes[1] == 0) { unimplemented!() }
    #[verifier::external_body] fn finalise_compiler(&mut self) -> (Root<ObjFunction>, Vec<Upvalue>)
        ensures final(self).events == old(self).events, final(self).scopes == old(self).scopes - 1, final(self).class_compilers == old(self).class_compilers, old(self).had_error ==> final(self).had_error, final(self).module_path == old(self).module_path, final(self).default_ctor_body == old(self).default_ctor_body { unimplemented!() }
    #[verifier::external_body] fn make_constant(&mut self, value: Value) -> u16 ensures old(self).quiet(final(self)), final(self).default_ctor_body == old(self).default_ctor_body { unimplemented!() }

    // A method of the class body: exactly one member definition; instance methods into the class table, constructors
    // and static methods into the metaclass
    //@fn file=yarel/src/compiler.rs path=Parser::method
    //@  subst "self.previous.clone()" => "token_clone(&self.previous)"
    //@  ensures @a_method_defines_exactly_one_member final(self).events.len() == old(self).events.len() + 1 && final(self).events == old(self).events.push(final(self).events.last()) && is_member(final(self).events.last())
    //@  ensures final(self).scopes == old(self).scopes, final(self).class_compilers == old(self).class_compilers, old(self).had_error ==> final(self).had_error, final(self).module_path == old(self).module_path
    //@end

    // The default constructor requested by #[constructor(name)]: a StaticMethod member whose body is `Construct 0`
    //@fn file=yarel/src/compiler.rs path=Parser::initialiser
    //@  rewrite R21
    //@  subst "self.vm.new_gc_obj_string(name.source.as_str())" => "self.new_gc_name(&name)"
    //@  subst "self.emit_bytes([" => "self.emit_inner_bytes(["
    //@  subst "value::Value::ObjFunction(function.as_gc())" => "function_value(function.as_gc())"
    //@  ensures final(self).events == old(self).events.push(Ev::StaticMethod), final(self).default_ctor_body
    //@  ensures final(self).scopes == old(self).scopes, final(self).class_compilers == old(self).class_compilers, old(self).had_error ==> final(self).had_error, final(self).module_path == old(self).module_path
    //@end

    //@fn file=yarel/src/compiler.rs path=Parser::class_declaration
    //@  rewrite R21
    //@  subst "constructor_attr.map(|a| a.arguments[0].clone())" => "first_argument(constructor_attr)"
    //@  subst "superclass_attr.map(|a| a.arguments[0].clone())" => "first_argument(superclass_attr)"
    //@  subst "self.previous.clone()" => "token_clone(&self.previous)"
    //@  subst "superclass_name.clone()" => "token_clone(&superclass_name)"
    //@  subst "name.clone()" => "token_clone(&name)"
    //@  subst "name.source == superclass_name.source" => "string_eq(&name.source, &superclass_name.source)"
    //@  attr #[verifier::exec_allows_no_decreases_clause]
    //@  requires old(self).events.len() == 0, old(self).class_compilers@.len() < 0x1000_0000
    //@  assert @superclass_methods_are_copied_before_any_member_is_defined before_stmt "self.emit_byte_for_token(opcode_u8(OpCode::Inherit)" self.events =~= seq![Ev::Declare]
    //@  loop 0 invariant self.events.len() >= 1, self.events[0] is Declare, forall|i: int| 1 <= i < self.events.len() ==> (#[trigger] self.events[i] is Inherit ==> i == 1) && (is_member(self.events[i]) || (i == 1 && self.events[i] is Inherit))
    //@  loop 0 invariant self.class_compilers@.len() == old(self).class_compilers@.len() + 1, self.class_compilers@.drop_last() =~= old(self).class_compilers@, self.scopes == old(self).scopes + (if self.class_compilers@.last().has_superclass { 1int } else { 0int })
    //@  loop 0 invariant self.class_compilers@.last().has_superclass == (self.events.len() >= 2 && self.events[1] is Inherit)
    //@  ensures @a_class_is_declared_then_inherits_then_gets_its_members_then_is_defined final(self).events.len() >= 2 && final(self).events[0] is Declare && final(self).events.last() is Define && forall|i: int| 1 <= i < final(self).events.len() - 1 ==> (is_member(#[trigger] final(self).events[i]) || (i == 1 && final(self).events[i] is Inherit))
    //@  ensures @the_scope_of_the_hidden_super_variable_ends_with_the_class final(self).scopes == old(self).scopes && final(self).class_compilers@ =~= old(self).class_compilers@
    //@end
}

} // verus!
fn main() {}
