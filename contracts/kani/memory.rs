//@attach yarel/src/memory.rs vis=pub(crate)
//@harness name=root_count_from_gc props=C01,C16 obligation=Root/from_gc_clone_as_root_drop kind=complete doc="Root::from(Gc), Root::clone, Gc::as_root each add exactly one root to the box; dropping a Root removes exactly one; net effect of a scope is zero (all usize counts n < MAX-4)"
//@harness name=root_count_from_ptr props=C01,C16 obligation=Root/from_ptr_and_unique kind=complete doc="Root::from(GcBoxPtr) adds one; Root::from(UniqueRoot) is net +0 after the UniqueRoot is dropped (+1 then -1); Drop for UniqueRoot removes exactly one"
//@harness name=gcbox_inc_dec props=C01,C16 obligation=GcBox/inc_dec_exact kind=complete doc="GcBox::inc_num_roots / dec_num_roots change the count by exactly +1 / -1 and touch nothing else"
//@harness name=gcbox_mark_colours props=C01 obligation=GcBox/mark_colour_logic kind=complete doc="GcBox::mark: afterwards Grey; data.mark() is called iff the colour was not Grey before"
//@harness name=gcbox_blacken_colours props=C01 obligation=GcBox/blacken_colour_logic kind=complete doc="GcBox::blacken: afterwards Black; data.blacken() is called iff the colour was not Black before; unmark gives White"
//@harness name=gc_handle_forwards props=C01 obligation=Gc/handles_forward_to_box kind=complete doc="Gc<T>/Root<T>::mark and ::blacken act on the box they point to (the assumed leaf of the Verus trace unit)"
// Compiled only under cfg(kani) inside yarel::memory, so it sees the private GcBox / Colour / Heap items.
use super::*;

/// A GcBox living on the harness stack (not on the Heap): lets a harness observe colour and root count.
pub(crate) struct KBox<T: GcManaged + 'static>(GcBox<T>);

impl<T: GcManaged + 'static> KBox<T> {
    pub(crate) fn new(data: T) -> Self {
        KBox(GcBox {
            colour: Cell::new(Colour::White),
            num_roots: Cell::new(0),
            _pin: PhantomPinned,
            data,
        })
    }
    pub(crate) fn gc(&self) -> Gc<T> {
        Gc { ptr: NonNull::from(&self.0) }
    }
    pub(crate) fn is_white(&self) -> bool { self.0.colour.get() == Colour::White }
    pub(crate) fn is_grey(&self) -> bool { self.0.colour.get() == Colour::Grey }
    pub(crate) fn is_black(&self) -> bool { self.0.colour.get() == Colour::Black }
    pub(crate) fn set_grey(&self) { self.0.colour.set(Colour::Grey) }
    pub(crate) fn set_black(&self) { self.0.colour.set(Colour::Black) }
    pub(crate) fn roots(&self) -> usize { self.0.num_roots.get() }
    pub(crate) fn set_roots(&self, n: usize) { self.0.num_roots.set(n) }
    pub(crate) fn data(&self) -> &T { &self.0.data }
}

/// Records how often the collector visited it.
pub(crate) struct Probe {
    pub(crate) marks: Cell<u32>,
    pub(crate) blackens: Cell<u32>,
}
impl Probe {
    pub(crate) fn new() -> Self { Probe { marks: Cell::new(0), blackens: Cell::new(0) } }
}
impl GcManaged for Probe {
    fn mark(&self) { self.marks.set(self.marks.get() + 1); }
    fn blacken(&self) { self.blackens.set(self.blackens.get() + 1); }
}

fn any_colour() -> Colour {
    let c: u8 = kani::any();
    kani::assume(c < 3);
    match c { 0 => Colour::White, 1 => Colour::Grey, _ => Colour::Black }
}

#[kani::proof]
fn root_count_from_gc() {
    let b = KBox::new(Probe::new());
    let n: usize = kani::any();
    kani::assume(n < usize::MAX - 4);
    b.set_roots(n);
    let g = b.gc();
    {
        let r1: Root<Probe> = Root::from(g);
        assert!(b.roots() == n + 1);
        let r2 = r1.clone();
        assert!(b.roots() == n + 2);
        let r3 = g.as_root();
        assert!(b.roots() == n + 3);
        assert!(r3.as_gc() == g && r2.as_gc() == g);
        drop(r2);
        assert!(b.roots() == n + 2);
        drop(r1);
        assert!(b.roots() == n + 1);
        drop(r3);
    }
    assert!(b.roots() == n);
    assert!(b.is_white());
}

#[kani::proof]
fn root_count_from_ptr() {
    let b = KBox::new(Probe::new());
    let n: usize = kani::any();
    kani::assume(n > 0 && n < usize::MAX - 4);
    b.set_roots(n);
    let p: GcBoxPtr<Probe> = b.gc().ptr;
    let r: Root<Probe> = Root::from(p);
    assert!(b.roots() == n + 1);
    // a UniqueRoot over the same box (as Heap::allocate_unique builds it, count already incremented)
    let u = UniqueRoot { ptr: p };
    let r2: Root<Probe> = Root::from(u);
    // +1 for the new Root, -1 for the consumed UniqueRoot
    assert!(b.roots() == n + 1);
    drop(r2);
    assert!(b.roots() == n);
    drop(r);
    assert!(b.roots() == n - 1);
}

#[kani::proof]
fn gcbox_inc_dec() {
    let b = KBox::new(Probe::new());
    let n: usize = kani::any();
    kani::assume(n > 0 && n < usize::MAX);
    b.set_roots(n);
    let c = any_colour();
    b.0.colour.set(c);
    b.0.inc_num_roots();
    assert!(b.roots() == n + 1);
    b.0.dec_num_roots();
    b.0.dec_num_roots();
    assert!(b.roots() == n - 1);
    assert!(b.0.colour.get() == c);
    assert!(b.data().marks.get() == 0 && b.data().blackens.get() == 0);
}

#[kani::proof]
fn gcbox_mark_colours() {
    let b = KBox::new(Probe::new());
    let c = any_colour();
    b.0.colour.set(c);
    b.0.mark();
    assert!(b.is_grey());
    assert!(b.data().marks.get() == if c == Colour::Grey { 0 } else { 1 });
    assert!(b.data().blackens.get() == 0);
}

#[kani::proof]
fn gcbox_blacken_colours() {
    let b = KBox::new(Probe::new());
    let c = any_colour();
    b.0.colour.set(c);
    b.0.blacken();
    assert!(b.is_black());
    assert!(b.data().blackens.get() == if c == Colour::Black { 0 } else { 1 });
    assert!(b.data().marks.get() == 0);
    b.0.unmark();
    assert!(b.is_white());
}

#[kani::proof]
fn gc_handle_forwards() {
    let b = KBox::new(Probe::new());
    let other = KBox::new(Probe::new());
    let g = b.gc();
    g.mark();
    assert!(b.is_grey() && other.is_white());
    g.blacken();
    assert!(b.is_black() && other.is_white());
    b.0.unmark();
    b.set_roots(1);
    let r: Root<Probe> = Root { ptr: g.ptr };
    r.mark();
    assert!(b.is_grey());
    r.blacken();
    assert!(b.is_black());
    assert!(b.data().marks.get() == 2 && b.data().blackens.get() == 2);
    std::mem::forget(r);
}
