//@attach yarel/src/memory.rs
//@harness name=trace_references_leaves_no_grey props=C01 obligation=Heap/trace_references_no_grey_left kind=bounded bound="a heap of 2 objects; blackening the second re-greys the first (what ObjBoundMethod::blacken does to its receiver); loops unwound 5" doc="collector core, bounded: after Heap::trace_references no object is grey — an object re-greyed while an earlier one was being blackened is visited again, so it cannot be swept as garbage"
//@harness name=sweep_keeps_black_frees_white props=C01,C16 obligation=Heap/sweep_keeps_black_reports_white_bytes kind=bounded bound="a heap of 2 objects with symbolic colours in {Black, White}; loops unwound 5" doc="collector core, bounded: Heap::sweep retains exactly the black objects (in order) and returns the byte size of the white ones"
//@harness name=mark_roots_greys_rooted props=C01 obligation=Heap/mark_roots_greys_exactly_rooted kind=bounded bound="a heap of 2 leaf objects with symbolic root counts and colours; loops unwound 5" doc="collector core, bounded: after Heap::mark_roots an object is grey iff its root count is positive (leaf objects), whatever colour it had before"
//@harness name=allocate_root_counts_one props=C01,C16 obligation=Heap/allocate_root_and_unique_start_with_one_root kind=bounded configs=off bound="an empty Heap in the optimised configuration (no collection below the 64 KiB threshold); loops unwound 5" doc="Heap::allocate_root / allocate_unique return a handle to a new white box that the heap owns, with root count exactly 1, and account size_of::<T>() bytes; dropping the handle brings the count to 0"
//@harness name=collect_keeps_reachable_frees_rest props=C01,C16 obligation=Heap/collect_keeps_exactly_the_reachable_and_paces_on_the_survivors kind=bounded bound="a heap of 3 objects a, b, c with one reference b -> a, symbolic root counts and symbolic initial colours in {White, Black}; loops unwound 6" doc="collector core composed, bounded: after Heap::collect exactly the objects reachable from a rooted object survive (b iff rooted, c iff rooted, a iff rooted or b rooted), bytes_allocated is the survivors' size and collection_threshold is twice that"
use super::*;

/// A heap object for the collector harnesses: blackening it may re-grey another object's colour cell
/// (non-recursive on purpose: the traversal of real objects is the subject of the Verus trace unit).
struct Node {
    regrey_target: bool,
}
// the object a `regrey_target` node re-greys when it is blackened (kept outside the node: see DESIGN, Kani notes)
static mut TARGET: Option<Gc<Node>> = None;

impl GcManaged for Node {
    fn mark(&self) {}
    fn blacken(&self) {
        // what ObjBoundMethod::blacken does with its receiver
        if self.regrey_target {
            if let Some(other) = unsafe { TARGET } {
                other.mark();
            }
        }
    }
}

fn node_box(colour: Colour, roots: usize, regrey_target: bool) -> Pin<Box<GcBox<Node>>> {
    Box::pin(GcBox {
        colour: Cell::new(colour),
        num_roots: Cell::new(roots),
        _pin: PhantomPinned,
        data: Node { regrey_target },
    })
}

fn gc_of(b: &Pin<Box<GcBox<Node>>>) -> Gc<Node> {
    Gc { ptr: NonNull::from(&**b) }
}

fn heap_of(a: Pin<Box<GcBox<Node>>>, b: Pin<Box<GcBox<Node>>>) -> Heap {
    let mut objects: Vec<Pin<Box<GcBox<dyn GcManaged>>>> = Vec::with_capacity(2);
    objects.push(a);
    objects.push(b);
    Heap { collection_threshold: usize::MAX, bytes_allocated: 2 * mem::size_of::<Node>(), objects }
}

#[kani::proof]
#[kani::unwind(5)]
fn trace_references_leaves_no_grey() {
    let a = node_box(Colour::Grey, 1, false);
    let a_colour: *const Cell<Colour> = &a.colour;
    unsafe { TARGET = Some(gc_of(&a)); }
    let b = node_box(Colour::Grey, 1, true);
    let b_colour: *const Cell<Colour> = &b.colour;
    let mut heap = heap_of(a, b);
    heap.trace_references();
    unsafe {
        assert!((*a_colour).get() != Colour::Grey);
        assert!((*b_colour).get() != Colour::Grey);
        assert!((*a_colour).get() == Colour::Black && (*b_colour).get() == Colour::Black);
    }
    std::mem::forget(heap);
}

#[kani::proof]
#[kani::unwind(5)]
fn sweep_keeps_black_frees_white() {
    let ca: bool = kani::any();
    let cb: bool = kani::any();
    let a = node_box(if ca { Colour::Black } else { Colour::White }, 0, false);
    let b = node_box(if cb { Colour::Black } else { Colour::White }, 0, false);
    let a_ptr = &*a as *const GcBox<Node> as *const u8;
    let b_ptr = &*b as *const GcBox<Node> as *const u8;
    let mut heap = heap_of(a, b);
    let freed = heap.sweep();
    let kept = (ca as usize) + (cb as usize);
    assert!(heap.objects.len() == kept);
    assert!(freed == (2 - kept) * mem::size_of::<Node>());
    if ca {
        assert!(heap.objects[0].as_ref().get_ref() as *const GcBox<dyn GcManaged> as *const u8 == a_ptr);
    }
    if cb {
        assert!(heap.objects[kept - 1].as_ref().get_ref() as *const GcBox<dyn GcManaged> as *const u8 == b_ptr);
    }
    std::mem::forget(heap);
}

#[kani::proof]
#[kani::unwind(5)]
fn mark_roots_greys_rooted() {
    let ra: usize = kani::any();
    let rb: usize = kani::any();
    let ka: u8 = kani::any();
    let kb: u8 = kani::any();
    kani::assume(ka < 3 && kb < 3);
    let col = |k: u8| match k { 0 => Colour::White, 1 => Colour::Grey, _ => Colour::Black };
    let a = node_box(col(ka), ra, false);
    let b = node_box(col(kb), rb, false);
    let a_colour: *const Cell<Colour> = &a.colour;
    let b_colour: *const Cell<Colour> = &b.colour;
    let mut heap = heap_of(a, b);
    heap.mark_roots();
    unsafe {
        assert!(((*a_colour).get() == Colour::Grey) == (ra > 0));
        assert!(((*b_colour).get() == Colour::Grey) == (rb > 0));
        assert!((*a_colour).get() != Colour::Black && (*b_colour).get() != Colour::Black);
    }
    std::mem::forget(heap);
}

#[kani::proof]
#[kani::unwind(5)]
fn allocate_root_counts_one() {
    let mut heap = Heap { collection_threshold: 65536, bytes_allocated: 0, objects: Vec::with_capacity(2) };
    let r = heap.allocate_root(Node { regrey_target: false });
    assert!(heap.objects.len() == 1);
    assert!(heap.bytes_allocated == mem::size_of::<Node>());
    assert!(r.gc_box().num_roots.get() == 1);
    assert!(r.gc_box().colour.get() == Colour::White);
    let same = heap.objects[0].as_ref().get_ref() as *const GcBox<dyn GcManaged> as *const u8 == r.ptr.as_ptr() as *const u8;
    assert!(same);
    let u = heap.allocate_unique(Node { regrey_target: false });
    assert!(heap.objects.len() == 2);
    assert!(heap.bytes_allocated == 2 * mem::size_of::<Node>());
    assert!(u.gc_box().num_roots.get() == 1);
    let g = r.as_gc();
    drop(r);
    assert!(g.gc_box().num_roots.get() == 0);
    std::mem::forget(u);
    std::mem::forget(heap);
}

#[kani::proof]
#[kani::unwind(6)]
fn collect_keeps_reachable_frees_rest() {
    let ra: bool = kani::any();
    let rb: bool = kani::any();
    let rc: bool = kani::any();
    let (ka, kb, kc): (bool, bool, bool) = (kani::any(), kani::any(), kani::any());
    let col = |k: bool| if k { Colour::Black } else { Colour::White };
    let a = node_box(col(ka), ra as usize, false);
    unsafe { TARGET = Some(gc_of(&a)); }
    let b = node_box(col(kb), rb as usize, true); // b references a
    let c = node_box(col(kc), rc as usize, false);
    let a_ptr = &*a as *const GcBox<Node> as *const u8;
    let b_ptr = &*b as *const GcBox<Node> as *const u8;
    let c_ptr = &*c as *const GcBox<Node> as *const u8;
    let mut objects: Vec<Pin<Box<GcBox<dyn GcManaged>>>> = Vec::with_capacity(3);
    objects.push(a);
    objects.push(b);
    objects.push(c);
    let sz = mem::size_of::<Node>();
    let mut heap = Heap { collection_threshold: usize::MAX, bytes_allocated: 3 * sz, objects };
    heap.collect();
    let keep_a = ra || rb;
    let kept = (keep_a as usize) + (rb as usize) + (rc as usize);
    assert!(heap.objects.len() == kept);
    assert!(heap.bytes_allocated == kept * sz);
    assert!(heap.collection_threshold == 2 * kept * sz);
    let has = |p: *const u8, h: &Heap| {
        let mut found = false;
        let mut i = 0;
        while i < h.objects.len() {
            if h.objects[i].as_ref().get_ref() as *const GcBox<dyn GcManaged> as *const u8 == p { found = true; }
            i += 1;
        }
        found
    };
    assert!(has(a_ptr, &heap) == keep_a);
    assert!(has(b_ptr, &heap) == rb);
    assert!(has(c_ptr, &heap) == rc);
    std::mem::forget(heap);
}
