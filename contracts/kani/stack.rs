//@attach yarel/src/stack.rs
//@harness name=stack_contract props=C02,C10 obligation=Stack/sequence_contract kind=complete configs=on,off bound="Stack<u32,4>: the operations are loop-free and parametric in N; the filling loop is unwound 6 times (exactly covers n <= 4)" doc="one functional contract for both build configurations: the stack is a sequence; push appends, pop returns and removes the last element, peek(d)/peek_mut(d) address element len-1-d, truncate(n) keeps the first n, len counts; no UB (CBMC pointer checks) under in-range use"
//@harness name=stack_checked_total props=C02 obligation=Stack/checked_config_never_ub kind=complete configs=on doc="checked configuration, NO precondition: pop on empty gives None, truncate beyond len is clamped, len stays within 0..=N; nothing reads or writes outside the array"
//@harness name=stack_checked_peek_oob_panics props=C02 obligation=Stack/checked_peek_out_of_range_panics kind=complete configs=on doc="checked configuration: peek at depth >= len is a clean panic, never an out-of-bounds read"
//@harness name=stack_checked_push_full_panics props=C02 obligation=Stack/checked_push_on_full_panics kind=complete configs=on doc="checked configuration: push on a full stack is a clean panic, never an out-of-bounds write"
//@harness name=stack_mark_visits_live props=C01 obligation=Stack/mark_visits_exactly_live_elements kind=bounded configs=on bound="Stack<P,4>, all fill levels 0..=4 (loops unwound 6)" doc="GcManaged for Stack: mark and blacken visit exactly the live elements [0, len), each once (the leaf assumed by the Verus trace unit)"
use super::*;

fn mk(n: usize, vals: [u32; 4]) -> Stack<u32, 4> {
    let mut s: Stack<u32, 4> = Stack::new();
    let mut i = 0;
    while i < n {
        s.push(vals[i]);
        i += 1;
    }
    s
}

#[kani::proof]
#[kani::unwind(6)]
fn stack_contract() {
    let vals: [u32; 4] = kani::any();
    let n: usize = kani::any();
    kani::assume(n <= 4);
    let mut s = mk(n, vals);
    assert!(s.len() == n);
    let d: usize = kani::any();
    if d < n {
        assert!(*s.peek(d) == vals[n - 1 - d]);
        let x: u32 = kani::any();
        *s.peek_mut(d) = x;
        assert!(*s.peek(d) == x);
        // nothing else moved
        let e: usize = kani::any();
        if e < n && e != d {
            assert!(*s.peek(e) == vals[n - 1 - e]);
        }
        *s.peek_mut(d) = vals[n - 1 - d];
    }
    if n < 4 {
        let x: u32 = kani::any();
        s.push(x);
        assert!(s.len() == n + 1);
        assert!(*s.peek(0) == x);
        if n > 0 {
            assert!(*s.peek(1) == vals[n - 1]);
        }
        assert!(s.pop() == Some(x));
        assert!(s.len() == n);
    }
    if n > 0 {
        assert!(s.pop() == Some(vals[n - 1]));
        assert!(s.len() == n - 1);
        s.push(vals[n - 1]);
    }
    let t: usize = kani::any();
    if t <= n {
        s.truncate(t);
        assert!(s.len() == t);
        if t > 0 {
            assert!(*s.peek(0) == vals[t - 1]);
        }
    }
    s.clear();
    assert!(s.len() == 0);
}

#[kani::proof]
#[kani::unwind(6)]
fn stack_checked_total() {
    let vals: [u32; 4] = kani::any();
    let n: usize = kani::any();
    kani::assume(n <= 4);
    let mut s = mk(n, vals);
    let t: usize = kani::any();
    s.truncate(t);
    assert!(s.len() == if t > n { n } else { t });
    let m = s.len();
    let r = s.pop();
    if m == 0 {
        assert!(r.is_none());
        assert!(s.len() == 0);
    } else {
        assert!(r == Some(vals[m - 1]));
        assert!(s.len() == m - 1);
    }
}

#[kani::proof]
#[kani::unwind(6)]
#[kani::should_panic]
fn stack_checked_peek_oob_panics() {
    let vals: [u32; 4] = kani::any();
    let n: usize = kani::any();
    kani::assume(n <= 4);
    let s = mk(n, vals);
    let d: usize = kani::any();
    kani::assume(d >= n);
    let _ = *s.peek(d);
}

#[kani::proof]
#[kani::unwind(6)]
#[kani::should_panic]
fn stack_checked_push_full_panics() {
    let vals: [u32; 4] = kani::any();
    let mut s = mk(4, vals);
    s.push(kani::any());
}

static mut MARKS: [u8; 4] = [0; 4];
static mut BLACKENS: [u8; 4] = [0; 4];

#[derive(Clone, Copy, Default)]
struct P {
    id: u8,
}
impl GcManaged for P {
    fn mark(&self) {
        unsafe { MARKS[self.id as usize] += 1 }
    }
    fn blacken(&self) {
        unsafe { BLACKENS[self.id as usize] += 1 }
    }
}

#[kani::proof]
#[kani::unwind(6)]
fn stack_mark_visits_live() {
    let n: usize = kani::any();
    kani::assume(n <= 4);
    let mut s: Stack<P, 4> = Stack::new();
    let mut i = 0;
    while i < n {
        s.push(P { id: i as u8 });
        i += 1;
    }
    // stale slot above the top must NOT be visited
    if n < 4 {
        s.push(P { id: 3 });
        s.pop();
    }
    s.mark();
    s.blacken();
    let k: usize = kani::any();
    kani::assume(k < 4);
    unsafe {
        assert!(MARKS[k] == if k < n { 1 } else { 0 });
        assert!(BLACKENS[k] == if k < n { 1 } else { 0 });
    }
}
