//@attach yarel/src/utils.rs
//@harness name=hash_number_coherent props=C12 obligation=hash_number/coherent kind=complete doc="forall a b: f64. a == b ==> hash_number(a) == hash_number(b) (numbers that are == select the same map entry)"
//@harness name=hash_number_total props=C02,C12 obligation=hash_number/total kind=complete doc="hash_number never panics or overflows for any f64 bit pattern"
//@harness name=hash_number_function props=C12 obligation=hash_number/deterministic kind=complete doc="hash_number is a function of the bits: same bits, same hash"
//@harness name=validate_integer_number props=C02,C13 obligation=validate_integer/number kind=complete doc="validate_integer on any f64: Ok(i) iff integral; i as f64 == n within +-2^63, saturated outside; Err is ValueError; never panics"
//@harness name=validate_integer_non_number props=C02,C13 obligation=validate_integer/non_number kind=complete doc="validate_integer on Boolean/None: Err(TypeError), never panics"
// Harness module compiled only under cfg(kani) inside yarel::utils (so it sees the private items).
use super::*;

//@assume alloc::fmt::format is stubbed (message text of errors is not checked; C17 is not claimed)
fn fmt_stub(_a: std::fmt::Arguments<'_>) -> String {
    String::new()
}

#[kani::proof]
fn hash_number_coherent() {
    let a: f64 = kani::any();
    let b: f64 = kani::any();
    kani::assume(a == b);
    kani::cover!(a.to_bits() != b.to_bits());
    assert!(hash_number(a) == hash_number(b));
}

#[kani::proof]
fn hash_number_total() {
    let a: f64 = kani::any();
    let _ = hash_number(a);
}

#[kani::proof]
fn hash_number_function() {
    let a: f64 = kani::any();
    let b: f64 = kani::any();
    kani::assume(a.to_bits() == b.to_bits());
    assert!(hash_number(a) == hash_number(b));
}

#[kani::proof]
#[kani::stub(alloc::fmt::format, fmt_stub)]
#[kani::unwind(3)]
fn validate_integer_number() {
    let n: f64 = kani::any();
    match validate_integer(Value::Number(n)) {
        Ok(i) => {
            assert!(n == n && n.trunc() == n);
            if n >= -9.2e18 && n <= 9.2e18 {
                assert!(i as f64 == n);
            }
            if n > 9.3e18 {
                assert!(i == isize::MAX);
            }
            if n < -9.3e18 {
                assert!(i == isize::MIN);
            }
        }
        Err(e) => {
            assert!(e.kind() == ErrorKind::ValueError);
            assert!(n != n || n.trunc() != n);
        }
    }
}

#[kani::proof]
#[kani::stub(alloc::fmt::format, fmt_stub)]
#[kani::unwind(3)]
fn validate_integer_non_number() {
    let b: bool = kani::any();
    let v = if kani::any() { Value::Boolean(b) } else { Value::None };
    match validate_integer(v) {
        Ok(_) => { assert!(false); }
        Err(e) => assert!(e.kind() == ErrorKind::TypeError),
    }
}
