//@attach yarel/src/compiler.rs
//@harness name=add_upvalue_at_limit tier=thorough props=C04,C06 obligation=Compiler/add_upvalue_bounded_standin kind=bounded bound="a full table of 256 descriptors; two concrete boundary calls (an existing pair, a 257th pair); loops unwound 258" doc="bounded stand-in for the Verus contract of Compiler::add_upvalue on the REAL function (whatever its syntax): with 256 captures a new pair is refused (Err, table unchanged); an existing pair returns its own index; never an index whose u8 encoding names another capture"
//@harness name=add_upvalue_small props=C04,C06 obligation=Compiler/add_upvalue_small_standin kind=bounded bound="up to 3 existing captures, symbolic pairs; loops unwound 5" doc="bounded stand-in: result index j names the pair asked for; no duplicate pair is created; upvalue_count == upvalues.len()"
use super::*;

//@assume std RandomState::new (OS randomness) is stubbed by a zeroed state: hashing order is irrelevant to these functions
fn random_state_stub() -> std::collections::hash_map::RandomState {
    unsafe { std::mem::zeroed() }
}

fn mk_compiler() -> Compiler {
    Compiler {
        function: ObjFunction::new(Gc::dangling(), 1, 0, Gc::dangling(), Gc::dangling()),
        kind: FunctionKind::Function,
        chunk: Chunk::new(),
        locals: Vec::new(),
        upvalues: Vec::new(),
        scope_depth: 0,
        lambda_count: 0,
        try_depth: 0,
        loop_stack: Vec::new(),
        break_stack: Vec::new(),
    }
}

#[kani::proof]
#[kani::stub(std::hash::RandomState::new, random_state_stub)]
#[kani::unwind(258)]
fn add_upvalue_at_limit() {
    let mut c = mk_compiler();
    // a full table: 256 descriptors (all (0,false): zero-filled in one memset, which keeps the CBMC model small;
    // the duplicate-freedom of the table is irrelevant to the limit check exercised here)
    c.upvalues = Vec::with_capacity(258);
    unsafe {
        std::ptr::write_bytes(c.upvalues.as_mut_ptr(), 0, 256);
        c.upvalues.set_len(256);
    }
    c.function.upvalue_count = 256;
    match c.add_upvalue(0, false) {
        Ok(j) => assert!(j == 0),
        Err(_) => assert!(false),
    }
    // a 257th capture cannot be encoded in one byte: must be refused
    let r = c.add_upvalue(9, true);
    assert!(r.is_err());
    assert!(c.upvalues.len() == 256);
    assert!(c.function.upvalue_count == 256);
    std::mem::forget(c);   // destructors are not the subject here
}

#[kani::proof]
#[kani::stub(std::hash::RandomState::new, random_state_stub)]
#[kani::unwind(5)]
fn add_upvalue_small() {
    let mut c = mk_compiler();
    let n: usize = kani::any();
    kani::assume(n <= 3);
    let pairs: [(u8, bool); 3] = kani::any();
    kani::assume(pairs[0] != pairs[1] && pairs[0] != pairs[2] && pairs[1] != pairs[2]);
    let mut i = 0;
    while i < n {
        c.upvalues.push(Upvalue { index: pairs[i].0, is_local: pairs[i].1 });
        c.function.upvalue_count += 1;
        i += 1;
    }
    let index: u8 = kani::any();
    let is_local: bool = kani::any();
    let existing = (n > 0 && pairs[0] == (index, is_local)) || (n > 1 && pairs[1] == (index, is_local)) || (n > 2 && pairs[2] == (index, is_local));
    match c.add_upvalue(index, is_local) {
        Ok(j) => {
            let j = j as usize;
            assert!(j < c.upvalues.len());
            assert!(c.upvalues[j].index == index && c.upvalues[j].is_local == is_local);
            assert!(c.upvalues.len() == if existing { n } else { n + 1 });
            assert!(c.function.upvalue_count == c.upvalues.len());
            if j < n {
                assert!(pairs[j] == (index, is_local));
            }
        }
        Err(_) => assert!(false),
    }
}
