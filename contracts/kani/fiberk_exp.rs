//@attach yarel/src/object.rs
//@harness name=fiber_build_only props=C06 obligation=exp/fiber_build kind=bounded
//@harness name=fiber_close_one props=C06 obligation=exp/fiber_close kind=bounded
use super::*;
use crate::memory::verif_kani_memory::KBox;

fn mk_fiber() -> ObjFiber {
    ObjFiber {
        class: Gc::dangling(), caller: None, stack: Stack::new(), frames: Vec::new(), native_arity: None,
        open_upvalues: None, call_arity: 0, return_value: Value::None, exc_handlers: Vec::new(), return_ip: None, error_ip: None,
    }
}

#[kani::proof]
#[kani::unwind(3)]
fn fiber_build_only() {
    let mut fiber = mk_fiber();
    fiber.stack.push(Value::Number(10.0));
    assert!(fiber.stack.len() == 1);
    std::mem::forget(fiber);
}

#[kani::proof]
#[kani::unwind(3)]
fn fiber_close_one() {
    let mut fiber = mk_fiber();
    fiber.stack.push(Value::Number(10.0));
    let p0 = &mut fiber.stack[0] as *mut Value;
    let u0 = KBox::new(RefCell::new(ObjUpvalue::new(p0)));
    fiber.open_upvalues = Some(u0.gc());
    fiber.close_upvalues(0);
    assert!(!u0.gc().borrow().is_open());
    assert!(fiber.open_upvalues.is_none());
    std::mem::forget(fiber);
}
