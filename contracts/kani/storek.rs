//@attach yarel/src/vm.rs inside=string_store
//@harness name=load_limit_exact props=C11 obligation=string_store/load_limit_is_three_quarters kind=complete doc="R4 closed: for every table size n = 4q <= 2^52, `(n as f64 * MAX_LOAD) as usize` == 3q (the float expression of ObjStringStore::insert, with the real MAX_LOAD constant); so size <= 3n/4 < n and a probe always meets an empty slot"
use super::*;

#[kani::proof]
fn load_limit_exact() {
    let q: usize = kani::any();
    kani::assume(q >= 1 && q <= (1usize << 50));
    let n = q * 4;
    let r = (n as f64 * MAX_LOAD) as usize;
    assert!(r == 3 * q);
    assert!(r < n);
}
