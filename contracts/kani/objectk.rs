//@attach yarel/src/object.rs
//@harness name=tuple_has_hash_unhashable_elem props=C12,C02 obligation=ObjTuple/has_hash_unhashable_element_twice kind=bounded bound="the concrete tuple (1, [..]) — one hashable and one unhashable element — asked twice; loops unwound 4" doc="ObjTuple::has_hash on a tuple with an unhashable element answers false, answers false again when asked again, and leaves the recursion guard (self_lock) as it found it — so validate_hash_map_key keeps rejecting the same key"
//@harness name=tuple_has_hash_hashable props=C12,C02 obligation=ObjTuple/has_hash_hashable_elements kind=bounded bound="the concrete tuples (), (1,), (nil, true); loops unwound 4" doc="ObjTuple::has_hash answers true for tuples of hashable elements, twice, guard restored"
//@harness name=tuple_hash_coherent props=C12 obligation=ObjTuple/hash_respects_equality kind=bounded bound="pairs of 1-tuples of symbolic numbers; loops unwound 4" doc="two 1-tuples of numbers that are == hash alike (element hash is hash_number, folded with xor from 0)"
//@harness name=scalar_hash_total props=C12,C02 obligation=Value/scalar_has_hash_and_hash_total kind=complete doc="nil, every bool and every number: has_hash is true and Value::hash does not panic; scalars that are == under the language's equality (Value::eq) hash alike; Value::eq on numbers is IEEE equality"
//@harness name=unhashable_kinds_rejected props=C12,C02 obligation=Value/unhashable_kinds_have_no_hash kind=complete doc="a Vec value has has_hash() == false (so validate_hash_map_key rejects it before Value::hash's panicking arm can run)"
use super::*;
use crate::hash::PassThroughHasher;
use crate::memory::verif_kani_memory::KBox;
use std::hash::{Hash, Hasher};

fn hash_of(v: &Value) -> u64 {
    let mut h = PassThroughHasher::default();
    v.hash(&mut h);
    h.finish()
}

#[kani::proof]
#[kani::unwind(4)]
fn tuple_has_hash_unhashable_elem() {
    let vec_box = KBox::new(RefCell::new(ObjVec::new(Gc::dangling())));
    let mut elems = Vec::with_capacity(2);
    elems.push(Value::Number(1.0));
    elems.push(Value::ObjVec(vec_box.gc()));
    let t = KBox::new(ObjTuple::new(Gc::dangling(), elems));
    let tuple = t.gc();
    assert!(!tuple.self_lock.get());
    assert!(!tuple.has_hash());
    assert!(!tuple.self_lock.get()); // the recursion guard is restored
    assert!(!tuple.has_hash()); // asking again gives the same answer
    std::mem::forget(t);
    std::mem::forget(vec_box);
}

fn tuple_of(a: Option<Value>, b: Option<Value>) -> KBox<ObjTuple> {
    // no `vec![]` (its expansion is expensive for CBMC)
    let mut elems = Vec::with_capacity(2);
    if let Some(v) = a { elems.push(v); }
    if let Some(v) = b { elems.push(v); }
    KBox::new(ObjTuple::new(Gc::dangling(), elems))
}

#[kani::proof]
#[kani::unwind(4)]
fn tuple_has_hash_hashable() {
    let e = tuple_of(None, None);
    assert!(e.gc().has_hash() && e.gc().has_hash() && !e.gc().self_lock.get());
    let one = tuple_of(Some(Value::Number(1.0)), None);
    assert!(one.gc().has_hash() && one.gc().has_hash() && !one.gc().self_lock.get());
    let two = tuple_of(Some(Value::None), Some(Value::Boolean(true)));
    assert!(two.gc().has_hash() && two.gc().has_hash() && !two.gc().self_lock.get());
    std::mem::forget(e);
    std::mem::forget(one);
    std::mem::forget(two);
}

#[kani::proof]
#[kani::unwind(4)]
fn tuple_hash_coherent() {
    let a: f64 = kani::any();
    let b: f64 = kani::any();
    let t1 = tuple_of(Some(Value::Number(a)), None);
    let t2 = tuple_of(Some(Value::Number(b)), None);
    let mut h1 = PassThroughHasher::default();
    t1.gc().hash(&mut h1);
    let mut h2 = PassThroughHasher::default();
    t2.gc().hash(&mut h2);
    // keys are compared with the language's `==` (PartialEq for ObjTuple / Value), not with f64 `==`
    if *t1.gc() == *t2.gc() {
        assert!(h1.finish() == h2.finish());
    }
    if a == b {
        assert!(*t1.gc() == *t2.gc());
    }
    std::mem::forget(t1);
    std::mem::forget(t2);
}

#[kani::proof]
fn scalar_hash_total() {
    assert!(Value::None.has_hash());
    let _ = hash_of(&Value::None);
    let b: bool = kani::any();
    let c: bool = kani::any();
    assert!(Value::Boolean(b).has_hash());
    if b == c {
        assert!(hash_of(&Value::Boolean(b)) == hash_of(&Value::Boolean(c)));
    } else {
        assert!(hash_of(&Value::Boolean(b)) != hash_of(&Value::Boolean(c)));
    }
    let x: f64 = kani::any();
    let y: f64 = kani::any();
    assert!(Value::Number(x).has_hash());
    // the language's `==` on numbers (Value::eq) must imply equal hashes
    if Value::Number(x) == Value::Number(y) {
        assert!(hash_of(&Value::Number(x)) == hash_of(&Value::Number(y)));
    }
}

#[kani::proof]
fn unhashable_kinds_rejected() {
    let vec_box = KBox::new(RefCell::new(ObjVec::new(Gc::dangling())));
    assert!(!Value::ObjVec(vec_box.gc()).has_hash());
    std::mem::forget(vec_box);
}

// NOTE (tool limit, measured): a harness that stores a `Gc<ObjRange>` in a `Value` and dereferences it again
// (`Value::eq` on two ranges) is "refuted" by CBMC with `misaligned pointer to reference cast` while the same inputs
// pass natively — the pointer does not survive the trip through the `Value` enum (stack, Box and static cells alike;
// `Option<Gc<_>>` is fine). Range equality is therefore stated on the extracted `Value::eq` in the Verus unit `valeq`.
