//@attach yarel/src/hash.rs
//@harness name=fnv_write_total props=C11,C02 obligation=FnvHasher/write_total_and_deterministic kind=bounded bound="message length <= 4 bytes (loop unwound 6)" doc="FnvHasher::write never panics or overflows and is a function of the bytes written (same bytes, same state)"
//@harness name=passthrough_roundtrip props=C12 obligation=PassThroughHasher/write_u64_roundtrip kind=complete doc="PassThroughHasher: write_u64(x) then finish() returns x for every x (the map hashes with exactly the value's hash)"
use super::*;

#[kani::proof]
#[kani::unwind(6)]
fn fnv_write_total() {
    let bytes: [u8; 4] = kani::any();
    let n: usize = kani::any();
    kani::assume(n <= 4);
    let mut a = FnvHasher::new();
    a.write(&bytes[..n]);
    let mut b = FnvHasher::new();
    b.write(&bytes[..n]);
    assert!(a.finish() == b.finish());
    // one more byte changes the state through the same step function from the same state
    let x: u8 = kani::any();
    a.write(&[x]);
    b.write(&[x]);
    assert!(a.finish() == b.finish());
}

#[kani::proof]
fn passthrough_roundtrip() {
    let x: u64 = kani::any();
    let mut h = PassThroughHasher::default();
    h.write_u64(x);
    assert!(h.finish() == x);
}
