//@attach yarel/src/vm.rs inside=string_store
//@harness name=store_get_after_insert props=C11 obligation=string_store/get_insert_bounded_standin kind=bounded bound="capacity-4 table, up to 2 interned one-byte strings (and a third never interned) with symbolic hashes in 0..8 (every home-slot configuration, colliding and distinct hashes, probe chains that wrap around the end of the table); loops unwound 6" doc="bounded stand-in for the Verus contracts of get/insert/find_index on the REAL functions (whatever their syntax): every inserted key is found again by get and yields the very root inserted; a key never inserted is not found"
use super::*;
use crate::memory::verif_kani_memory::KBox;
use crate::memory::Gc;
use crate::object::ObjString;

#[kani::proof]
#[kani::unwind(6)]
fn store_get_after_insert() {
    // three distinct strings "a", "b", "c" with symbolic hashes: collisions and wrap-around are explored
    let names = ["a", "b", "c"];
    let h: [u64; 3] = kani::any();
    // every home-slot configuration of the 4-slot table (the table only looks at hash & 3) plus hash equality/inequality
    kani::assume(h[0] < 8 && h[1] < 8 && h[2] < 8);
    let b0 = KBox::new(ObjString::new(Gc::dangling(), names[0], h[0]));
    let b1 = KBox::new(ObjString::new(Gc::dangling(), names[1], h[1]));
    let b2 = KBox::new(ObjString::new(Gc::dangling(), names[2], h[2]));
    let mut store = ObjStringStore::new();
    let n: usize = kani::any();
    kani::assume(n <= 2);
    if n > 0 { store.insert(b0.gc().as_root()); }
    if n > 1 { store.insert(b1.gc().as_root()); }
    let q: usize = kani::any();
    kani::assume(q < 3);
    let found = store.get((h[q], names[q]));
    if q < n {
        match found {
            Some(r) => {
                let want = if q == 0 { b0.gc() } else if q == 1 { b1.gc() } else { b2.gc() };
                assert!(r.as_gc() == want);
            }
            None => assert!(false),
        }
    } else {
        assert!(found.is_none());
    }
    std::mem::forget(store);
}
