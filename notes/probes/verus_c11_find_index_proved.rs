use vstd::prelude::*;
verus! {
global size_of usize == 8;

#[derive(Clone)]
pub struct ObjString { pub hash: u64, pub string: String }
impl ObjString {
    #[verifier::external_body]
    pub fn as_str(&self) -> (r: &str) ensures r@ == self.string@ { self.string.as_str() }
}
pub type Root<T> = Box<T>;

#[verifier::external_body]
fn str_eq(a: &str, b: &str) -> (r: bool) ensures r == (a@ == b@) { a == b }

pub type Key = (u64, Seq<char>);
pub open spec fn key_of(e: Root<ObjString>) -> Key { (e.hash, e.string@) }
pub open spec fn home(h: u64, mask: usize) -> int { ((h as usize) & mask) as int }
pub open spec fn dist(from: int, to: int, n: int) -> int { if to >= from { to - from } else { to + n - from } }

pub open spec fn mask_ok(mask: usize) -> bool { mask < usize::MAX && (mask & ((mask + 1) as usize)) == 0 }

pub open spec fn other_before(entries: Seq<Option<Root<ObjString>>>, k: Key, h: int, upto: int) -> bool {
    forall|j: int| 0 <= j < entries.len() && dist(h, j, entries.len() as int) < upto
        ==> (#[trigger] entries[j]).is_some() && key_of(entries[j].unwrap()) != k
}

proof fn lemma_succ(i: usize, mask: usize)
    requires mask_ok(mask), i <= mask
    ensures ((i + 1) as usize & mask) == (if i == mask { 0usize } else { (i + 1) as usize })
{
    let m = mask as u64; let x = i as u64;
    assert(m < 0xffff_ffff_ffff_ffffu64 && (m & add(m, 1)) == 0 && x <= m
        ==> (add(x, 1) & m) == (if x == m { 0u64 } else { add(x, 1) })) by(bit_vector);
}
proof fn lemma_home(h: u64, mask: usize)
    ensures 0 <= home(h, mask) <= mask
{
    let m = mask as u64;
    assert((h & m) <= m) by(bit_vector);
}

fn find_index(entries: &Vec<Option<Root<ObjString>>>, key: (u64, &str), mask: usize) -> (r: usize)
    requires
        entries.len() == mask + 1,
        mask_ok(mask),
        exists|e: int| 0 <= e < entries.len() && entries[e].is_none(),
    ensures
        r < entries.len(),
        entries[r as int].is_none() || key_of(entries[r as int].unwrap()) == (key.0, key.1@),
        other_before(entries@, (key.0, key.1@), home(key.0, mask), dist(home(key.0, mask), r as int, entries.len() as int)),
{
    let (hash, string) = key;
    let mut index = (hash as usize) & mask;
    proof { lemma_home(hash, mask); }
    let ghost n = entries.len() as int;
    let ghost h = home(hash, mask);
    let ghost e = choose|e: int| 0 <= e < entries.len() && entries[e].is_none();
    let ghost k: Key = (hash, string@);

    loop
        invariant
            entries.len() == mask + 1, mask_ok(mask), n == entries.len(), h == home(hash, mask), 0 <= h < n,
            k == (hash, string@), hash == key.0, string@ == key.1@,
            0 <= e < n, entries[e].is_none(),
            index <= mask,
            dist(h, index as int, n) + dist(index as int, e, n) == dist(h, e, n),
            other_before(entries@, k, h, dist(h, index as int, n)),
        decreases dist(index as int, e, n)
    {
        match entries[index].as_ref() {
            Some(entry) => {
                if entry.hash == hash && str_eq(entry.as_str(), string) {
                    return index;
                }
            }
            None => {
                return index;
            }
        }
        proof { lemma_succ(index, mask); }
        index = (index + 1) & mask;
    }
}
}
fn main() {}
