use vstd::prelude::*;
use std::collections::HashMap;
verus! {
pub trait GcManaged {
    spec fn traced(&self) -> bool;
    fn mark(&self) ensures self.traced();
}
impl<K, V: GcManaged, S> GcManaged for HashMap<K, V, S> {
    open spec fn traced(&self) -> bool { forall|k: K| self@.contains_key(k) ==> (#[trigger] self@[k]).traced() }
    fn mark(&self) {
        for v in self.values() {
            v.mark();
        }
    }
}
}
fn main() {}
