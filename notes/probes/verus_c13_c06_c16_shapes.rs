use vstd::prelude::*;
verus! {

// ---------- C13: make_bounded_range verbatim (R1 applied) ----------
pub enum ErrorKind { IndexError, TypeError, ValueError }
pub struct Error { pub kind: ErrorKind }
#[verifier::external_body]
fn verif_error(kind: ErrorKind) -> (e: Error) ensures e.kind == kind { Error { kind } }

pub struct ObjRange { pub begin: isize, pub end: isize }

pub open spec fn norm(x: int, limit: int) -> int { if x < 0 { x + limit } else { x } }

impl ObjRange {
    pub(crate) fn make_bounded_range(
        &self,
        limit: isize,
        type_name: &str,
    ) -> (r: Result<(usize, usize), Error>)
        requires limit >= 0
        ensures
            match r {
                Ok((b, e)) => {
                    &&& 0 <= norm(self.begin as int, limit as int) < limit
                    &&& 0 <= norm(self.end as int, limit as int) <= limit
                    &&& b as int == norm(self.begin as int, limit as int)
                    &&& e as int == if norm(self.end as int, limit as int) >= b { norm(self.end as int, limit as int) } else { b as int }
                },
                Err(e) => e.kind is IndexError && !(0 <= norm(self.begin as int, limit as int) < limit
                          && 0 <= norm(self.end as int, limit as int) <= limit),
            }
    {
        let begin = if self.begin < 0 {
            self.begin + limit
        } else {
            self.begin
        };
        if begin < 0 || begin >= limit {
            return Err(verif_error(ErrorKind::IndexError));
        }
        let end = if self.end < 0 {
            self.end + limit
        } else {
            self.end
        };
        if end < 0 || end > limit {
            return Err(verif_error(ErrorKind::IndexError));
        }
        Ok((
            begin as usize,
            if end >= begin { end } else { begin } as usize,
        ))
    }
}

// ---------- C06: nested &mut indexing as in resolve_upvalue ----------
pub struct Local { pub depth: Option<usize>, pub is_captured: bool }
pub struct Compiler { pub locals: Vec<Local>, pub scope_depth: usize }
pub struct Parser { pub compilers: Vec<Compiler> }
impl Parser {
    fn flag(&mut self, enclosing: usize, index: u8)
        requires enclosing < old(self).compilers.len(), (index as int) < old(self).compilers[enclosing as int].locals.len()
        ensures final(self).compilers.len() == old(self).compilers.len(),
            final(self).compilers[enclosing as int].locals[index as int].is_captured,
    {
        self.compilers[enclosing].locals[index as usize].is_captured = true;
    }
}

// ---------- C16: heap accounting and pacing (sweep etc. as specified stubs) ----------
pub const HEAP_INIT_BYTES_MAX: usize = 65536;
pub const HEAP_GROWTH_FACTOR: usize = 2;

#[verifier::external_body]
pub struct Objects { _p: u8 }
pub uninterp spec fn total_bytes(o: Objects) -> nat;

pub struct Heap {
    pub collection_threshold: usize,
    pub bytes_allocated: usize,
    pub objects: Objects,
}

impl Heap {
    pub open spec fn wf(&self) -> bool {
        self.bytes_allocated as nat == total_bytes(self.objects) && self.bytes_allocated <= usize::MAX / 2
    }
    #[verifier::external_body]
    fn mark_roots(&mut self) ensures final(self).objects == old(self).objects,
        final(self).bytes_allocated == old(self).bytes_allocated, final(self).collection_threshold == old(self).collection_threshold {}
    #[verifier::external_body]
    fn trace_references(&mut self) ensures final(self).objects == old(self).objects,
        final(self).bytes_allocated == old(self).bytes_allocated, final(self).collection_threshold == old(self).collection_threshold {}
    #[verifier::external_body]
    fn sweep(&mut self) -> (freed: usize)
        ensures freed as nat + total_bytes(final(self).objects) == total_bytes(old(self).objects),
            final(self).bytes_allocated == old(self).bytes_allocated, final(self).collection_threshold == old(self).collection_threshold
    { 0 }

    fn collect(&mut self)
        requires old(self).wf()
        ensures final(self).wf(), final(self).bytes_allocated <= old(self).bytes_allocated,
            final(self).collection_threshold == 2 * final(self).bytes_allocated,
    {
        self.mark_roots();
        self.trace_references();
        let bytes_freed = self.sweep();

        let prev_bytes_allocated = self.bytes_allocated;
        self.bytes_allocated -= bytes_freed;
        self.collection_threshold = self.bytes_allocated * HEAP_GROWTH_FACTOR;
    }

    fn collect_if_required(&mut self)
        requires old(self).wf()
        ensures final(self).wf(), final(self).bytes_allocated <= final(self).collection_threshold,
            final(self).bytes_allocated <= old(self).bytes_allocated,
    {
        if self.bytes_allocated >= self.collection_threshold {
            self.collect();
        }
    }
}
}
fn main() {}
