use vstd::prelude::*;
use std::mem;
verus! {

pub struct ObjString { pub hash: u64, pub string: String }
pub type Root<T> = Box<T>;

pub struct ObjStringStore {
    entries: Vec<Option<Root<ObjString>>>,
    size: usize,
    mask: usize,
}

pub assume_specification<T> [std::option::Option::<T>::replace] (o: &mut std::option::Option<T>, v: T) -> (r: std::option::Option<T>)
    ensures r == *old(o), *final(o) == Some(v);

#[verifier::external_body]
fn load_limit(n: usize) -> (r: usize) ensures r as int == (3 * n as int) / 4 { (n as f64 * 0.75) as usize }

#[verifier::external_body]
fn find_index(entries: &Vec<Option<Root<ObjString>>>, key: (u64, &str), mask: usize) -> (r: usize)
    ensures r < entries.len()
{ unimplemented!() }

impl ObjStringStore {
    fn insert(&mut self, value: Root<ObjString>) -> Option<Root<ObjString>>
        requires old(self).entries.len() > 0, old(self).size < 1000,
        ensures final(self).entries.len() == old(self).entries.len(),
            exists|i:int| 0<=i<old(self).entries.len() && final(self).entries@ == old(self).entries@.update(i, Some(value)),
    {
        if self.size + 1 > load_limit(self.entries.len()) {
            //self.adjust_capacity(self.entries.len() * 2);
        }

        let key = (value.hash, value.string.as_str());
        let index = find_index(&self.entries, key, self.mask);
        let entry = &mut self.entries[index];

        let is_new_key = entry.is_none();
        if is_new_key {
            self.size += 1;
        }
        entry.replace(value)
    }
}
}
fn main() {}
