use vstd::prelude::*;
verus! {

pub const LOCALS_MAX: usize = u8::MAX as usize + 1;
pub const UPVALUES_MAX: usize = u8::MAX as usize + 1;
pub const JUMP_SIZE_MAX: usize = u16::MAX as usize + 1;

pub struct Token { pub line: usize, pub source: String }

pub struct Local {
    pub name: String,
    pub depth: Option<usize>,
    pub is_captured: bool,
}
pub struct Upvalue {
    pub index: u8,
    pub is_local: bool,
}
pub struct Chunk { pub code: Vec<u8>, pub lines: Vec<i32> }
pub struct ObjFunction { pub arity: usize, pub upvalue_count: usize }

pub enum CompilerError {
    InvalidCompilerKind,
    InvalidControlStatement,
    JumpTooLarge,
    LocalNotFound,
    ReadVarInInitialiser,
    TooManyClosureVars,
}

pub struct Compiler {
    pub function: ObjFunction,
    pub chunk: Chunk,
    pub locals: Vec<Local>,
    pub upvalues: Vec<Upvalue>,
    pub scope_depth: usize,
}

#[verifier::external_body]
fn string_eq(a: &String, b: &String) -> (r: bool) ensures r == (a@ == b@) { a == b }

pub open spec fn u16_of(b0: u8, b1: u8) -> int { b0 as int + 256 * (b1 as int) }

#[verifier::external_body]
fn u16_to_ne_bytes(x: u16) -> (r: [u8; 2]) ensures u16_of(r[0], r[1]) == x as int { x.to_ne_bytes() }

impl Compiler {
    fn patch_jump(&mut self, offset: usize) -> (r: Result<(), CompilerError>)
        requires offset + 2 <= old(self).chunk.code.len()
        ensures
            final(self).chunk.code.len() == old(self).chunk.code.len(),
            r.is_ok() ==> u16_of(final(self).chunk.code[offset as int], final(self).chunk.code[offset + 1]) == old(self).chunk.code.len() - offset - 2,
    {
        let jump = self.chunk.code.len() - offset - 2;

        if jump > JUMP_SIZE_MAX {
            return Err(CompilerError::JumpTooLarge);
        }

        let bytes = u16_to_ne_bytes(jump as u16);

        self.chunk.code[offset] = bytes[0];
        self.chunk.code[offset + 1] = bytes[1];
        Ok(())
    }
}
}
fn main() {}
