use vstd::prelude::*;
use std::mem;
verus! {

#[derive(Clone)]
pub struct ObjString { pub hash: u64, pub string: String }
pub type Root<T> = Box<T>;

pub struct ObjStringStore {
    entries: Vec<Option<Root<ObjString>>>,
    size: usize,
    mask: usize,
}

pub uninterp spec fn is_default<T>(t: T) -> bool;
pub broadcast axiom fn option_default<T>(o: Option<T>)
    ensures #[trigger] is_default(o) <==> o is None;
pub assume_specification<T: std::default::Default> [std::mem::take] (x: &mut T) -> (r: T)
    ensures r == *old(x), is_default(*final(x));

#[verifier::external_body]
fn find_index(entries: &Vec<Option<Root<ObjString>>>, key: (u64, &str), mask: usize) -> (r: usize)
    ensures r < entries.len()
{ unimplemented!() }

impl ObjStringStore {
        fn adjust_capacity(&mut self, new_capacity: usize)
            requires new_capacity > 0
        {
            let mut new_entries: Vec<Option<Root<ObjString>>> = vec![None; new_capacity];
            let mask = new_capacity - 1;

            for entry in self.entries.iter_mut() {
                if !(entry.is_none()) {

                let key = {
                    let entry = entry.as_ref().unwrap();
                    (entry.hash, entry.string.as_str())
                };
                let index = find_index(&new_entries, key, mask);
                let dest = &mut new_entries[index];
                *dest = mem::take(entry);
                }
            }

            self.entries = new_entries;
            self.mask = mask;
        }
}
}
fn main() {}
