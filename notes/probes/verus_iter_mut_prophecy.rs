use vstd::prelude::*;
verus! {
fn zero(v: &mut Vec<u64>)
    ensures final(v).len() == old(v).len(), forall|i:int| 0<=i<final(v).len() ==> final(v)[i] == 0
{
    for x in it: v.iter_mut()
        invariant
            forall|j:int| 0 <= j < it.index@ ==> *final(it.seq()[j]) == 0,
    {
        *x = 0;
    }
}
}
fn main() {}
