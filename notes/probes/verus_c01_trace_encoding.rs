use vstd::prelude::*;
use std::collections::HashMap;
verus! {

// ---- environment stand-ins (declared, not extracted) ----
pub trait GcManaged {
    spec fn traced(&self) -> bool;      // every outgoing managed reference has been marked
    spec fn shaded(&self) -> bool;      // every outgoing managed reference is non-white (marked or blackened)
    fn mark(&self) ensures self.traced();
    fn blacken(&self) ensures self.shaded();
}

#[verifier::external_body]
#[verifier::accept_recursive_types(T)]
pub struct Gc<T> { p: *const T }
impl<T> Clone for Gc<T> { #[verifier::external_body] fn clone(&self) -> Self { Gc { p: self.p } } }
impl<T> Copy for Gc<T> {}

pub uninterp spec fn gc_marked<T>(g: Gc<T>) -> bool;
pub uninterp spec fn gc_black<T>(g: Gc<T>) -> bool;

impl<T> GcManaged for Gc<T> {
    open spec fn traced(&self) -> bool { gc_marked(*self) }
    open spec fn shaded(&self) -> bool { gc_marked(*self) || gc_black(*self) }
    #[verifier::external_body] fn mark(&self) {}
    #[verifier::external_body] fn blacken(&self) {}
}

impl<T: GcManaged> GcManaged for Option<T> {
    open spec fn traced(&self) -> bool { match self { Some(x) => x.traced(), None => true } }
    open spec fn shaded(&self) -> bool { match self { Some(x) => x.shaded(), None => true } }
    #[verifier::external_body] fn mark(&self) {}
    #[verifier::external_body] fn blacken(&self) {}
}

pub struct ObjString { pub hash: u64 }

impl<T: GcManaged> GcManaged for Vec<T> {
    open spec fn traced(&self) -> bool { forall|i: int| 0 <= i < self.len() ==> (#[trigger] self[i]).traced() }
    open spec fn shaded(&self) -> bool { forall|i: int| 0 <= i < self.len() ==> (#[trigger] self[i]).shaded() }
    fn mark(&self) {
        for e in it: self
            invariant forall|j: int| 0 <= j < it.index@ ==> (#[trigger] self[j]).traced(),
                 it.seq().len() == self.len(), forall|j: int| 0 <= j < self.len() ==> *it.seq()[j] == self[j],
        {
            e.mark();
        }
    }

    fn blacken(&self) {
        for e in it: self
            invariant forall|j: int| 0 <= j < it.index@ ==> (#[trigger] self[j]).shaded(),
                 it.seq().len() == self.len(), forall|j: int| 0 <= j < self.len() ==> *it.seq()[j] == self[j],
        {
            e.blacken();
        }
    }
}


// ---- generated from struct definition ----
pub struct ObjClass {
    pub name: Gc<ObjString>,
    pub metaclass: Gc<ObjClass>,
    pub superclass: Option<Gc<ObjClass>>,
}

// ---- extracted verbatim ----
impl GcManaged for ObjClass {
    open spec fn traced(&self) -> bool { self.metaclass.traced() && self.superclass.traced() }
    open spec fn shaded(&self) -> bool { self.metaclass.shaded() && self.superclass.shaded() }
    fn mark(&self) {
        self.metaclass.mark();
        if let Some(s) = self.superclass.as_ref() { s.mark(); }
    }

    fn blacken(&self) {
        self.metaclass.blacken();
        if let Some(s) = self.superclass.as_ref() { s.blacken(); }
    }
}
}
fn main() {}
