#!/usr/bin/env python3
"""rsx — mechanical extraction of Rust items from /repo sources.

No rustc involved: a comment/string-aware scanner finds item boundaries by brace matching.
Everything returned is a *verbatim slice* of the source file (plus its line number), so
what the verifier sees is the text that is compiled.
"""
import re
import hashlib


class ExtractError(Exception):
    """An anchor (file, item path, loop ordinal, rewrite site) was not found: undecided, never a violation."""


def code_mask(src):
    """Return a bytearray m with m[i]==1 where src[i] is code (not comment / string / char literal)."""
    n = len(src)
    m = bytearray(b"\x01") * n
    i = 0
    while i < n:
        c = src[i]
        if c == '/' and i + 1 < n and src[i + 1] == '/':
            j = src.find('\n', i)
            if j < 0:
                j = n
            for k in range(i, j):
                m[k] = 0
            i = j
        elif c == '/' and i + 1 < n and src[i + 1] == '*':
            depth = 1
            j = i + 2
            while j < n and depth > 0:
                if src.startswith('/*', j):
                    depth += 1
                    j += 2
                elif src.startswith('*/', j):
                    depth -= 1
                    j += 2
                else:
                    j += 1
            for k in range(i, j):
                m[k] = 0
            i = j
        elif c == '"' or (c == 'b' and i + 1 < n and src[i + 1] == '"' and not _ident_char(src, i - 1)):
            if c == 'b':
                i += 1
            j = i + 1
            while j < n and src[j] != '"':
                if src[j] == '\\':
                    j += 1
                j += 1
            j += 1
            for k in range(i, min(j, n)):
                m[k] = 0
            i = j
        elif c == 'r' and not _ident_char(src, i - 1) and re.match(r'r#*"', src[i:i + 8]):
            mm = re.match(r'r(#*)"', src[i:])
            hashes = mm.group(1)
            end = src.find('"' + hashes, i + len(mm.group(0)))
            j = n if end < 0 else end + 1 + len(hashes)
            for k in range(i, j):
                m[k] = 0
            i = j
        elif c == "'":
            # char literal or lifetime
            mm = re.match(r"'(\\.[^']*|[^\\'])'", src[i:i + 12])
            if mm:
                j = i + len(mm.group(0))
                for k in range(i, j):
                    m[k] = 0
                i = j
            else:
                i += 1
        else:
            i += 1
    return m


def _ident_char(src, i):
    return i >= 0 and (src[i].isalnum() or src[i] == '_')


def match_close(src, mask, open_pos, open_ch='{', close_ch='}'):
    """Index of the bracket closing the one at open_pos."""
    depth = 0
    i = open_pos
    n = len(src)
    while i < n:
        if mask[i]:
            if src[i] == open_ch:
                depth += 1
            elif src[i] == close_ch:
                depth -= 1
                if depth == 0:
                    return i
        i += 1
    raise ExtractError("unbalanced %s at offset %d" % (open_ch, open_pos))


def find_header_brace(src, mask, start, stop=None):
    """First '{' at paren/bracket depth 0 from start (code positions only); also stops at ';' -> None."""
    depth = 0
    i = start
    n = len(src) if stop is None else stop
    while i < n:
        if mask[i]:
            c = src[i]
            if c in '([':
                depth += 1
            elif c in ')]':
                depth -= 1
            elif c == '{' and depth == 0:
                return i
            elif c == ';' and depth == 0:
                return None
        i += 1
    return None


KW = re.compile(r'\b(impl|mod|fn|struct|enum|trait|const|static|type|macro_rules)\b')


class Item:
    def __init__(self, kind, name, header, start, end, body_open, body_close, parent):
        self.kind = kind
        self.name = name
        self.header = header
        self.start = start          # start of item text (after previous item), incl. attributes
        self.end = end              # one past last char
        self.body_open = body_open  # position of '{' or None
        self.body_close = body_close
        self.parent = parent
        self.children = []


class Source:
    def __init__(self, path, text=None):
        self.path = path
        self.text = open(path).read() if text is None else text
        self.mask = code_mask(self.text)
        self.root = Item('root', '', '', 0, len(self.text), -1, len(self.text), None)
        self._scan(self.root, 0, len(self.text))

    def line_of(self, pos):
        return self.text.count('\n', 0, pos) + 1

    def _scan(self, parent, a, b):
        src, mask = self.text, self.mask
        i = a
        item_start = a
        while i < b:
            if not mask[i]:
                i += 1
                continue
            c = src[i]
            if c == '{':
                # stray block at item level (e.g. macro body) — skip
                i = match_close(src, mask, i) + 1
                item_start = i
                continue
            if c == ';' or c == '}':
                i += 1
                item_start = i
                continue
            m = KW.match(src, i) if (src[i].isalpha() and not _ident_char(src, i - 1)) else None
            if not m:
                i += 1
                continue
            kw = m.group(1)
            j = m.end()
            if kw == 'const' or kw == 'static':
                # `const fn` / `const NAME: T = ...;`
                m2 = re.match(r'\s+(unsafe\s+)?fn\b', src[j:j + 20])
                if m2:
                    i = j
                    continue
            if kw == 'macro_rules':
                ob = find_header_brace(src, mask, j, b)
                if ob is None:
                    i = j
                    continue
                cb = match_close(src, mask, ob)
                mm = re.match(r'!\s*(\w+)', src[j:ob])
                it = Item('macro', mm.group(1) if mm else '?', src[i:ob], self._trim(item_start), cb + 1, ob, cb, parent)
                parent.children.append(it)
                i = cb + 1
                item_start = i
                continue
            ob = find_header_brace(src, mask, j, b)
            if ob is None:
                # item terminated by ';' (const, type, tuple/unit struct, fn decl in trait, mod decl)
                depth = 0
                k = j
                while k < b and not (mask[k] and src[k] == ';' and depth == 0):
                    if mask[k] and src[k] in '([{':
                        depth += 1
                    elif mask[k] and src[k] in ')]}':
                        depth -= 1
                    k += 1
                header = src[i:k]
                nm = re.match(r'\s*(\w+)', src[j:k])
                it = Item(kw, nm.group(1) if nm else '', header, self._trim(item_start), k + 1, None, None, parent)
                parent.children.append(it)
                i = k + 1
                item_start = i
                continue
            if kw in ('const', 'static', 'type'):
                # `const X: T = Foo { .. };` — header brace belongs to the initialiser
                depth = 0
                k = j
                while k < b and not (mask[k] and src[k] == ';' and depth == 0):
                    if mask[k] and src[k] in '([{':
                        depth += 1
                    elif mask[k] and src[k] in ')]}':
                        depth -= 1
                    k += 1
                nm = re.match(r'\s*(\w+)', src[j:k])
                it = Item(kw, nm.group(1) if nm else '', src[i:k], self._trim(item_start), k + 1, None, None, parent)
                parent.children.append(it)
                i = k + 1
                item_start = i
                continue
            cb = match_close(src, mask, ob)
            header = src[i:ob]
            if kw == 'impl':
                name = self._impl_name(src[j:ob])
            else:
                nm = re.match(r'\s*(\w+)', src[j:ob])
                name = nm.group(1) if nm else ''
            it = Item(kw, name, header, self._trim(item_start), cb + 1, ob, cb, parent)
            parent.children.append(it)
            if kw in ('impl', 'mod', 'trait'):
                self._scan(it, ob + 1, cb)
            i = cb + 1
            item_start = i

    def _trim(self, pos):
        src = self.text
        while pos < len(src) and src[pos] in ' \t\r\n':
            pos += 1
        return pos

    @staticmethod
    def _strip_generics(s):
        out = []
        depth = 0
        i = 0
        while i < len(s):
            c = s[i]
            if c == '<':
                depth += 1
            elif c == '>' and i > 0 and s[i - 1] != '-':
                depth -= 1
            elif depth == 0:
                out.append(c)
            i += 1
        return ''.join(out)

    @classmethod
    def _impl_name(cls, hdr):
        """'impl<T: X> Trait for Type<T> where ..' -> 'Trait for Type' ; 'impl<T> Type<T>' -> 'Type'."""
        h = hdr
        h = re.split(r'\bwhere\b', h)[0]
        h = cls._strip_generics(h)
        h = ' '.join(h.split())
        h = h.replace('& ', '&')
        return h.strip()

    # ------------------------------------------------------------------ lookup
    def find(self, path, kind=None):
        """path like 'Compiler::patch_jump', '<GcManaged for ObjClass>::mark', 'string_store::find_index',
        'hash_number'. Returns the single matching Item or raises ExtractError."""
        parts = self._split_path(path)
        cands = [self.root]
        for pi, p in enumerate(parts):
            nxt = []
            last = pi == len(parts) - 1
            for c in cands:
                for ch in c.children:
                    if p.startswith('<') and p.endswith('>'):
                        if ch.kind == 'impl' and ch.name.replace('memory::', '') == p[1:-1].strip():
                            nxt.append(ch)
                    elif last:
                        if ch.name == p and (kind is None or ch.kind == kind) and ch.kind != 'impl':
                            nxt.append(ch)
                        elif ch.kind == 'impl' and kind == 'impl' and ch.name == p:
                            nxt.append(ch)
                    else:
                        if ch.name == p and ch.kind in ('mod', 'impl', 'trait'):
                            nxt.append(ch)
            cands = nxt
            if not cands:
                raise ExtractError("anchor lost: %s: no item '%s' (at component '%s')" % (self.path, path, p))
        if len(cands) > 1:
            raise ExtractError("anchor ambiguous: %s: %d items match '%s'" % (self.path, len(cands), path))
        return cands[0]

    def find_all(self, pred):
        out = []

        def rec(it):
            for ch in it.children:
                if pred(ch):
                    out.append(ch)
                rec(ch)
        rec(self.root)
        return out

    @staticmethod
    def _split_path(path):
        parts = []
        cur = ''
        depth = 0
        i = 0
        while i < len(path):
            c = path[i]
            if c == '<':
                depth += 1
            elif c == '>':
                depth -= 1
            if depth == 0 and path.startswith('::', i):
                parts.append(cur)
                cur = ''
                i += 2
                continue
            cur += c
            i += 1
        parts.append(cur)
        return [p.strip() for p in parts if p.strip()]

    def text_of(self, item):
        return self.text[item.start:item.end]


class FnText:
    """A function's verbatim text split into (prefix attrs/vis) signature / body."""

    def __init__(self, source, item):
        if item.kind != 'fn' or item.body_open is None:
            raise ExtractError("not a function with a body: %s" % item.name)
        self.source = source
        self.item = item
        src = source.text
        kwpos = src.find(item.header, item.start)  # header starts at 'fn'
        # locate start of signature incl. visibility / qualifiers: go back from 'fn'
        self.pre = src[item.start:kwpos]           # attributes, doc comments, `pub(crate) `, `unsafe `
        self.sig = src[kwpos:item.body_open].rstrip()
        self.body = src[item.body_open:item.body_close + 1]   # includes braces
        self.line = source.line_of(kwpos)
        self.sha = hashlib.sha256(src[item.start:item.end].encode()).hexdigest()

    def qualifiers(self):
        """visibility/unsafe keywords in front of `fn` (attributes and comments removed)."""
        pre = self.pre
        m = code_mask(pre)
        code = ''.join(ch if m[i] else ' ' for i, ch in enumerate(pre))
        code = re.sub(r'#\[[^\]]*\]', ' ', code)
        return ' '.join(code.split())


def find_loops(body):
    """Loops in a function body in textual order: list of (kind, kw_pos, brace_pos, close_pos).
    Positions are offsets into `body`. Nested closures' loops are included (textual order)."""
    mask = code_mask(body)
    out = []
    for m in re.finditer(r'\b(while|for|loop)\b', body):
        i = m.start()
        if not mask[i]:
            continue
        if _ident_char(body, i - 1):
            continue
        # `for<'a>` HRTB: skip
        if m.group(1) == 'for' and re.match(r'for\s*<', body[i:i + 8]):
            continue
        # labels like 'outer: loop are fine
        ob = find_header_brace(body, mask, m.end())
        if ob is None:
            continue
        cb = match_close(body, mask, ob)
        out.append((m.group(1), i, ob, cb))
    return out
