#!/usr/bin/env python3
"""Developer helper: assemble one Verus unit from the current /repo and show the verifier's verdict per obligation."""
import os
import sys
sys.path.insert(0, os.path.dirname(os.path.abspath(__file__)))
import verus_unit as vu

ROOT = os.path.dirname(os.path.dirname(os.path.abspath(__file__)))


def main():
    unit = sys.argv[1]
    tpl = os.path.join(ROOT, 'contracts', 'verus', unit + '.rs')
    outdir = os.path.join(ROOT, 'work', 'dev')
    os.makedirs(outdir, exist_ok=True)
    asm = vu.assemble(tpl, unit, ['C00'])
    path = os.path.join(outdir, unit + '.rs')
    open(path, 'w').write(asm.text)
    res = vu.run_verus(path, extra=sys.argv[2:])
    hard = vu.classify(asm, res, None)
    for d in res['diags']:
        if d.get('level') == 'error':
            print(d.get('rendered'))
    if hard:
        print('HARD ERROR (undecided) -- see above')
    for o in asm.obligations:
        if o.status != 'discharged':
            print(o.status.upper(), o.name)
    vr = (res['json'] or {}).get('verification-results')
    print('obligations: %d  verus: %s  wall %.1fs' % (len(asm.obligations), vr, res['wall_s']))
    if res['json'] is None:
        print(res['stderr'][-3000:])


if __name__ == '__main__':
    main()
