#!/usr/bin/env python3
"""Driver behind bin/check: decide one property from its contract units.

Exit codes: 0 all obligations of the property discharged (known findings are printed, not counted);
            1 at least one obligation refuted -> `VIOLATION property=<ID> replay=<path>` lines;
            2 undecided (lost anchor, unsupported construct, solver limit, tool failure) -> never a VIOLATION line.
"""
import concurrent.futures
import fcntl
import json
import os
import re
import shutil
import subprocess
import sys
import time

HERE = os.path.dirname(os.path.abspath(__file__))
ROOT = os.path.dirname(HERE)
sys.path.insert(0, HERE)
import verus_unit as vu
import kani_unit as ku
import rewrite as rw
from rsx import ExtractError

REPO = os.environ.get('VERIF_REPO', '/repo')
CANARY = 'verif_canary_must_fail'


def load_cfg():
    return json.load(open(os.path.join(ROOT, 'contracts', 'properties.json')))


def known_findings():
    out = []
    p = os.path.join(ROOT, 'known_findings.txt')
    if os.path.exists(p):
        for l in open(p):
            l = l.strip()
            if l.startswith('finding:'):
                kv = dict(re.findall(r'(\w+)=(\S+)', l))
                kv['text'] = l
                out.append(kv)
    return out


def slug(s):
    return re.sub(r'[^A-Za-z0-9_.-]+', '_', s)


def run_verus_unit(unit, props_default, tier, outdir, skip_fns=None, depth=0):
    """returns dict(unit, asm, res, hard, path)"""
    tpl = os.path.join(ROOT, 'contracts', 'verus', unit + '.rs')
    r = {'unit': unit, 'asm': None, 'res': None, 'hard': None, 'path': None}
    skip = dict(skip_fns or {})
    try:
        asm = vu.assemble(tpl, unit, props_default, skip)
    except ExtractError as e:
        r['hard'] = 'extraction: %s' % e
        return r
    # vacuity canary: must be refuted on every run
    txt = asm.text
    marker = '} // verus!'
    k = txt.rfind(marker)
    if k < 0:
        r['hard'] = 'template has no `} // verus!` marker'
        return r
    txt = txt[:k] + 'proof fn %s() ensures false {}\n' % CANARY + txt[k:]
    asm.text = txt
    path = os.path.join(outdir, unit + '.rs')
    open(path, 'w').write(txt)
    r['path'] = path
    r['asm'] = asm
    rlimit = 20 if tier == 'quick' else 60
    res = vu.run_verus(path, rlimit=rlimit)
    hard = vu.classify(asm, res, CANARY)
    if hard and res.get('hard_fns') and depth < 4:
        # a function body the verifier cannot take (unsupported construct, type error after an edit): assume its contract,
        # report its obligations as undecided, and still check everything else
        for fn_, why in res['hard_fns'].items():
            skip[fn_] = 'verifier cannot ingest the body: ' + why
        return run_verus_unit(unit, props_default, tier, outdir, skip, depth + 1)
    if hard is None and not res.get('canary_failed'):
        hard = 'vacuity guard: the injected `ensures false` canary was NOT refuted — verifier result cannot be trusted'
    if hard is None:
        nver = res.get('verified') or 0
        if nver == 0:
            hard = 'vacuity guard: verus reported 0 verified items'
    # vacuity probes: entry (`assert(false)` must fail) on every run; exit (`ensures false` must be refuted, in call-graph
    # layers) on every run for units of up to 25 functions and in the thorough tier for the two large units
    if hard is None:
        try:
            vacuous, vsecs, sane, why = vu.run_vacuity(asm, path, exits=(tier == 'thorough' or len(asm.fn_ranges) <= 25))
            res['wall_s'] += vsecs
            if not sane:
                hard = 'vacuity run failed to produce a verdict: ' + why
            for fv in vacuous:
                f = fv.rsplit(' (', 1)[0]
                for o in asm.obligations:
                    if o.fn == f and o.status == 'discharged':
                        o.status = 'undecided'
                        o.detail = ('vacuity guard: a `false` probe %s was PROVED — the function\'s context is contradictory '
                                    '(precondition or axiom), so nothing it discharges can be trusted\n' % fv) + o.detail
        except Exception as e:
            hard = 'vacuity run crashed: %s' % e
    # thorough: re-run undecided / everything with another seed to detect flaky (unstable) proofs
    if tier == 'thorough' and hard is None:
        res2 = vu.run_verus(path, rlimit=120, extra=['--smt-option', 'smt.random_seed=%d' % (int(os.environ.get('VERIF_SEED', '0')) % 1000 + 1)])
        asm2 = vu.assemble(tpl, unit, props_default)
        asm2.text = txt
        hard2 = vu.classify(asm2, res2, CANARY)
        st2 = {o.name: o.status for o in asm2.obligations}
        for o in asm.obligations:
            if o.status == 'discharged' and st2.get(o.name) != 'discharged':
                o.status = 'undecided'
                o.detail += 'discharged with default seed but not with a second random seed (unstable proof)\n'
            elif o.status == 'refuted' and st2.get(o.name) == 'discharged':
                o.status = 'undecided'
                o.detail += 'refuted with default seed but discharged with a second random seed (unstable proof)\n'
        res['wall_s'] += res2['wall_s']
        if hard2 and not hard:
            hard = 'second-seed run: ' + hard2
    r['res'] = res
    r['hard'] = hard
    return r


def main(argv):
    import argparse
    ap = argparse.ArgumentParser()
    ap.add_argument('prop')
    ap.add_argument('--tier', default=os.environ.get('VERIF_TIER', 'quick'))
    ap.add_argument('--replay')
    ap.add_argument('--no-kani', action='store_true')
    ap.add_argument('--no-evidence', action='store_true')
    a = ap.parse_args(argv)
    if a.replay:
        import replaylib
        return replaylib.replay(a.prop, a.replay)
    tier = a.tier if a.tier in ('quick', 'thorough') else 'quick'
    t0 = time.time()
    cfg = load_cfg()
    if a.prop not in cfg['properties']:
        print('UNDECIDED property=%s reason=not-claimed' % a.prop)
        return 2
    pc = cfg['properties'][a.prop]
    seed = int(os.environ.get('VERIF_SEED', '0') or 0)
    outdir = os.path.join(ROOT, 'work', a.prop)
    if os.environ.get('VERIF_REPO'):
        # maintainer runs against scratch copies may run side by side: keep their work files apart
        import hashlib as _h
        outdir += '-' + _h.sha1(os.environ['VERIF_REPO'].encode()).hexdigest()[:8]
    shutil.rmtree(outdir, ignore_errors=True)
    os.makedirs(outdir, exist_ok=True)
    replay_dir = os.path.join(ROOT, 'replay', 'out')
    os.makedirs(replay_dir, exist_ok=True)
    vu.reset_sources()

    undecided = []
    obligations = []   # dicts
    functions = []
    rewrites = []
    assumptions = list(cfg.get('trusted_base_common', [])) + list(pc.get('assumptions', []))
    dropped = []
    solver_s = {'verus': 0.0, 'kani': 0.0}
    cmds = []
    backend_count = {'verus': 0, 'kani_complete': 0, 'kani_bounded': 0}

    # ---- Verus units (parallel)
    vunits = pc.get('verus_units', [])
    with concurrent.futures.ThreadPoolExecutor(max_workers=max(1, len(vunits))) as ex:
        futs = {u: ex.submit(run_verus_unit, u, [a.prop], tier, outdir) for u in vunits}
        vres = {u: f.result() for u, f in futs.items()}
    for u in vunits:
        r = vres[u]
        if r['hard']:
            undecided.append('%s: %s' % (u, r['hard'].strip()[:1500]))
        if r['asm'] is None:
            continue
        asm, res = r['asm'], r['res']
        if res:
            solver_s['verus'] += res['wall_s']
            cmds.append(res['cmd'])
        for o in asm.obligations:
            if a.prop not in o.props:
                continue
            st = o.status if not r['hard'] else ('undecided' if o.status != 'refuted' else 'refuted')
            obligations.append({'name': o.name, 'kind': o.kind, 'backend': 'verus', 'status': st, 'clause': o.text[:300],
                                'detail': o.detail, 'unit': u, 'assembled': r['path'], 'fn': o.fn})
            backend_count['verus'] += 1
        for f in asm.functions:
            if not f['props'] or a.prop in f['props']:
                functions.append(f)
        rewrites += ['%s @ %s: %d site(s)' % x for x in asm.rewrites]
        assumptions += asm.assumptions
        dropped += asm.dropped

    # ---- Kani units
    kunits = [] if a.no_kani else pc.get('kani_units', [])
    if kunits:
        kr = ku.run_units(kunits, a.prop, tier, outdir)
        solver_s['kani'] += kr['wall_s']
        cmds += kr['cmds']
        if kr['hard']:
            undecided.append('kani: ' + kr['hard'][:1500])
        for h in kr['harnesses']:
            obligations.append(h)
            backend_count['kani_bounded' if h.get('bounded') else 'kani_complete'] += 1
        functions += kr['functions']
        assumptions += kr['assumptions']

    # ---- property-level combination rules
    waived = []
    if pc.get('combine') == 'gc_two_sided':
        # C01: the per-type trace obligations come in two families (mark = M, blacken = B). The heap is safe if EVERY
        # mark is complete (all reachable objects grey after mark_roots, each grey is blackened) OR EVERY blacken is
        # complete (transitive closure of grey roots is black). A violation needs failures on both sides.
        tr = [o for o in obligations if o['unit'] == 'gc_trace']
        for o in tr:
            o['side'] = 'M' if o['fn'].endswith('::mark') else ('B' if o['fn'].endswith('::blacken') else None)
        # the `body` obligation of a trace fn is the conjunction of its member obligations: drop it when a member explains it
        for o in tr:
            if o['kind'] == 'body' and o['status'] == 'refuted' and any(
                    p_['fn'] == o['fn'] and p_['kind'] != 'body' and p_['status'] == 'refuted' for p_ in tr):
                o['status'] = 'discharged'
                o['detail'] = 'implied by the refuted member obligation(s) of the same function\n' + o.get('detail', '')
                o['implied'] = True
        bad_m = [o for o in tr if o['status'] == 'refuted' and o['side'] == 'M']
        bad_b = [o for o in tr if o['status'] == 'refuted' and o['side'] == 'B']
        if (bad_m and not bad_b) or (bad_b and not bad_m):
            und_side = [o for o in tr if o['status'] == 'undecided' and o['side'] == ('B' if bad_m else 'M')]
            if not und_side:
                for o in bad_m + bad_b:
                    o['status'] = 'waived'
                    waived.append(o)
                    print('INFO property=%s %s is not established, but every %s obligation is: reachable objects still survive (redundant traversal missing)'
                          % (a.prop, o['name'], 'blacken' if bad_m else 'mark'))
        obligations = [o for o in obligations if not o.get('implied')]

    # ---- verdict
    kf = [k for k in known_findings() if k.get('property') == a.prop]
    refuted = [o for o in obligations if o['status'] == 'refuted']
    und_obs = [o for o in obligations if o['status'] == 'undecided']
    lines = []
    violations = 0
    for o in refuted:
        known = [k for k in kf if k.get('obligation') == o['name']]
        if known:
            lines.append('KNOWN-FINDING: property=%s %s' % (a.prop, re.sub(r'^property=\S+\s*', '', known[0]['text'][len('finding:'):].strip())))
            o['known_finding'] = True
            continue
        violations += 1
        rp = os.path.join(replay_dir, '%s-%s.txt' % (a.prop, slug(o['name'])))
        with open(rp, 'w') as f:
            f.write('property: %s\nobligation: %s\nbackend: %s\nclause: %s\n' % (a.prop, o['name'], o['backend'], o['clause']))
            f.write('replay: %s\n' % (o.get('replay_kind') or 'none (the verifier gives no model) — no-failing-input-found'))
            f.write('assembled unit / harness: %s\n\n---- verifier output ----\n%s\n' % (o.get('assembled'), o.get('detail', '')))
            if o.get('replay_text'):
                f.write('\n---- counterexample replayed natively against the real crate ----\n%s\n' % o['replay_text'])
        tail = '' if o.get('replay_kind') else ' no-failing-input-found'
        lines.append('VIOLATION property=%s replay=%s obligation=%s%s' % (a.prop, rp, o['name'], tail))
    obligations = [o for o in obligations if o['status'] != 'waived']
    # obligations refuted by a recorded known finding are reported separately: they are neither discharged nor part of
    # what this run claims to have proved
    known_found = [o for o in obligations if o.get('known_finding')]
    obligations = [o for o in obligations if not o.get('known_finding')]
    refuted = [o for o in refuted if not o.get('known_finding')]
    backend_count = {'verus': len([o for o in obligations if o['backend'] == 'verus']),
                     'kani_complete': len([o for o in obligations if o['backend'] == 'kani' and not o.get('bounded')]),
                     'kani_bounded': len([o for o in obligations if o['backend'] == 'kani' and o.get('bounded')])}
    nob = len(obligations)
    ndis = len([o for o in obligations if o['status'] == 'discharged'])
    if nob == 0 and not undecided:
        undecided.append('vacuity guard: zero obligations generated for %s' % a.prop)
    wall = time.time() - t0
    ev = {
        'property_id': a.prop, 'tier': tier, 'seed': seed, 'level': 'proof',
        'coverage': {
            'obligations': nob, 'discharged': ndis,
            'checker_cmd': ' ; '.join(sorted(set(cmds)))[:4000] or 'none',
            'trusted_base': sorted(set(assumptions)),
            'refuted': [o['name'] for o in refuted], 'undecided': [o['name'] for o in und_obs] + undecided,
            'by_backend': backend_count,
            'bounded': [{'name': o['name'], 'bound': o.get('bound')} for o in obligations if o.get('bounded')],
            'functions_under_contract': functions,
            'solver_s': {k: round(v, 1) for k, v in solver_s.items()},
            'rewrites_applied': rewrites, 'extraction_drops': sorted(set(dropped)),
            'rewrite_rules': {k: v for k, v in rw.DESCRIPTIONS.items() if any(r.startswith(k + ' ') for r in rewrites)},
            'not_covered': pc.get('not_covered', []),
            'waived': [{'obligation': o['name'], 'why': 'other traversal complete'} for o in waived],
            'known_findings': [{'obligation': o['name'], 'clause': o['clause']} for o in known_found],
            'samples': [{'obligation': o['name'], 'backend': o['backend'], 'status': o['status'], 'clause': o['clause']} for o in obligations[:400]],
            'explanation': pc.get('explanation', ''),
        },
        'assumptions': sorted(set(assumptions)),
        'wall_s': round(wall, 1), 'violations': violations,
    }
    if not a.no_evidence:
        os.makedirs(os.path.join(ROOT, 'evidence'), exist_ok=True)
        with open(os.path.join(ROOT, 'evidence', a.prop + '.json'), 'w') as f:
            json.dump(ev, f, indent=1)
    for l in lines:
        print(l)
    print('%s tier=%s obligations=%d discharged=%d refuted=%d undecided=%d (verus %d, kani complete %d, kani bounded %d) wall=%.0fs'
          % (a.prop, tier, nob, ndis, len(refuted), len(und_obs) + len(undecided), backend_count['verus'],
             backend_count['kani_complete'], backend_count['kani_bounded'], wall))
    if violations:
        return 1
    if undecided or und_obs:
        for u in undecided:
            print('UNDECIDED property=%s reason=%s' % (a.prop, u.replace('\n', ' | ')[:600]))
        for o in und_obs:
            print('UNDECIDED property=%s obligation=%s %s' % (a.prop, o['name'], (o.get('detail') or '').replace('\n', ' | ')[:300]))
        return 2
    return 0


if __name__ == '__main__':
    sys.exit(main(sys.argv[1:]))
