import sys,os,re,glob,subprocess,shutil
wid=int(sys.argv[1]); nw=int(sys.argv[2])
VC='/var/tmp/vc%d'%wid
subprocess.run('rsync -a --delete --exclude work --exclude .cache --exclude .git --exclude replay/out --exclude evidence /verif/ %s/'%VC,shell=True)
unit_files={}
for t in glob.glob(VC+'/contracts/verus/*.rs'):
    u=os.path.basename(t)[:-3]
    unit_files[u]=set(re.findall(r'file=(\S+)',open(t).read()))
patches=sorted(glob.glob('/verif/seeded-harmless/H*/harmless_*.diff'))
repo='/var/tmp/hr%d'%wid
for i,p in enumerate(patches):
    if i%nw!=wid: continue
    shutil.rmtree(repo,ignore_errors=True)
    subprocess.run('rsync -a --exclude target --exclude .git /repo/ %s/'%repo,shell=True)
    r=subprocess.run('patch -p1 -s --no-backup-if-mismatch < %s'%p,shell=True,cwd=repo,capture_output=True,text=True)
    tag='/'.join(p.split('/')[-2:])
    if r.returncode!=0:
        print('SKIP(no-apply)',tag,flush=True); continue
    files=set(re.findall(r'^\+\+\+ b/(\S+)',open(p).read(),re.M))
    units=[u for u,fs in unit_files.items() if fs&files]
    bad=[]
    for u in sorted(units):
        o=subprocess.run(['python3','lib/dev_unit.py',u],cwd=VC,env=dict(os.environ,VERIF_REPO=repo),capture_output=True,text=True).stdout
        for l in o.splitlines():
            if l.startswith('REFUTED') and 'out_of_a_try_statement_runs_its_finally_block' not in l:
                bad.append(l[:160])
    print('PATCH',tag,'units',len(units),'REFUTED',len(bad),flush=True)
    for b in bad: print('    ',b,flush=True)
shutil.rmtree(repo,ignore_errors=True)
