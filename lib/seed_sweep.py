#!/usr/bin/env python3
"""Maintainer helper: proof stability. Assembles every Verus unit from /repo and re-runs it with several SMT seeds at the
thorough tier's rlimit; prints the units / seeds for which the verdict differs from the default seed."""
import glob, os, sys
sys.path.insert(0, os.path.dirname(os.path.abspath(__file__)))
import verus_unit as vu
ROOT = os.path.dirname(os.path.dirname(os.path.abspath(__file__)))
seeds = [int(x) for x in (sys.argv[1:] or ['1', '2', '3', '4', '5', '6'])]
out = os.path.join(ROOT, 'work', 'sweep')
os.makedirs(out, exist_ok=True)
for tpl in sorted(glob.glob(os.path.join(ROOT, 'contracts', 'verus', '*.rs'))):
    unit = os.path.basename(tpl)[:-3]
    asm = vu.assemble(tpl, unit, ['C00'])
    path = os.path.join(out, unit + '.rs')
    open(path, 'w').write(asm.text)
    base = None
    for sd in [0] + seeds:
        res = vu.run_verus(path, rlimit=120, extra=['--smt-option', 'smt.random_seed=%d' % sd])
        errs = sorted(set(d.get('message', '')[:60] for d in res['diags'] if d.get('level') == 'error' and not d.get('message', '').startswith('aborting')))
        e = (res['json'] or {}).get('verification-results', {}).get('errors')
        if sd == 0:
            base = e
        elif e != base:
            print('UNSTABLE %s seed=%d errors=%s (default %s): %s' % (unit, sd, e, base, errs), flush=True)
    print('ok %s' % unit, flush=True)
