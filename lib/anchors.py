#!/usr/bin/env python3
"""Maintainer tool (not part of any check): list proof hints whose anchors no longer match /repo's current text.
A lost hint is skipped by the assembler; while the proof still goes through nobody notices, but a refutation in that
function would then be reported as undecided. Run after every change to /repo.  Usage: python3 lib/anchors.py"""
import glob
import os
import sys
sys.path.insert(0, os.path.dirname(os.path.abspath(__file__)))
import verus_unit as vu

ROOT = os.path.dirname(os.path.dirname(os.path.abspath(__file__)))
bad = 0
for tpl in sorted(glob.glob(os.path.join(ROOT, 'contracts', 'verus', '*.rs'))):
    unit = os.path.basename(tpl)[:-3]
    try:
        asm = vu.assemble(tpl, unit, ['C00'], {})
    except Exception as e:  # noqa
        print('%s: cannot assemble: %s' % (unit, e))
        bad += 1
        continue
    for d in asm.dropped:
        if 'anchor lost' in d:
            print('%s: %s' % (unit, d))
            bad += 1
    for f in asm.functions:
        if 'NOT verified' in f['name']:
            print('%s: %s' % (unit, f['name']))
            bad += 1
print('lost anchors / stubbed functions: %d' % bad)
sys.exit(1 if bad else 0)
