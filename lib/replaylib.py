#!/usr/bin/env python3
"""`bin/check <ID> --replay <file>`: re-run the obligation a replay file names, against /repo as it is now.

A replay file is written by bin/check for every refuted obligation. For a Kani obligation the counterexample is replayed
natively against the real crate again (cargo kani playback on a fresh scratch copy); for a Verus obligation (no model) the
unit is re-assembled from /repo and the named obligation is re-checked. Exit 1 if the obligation is still refuted, 0 if it
is discharged now, 2 if undecided.
"""
import os
import re
import sys

HERE = os.path.dirname(os.path.abspath(__file__))
ROOT = os.path.dirname(HERE)


def replay(prop, path):
    import checklib
    import kani_unit as ku
    txt = open(path).read()
    m = re.search(r'^obligation: (\S+)', txt, re.M)
    b = re.search(r'^backend: (\S+)', txt, re.M)
    if not m or not b:
        print('not a replay file written by bin/check: %s' % path)
        return 2
    ob, backend = m.group(1), b.group(1)
    outdir = os.path.join(ROOT, 'work', prop + '-replay')
    os.makedirs(outdir, exist_ok=True)
    if backend == 'kani':
        unit = ob.split('/')[0]
        cfg = checklib.load_cfg()['properties'].get(prop, {})
        units = cfg.get('kani_units', [unit])
        parsed = [ku.parse_unit(u) for u in units]
        hname = None
        for u in parsed:
            for h in u['harnesses']:
                if ('%s/%s' % (u['unit'], h['obligation'])) == re.sub(r'\[cfg=\w+\]$', '', ob):
                    hname = h['name']
        if not hname:
            print('harness for %s not found' % ob)
            return 2
        r = ku.run_units(units, prop, 'quick', outdir, only_harness=hname)
        for h in r['harnesses']:
            print(h['name'], h['status'])
            if h['status'] == 'refuted':
                print(h.get('replay_text', '')[-3000:])
                return 1
            if h['status'] == 'undecided':
                return 2
        return 0
    unit = ob.split('/')[0]
    r = checklib.run_verus_unit(unit, [prop], 'quick', outdir)
    if r['asm'] is None:
        print('UNDECIDED', r['hard'])
        return 2
    for o in r['asm'].obligations:
        if o.name == ob:
            print(o.name, o.status)
            if o.status == 'refuted':
                print(o.detail[-3000:])
                return 1
            return 0 if o.status == 'discharged' else 2
    print('obligation %s no longer exists in unit %s' % (ob, unit))
    return 2
