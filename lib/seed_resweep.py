import os,sys,subprocess,json,re
from concurrent.futures import ThreadPoolExecutor
S='/verif/seeded'
byprop={}
for d in sorted(os.listdir(S)):
    m=re.match(r'c(\d\d)',d)
    if not m or not os.path.exists(os.path.join(S,d,'patch.diff')): continue
    byprop.setdefault('C'+m.group(1),[]).append(d)
def run(prop):
    out=[]
    for n in byprop[prop]:
        r=subprocess.run(['python3','lib/seedtool.py','run',n,prop],cwd='/verif',capture_output=True,text=True)
        lines=[l for l in r.stdout.splitlines() if 'conda' not in l]
        first=[l for l in lines if ' exit ' in l or 'does not apply' in l]
        out.append('%s %s'%(n, first[0].split(n)[-1].strip() if first else (lines[-1][:80] if lines else 'no output')))
        print(out[-1],flush=True)
    return out
with ThreadPoolExecutor(6) as ex:
    list(ex.map(run,sorted(byprop)))
