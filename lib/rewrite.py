#!/usr/bin/env python3
"""The fixed syntactic rewrite rules applied to extracted function text before it is given to Verus.
Each rule is semantics-preserving under the condition stated in DESIGN.md §3; every application is
logged (rule, function, number of sites) into the evidence. A rule named by a contract that matches
nothing is an extraction failure (undecided), never a pass.
"""
import re
import rsx


def _match_paren(s, i, o='(', c=')'):
    mask = rsx.code_mask(s)
    return rsx.match_close(s, mask, i, o, c)


def _split_top(s):
    """split on top-level commas"""
    mask = rsx.code_mask(s)
    parts, depth, cur = [], 0, ''
    for k, ch in enumerate(s):
        if mask[k]:
            if ch in '([{':
                depth += 1
            elif ch in ')]}':
                depth -= 1
            elif ch == ',' and depth == 0:
                parts.append(cur)
                cur = ''
                continue
        cur += ch
    parts.append(cur)
    return parts


def r1_error_macro(sig, body):
    """R1: error!(Kind, "fmt", args…)  ->  verif_error(Kind)   (message text dropped)"""
    n = 0
    while True:
        m = re.search(r'\berror!\s*\(', body)
        if not m:
            break
        op = m.end() - 1
        cl = _match_paren(body, op)
        args = _split_top(body[op + 1:cl])
        kind = ' '.join(args[0].split())
        body = body[:m.start()] + 'verif_error(%s)' % kind + body[cl + 1:]
        n += 1
    return sig, body, n


def r3_continue_guard(sig, body):
    """R3: `for … { if C { continue; } REST }` -> `for … { if !(C) { REST } }` (first statement of a for body only)."""
    n = 0
    pos = 0
    while True:
        loops = [l for l in rsx.find_loops(body) if l[0] == 'for' and l[2] >= pos]
        done = True
        for kind, kw, ob, cb in loops:
            inner = body[ob + 1:cb]
            m = re.match(r'(\s*)if\s+(.+?)\s*\{\s*continue\s*;\s*\}', inner, re.S)
            if m and '{' not in m.group(2):
                cond = m.group(2)
                rest = inner[m.end():]
                new_inner = '%sif !(%s) {%s}\n' % (m.group(1), cond, rest.rstrip() + '\n' + m.group(1).lstrip('\n'))
                body = body[:ob + 1] + new_inner + body[cb:]
                n += 1
                pos = ob + 1
                done = False
                break
        if done:
            break
    return sig, body, n


def r5_enumerate(sig, body):
    """R5: for (i, x) in V.iter().enumerate().rev() B  ->  index-based while loop, same visiting order.
           for (i, x) in V.iter().enumerate() B        ->  forward index-based while loop.
           for x in V.iter().rev() B                   ->  backward index-based while loop.
       The iterator protocol of slice::Iter/Enumerate/Rev is trusted to mean indexing."""
    n = 0
    while True:
        hit = None
        for kind, kw, ob, cb in rsx.find_loops(body):
            if kind != 'for':
                continue
            hdr = body[kw:ob]
            m = re.match(r'for\s+\(\s*(\w+)\s*,\s*(\w+)\s*\)\s+in\s+(.+?)\.iter\(\)\s*\.enumerate\(\)(\s*\.rev\(\))?\s*$', hdr, re.S)
            if m:
                hit = ('enum', m.group(1), m.group(2), ' '.join(m.group(3).split()), bool(m.group(4)), kw, ob, cb)
                break
            m = re.match(r'for\s+(\w+)\s+in\s+(.+?)\.iter\(\)\s*\.rev\(\)\s*$', hdr, re.S)
            if m:
                hit = ('rev', None, m.group(1), ' '.join(m.group(2).split()), True, kw, ob, cb)
                break
            m = re.match(r'for\s+(\w+)\s+in\s+\(\s*(.+?)\.\.(.+?)\)\s*\.rev\(\)\s*$', hdr, re.S)
            if m:
                hit = ('rangerev', m.group(1), ' '.join(m.group(2).split()), ' '.join(m.group(3).split()), True, kw, ob, cb)
                break
        if not hit:
            break
        mode, iv, xv, vec, rev, kw, ob, cb = hit
        k = '__k%d' % n
        inner = body[ob + 1:cb]
        if mode == 'rangerev':
            # for X in (A..B).rev() { BODY }  ->  let mut k = B; while k > A { k -= 1; let X = k; BODY }
            lo, hi = xv, vec
            newtxt = ('let mut {k}: usize = {hi}; while {k} > {lo} {{ {k} -= 1; let {x} = {k};{inner}}}'
                      .format(k=k, hi=hi, lo=lo, x=iv, inner=inner))
            body = body[:kw] + newtxt + body[cb + 1:]
            n += 1
            continue
        ibind = ('let %s = %s; ' % (iv, k)) if iv else ''
        if rev:
            new = ('let mut {k}: usize = {v}.len(); while {k} > 0 {{ {k} -= 1; {ib}let {x} = &{v}[{k}];{inner}}}'
                   .format(k=k, v=vec, ib=ibind, x=xv, inner=inner))
        else:
            # forward: increment at loop end would be skipped by `continue`; refuse if body contains one
            if re.search(r'\bcontinue\b', inner):
                break
            new = ('let mut {k}: usize = 0; while {k} < {v}.len() {{ {ib}let {x} = &{v}[{k}];{inner} {k} += 1; }}'
                   .format(k=k, v=vec, ib=ibind, x=xv, inner=inner))
        body = body[:kw] + new + body[cb + 1:]
        n += 1
    return sig, body, n


def r6_ne_bytes(sig, body):
    """R6: (E as u16).to_ne_bytes() / X.to_ne_bytes() -> u16_to_ne_bytes(..) stub related to u16_of by a round-trip axiom."""
    n = 0
    body, k = re.subn(r'\(([^()]+?) as u16\)\.to_ne_bytes\(\)', r'u16_to_ne_bytes(\1 as u16)', body)
    n += k
    body, k = re.subn(r'\b(\w+)\.to_ne_bytes\(\)', r'u16_to_ne_bytes(\1)', body)
    n += k
    return sig, body, n


def r9_borrow(sig, body):
    """R9: `.borrow()` / `.borrow_mut()` on stand-in RefCell -> plain access (dynamic borrow flags not modelled)."""
    body, n = re.subn(r'\.borrow(_mut)?\(\)', '', body)
    return sig, body, n


def r10_cfg(sig, body):
    """R10: cfg!(any(debug_assertions, feature = "…")) -> universally quantified bool parameter `cfg_checked`;
       `if cfg!(feature = "debug_trace_gc") { … }` blocks (tracing output only) are deleted."""
    n = 0
    while True:
        m = re.search(r'if\s+cfg!\(\s*feature\s*=\s*"debug_trace_gc"\s*\)\s*\{', body)
        if not m:
            break
        ob = m.end() - 1
        cb = _match_paren(body, ob, '{', '}')
        body = body[:m.start()] + body[cb + 1:]
        n += 1
    body, k = re.subn(r'cfg!\(\s*any\(\s*debug_assertions\s*,\s*feature\s*=\s*"[a-z_]+"\s*\)\s*\)', 'cfg_checked', body)
    if k:
        m = re.search(r'\(\s*&(mut\s+)?self\s*,?', sig)
        if m:
            sig = sig[:m.end()] + (' ' if sig[m.end() - 1] == ',' else ', ') + 'cfg_checked: bool, ' + sig[m.end():]
            sig = re.sub(r',\s*,', ',', sig)
            sig = re.sub(r',\s*\)', ')', sig)
        else:
            sig = re.sub(r'\(', '(cfg_checked: bool, ', sig, count=1)
            sig = re.sub(r',\s*\)', ')', sig)
    n += k
    return sig, body, n


def r11_common_prefix(sig, body):
    """R11: `common::NAME` -> `NAME` (constants are extracted into the unit by //@const)."""
    body, n = re.subn(r'\bcommon::', '', body)
    return sig, body, n


def r12_std_paths(sig, body):
    """R12: `mem::take`/`mem::size_of` paths -> unit-local stubs with the same name (std function trusted by contract)."""
    body, n = re.subn(r'\bmem::(take|size_of_val|size_of|replace)\b', r'mem_\1', body)
    return sig, body, n


def r13_format(sig, body):
    """R13: format!(…) -> verif_format()  (message text dropped; only used for diagnostics)"""
    n = 0
    while True:
        m = re.search(r'\bformat!\s*\(', body)
        if not m:
            break
        op = m.end() - 1
        cl = _match_paren(body, op)
        body = body[:m.start()] + 'verif_format()' + body[cl + 1:]
        n += 1
    return sig, body, n


def r14_intern(sig, body):
    """R14: X.vm.new_gc_obj_string(ARG) -> verif_intern(ARG)  (string interning is C11's contract; here only 'some string value')"""
    n = 0
    while True:
        m = re.search(r'\b\w+\.vm\.new_gc_obj_string\s*\(', body)
        if not m:
            break
        op = m.end() - 1
        cl = _match_paren(body, op)
        arg = body[op + 1:cl]
        body = body[:m.start()] + 'verif_intern(%s)' % arg + body[cl + 1:]
        n += 1
    return sig, body, n


def r15_ref_pattern(sig, body):
    """R15: `for &x in E { B }` -> `for __rN in E { let x = *__rN; B }` (Verus has no ref patterns; x is Copy)"""
    n = 0
    while True:
        hit = None
        for kind, kw, ob, cb in rsx.find_loops(body):
            if kind != 'for':
                continue
            m = re.match(r'for\s+&(\w+)\s+in\s+', body[kw:ob])
            if m:
                hit = (m, kw, ob)
                break
        if not hit:
            break
        m, kw, ob = hit
        r = '__r%d' % n
        hdr = body[kw:ob]
        new_hdr = 'for %s in ' % r + hdr[m.end():]
        body = body[:kw] + new_hdr + '{ let %s = *%s;' % (m.group(1), r) + body[ob + 1:]
        n += 1
    # `if let Some(&x) = E {`  ->  `if let Some(__rN) = E { let x = *__rN;`
    while True:
        m = re.search(r'if\s+let\s+Some\(\s*&(\w+)\s*\)\s*=\s*([^{]+)\{', body)
        if not m:
            break
        r = '__r%d' % n
        body = body[:m.start()] + 'if let Some(%s) = %s{ let %s = *%s;' % (r, m.group(2), m.group(1), r) + body[m.end():]
        n += 1
    return sig, body, n


def r8_str_slice(sig, body):
    """R8: `&E[a..b]` (on str) -> `str_slice(E, a, b)`; the stub's precondition a <= b <= len && boundaries IS the no-panic obligation"""
    n = 0
    while True:
        m = re.search(r'&([A-Za-z_][\w.()]*?)\[([^\[\]]+?)\.\.([^\[\]]+?)\]', body)
        if not m:
            break
        body = body[:m.start()] + 'str_slice(%s, %s, %s)' % (m.group(1), m.group(2).strip(), m.group(3).strip()) + body[m.end():]
        n += 1
    return sig, body, n


def r16_ok_or_else(sig, body):
    """R16: `.ok_or_else(|| E)` / `.ok_or_else(|| { E })` -> `.ok_or(E)` (E is a pure error constructor after R1; laziness is unobservable)"""
    n = 0
    while True:
        m = re.search(r'\.ok_or_else\s*\(', body)
        if not m:
            break
        op = m.end() - 1
        cl = _match_paren(body, op)
        inner = body[op + 1:cl].strip()
        mm = re.match(r'\|\|\s*(.*)$', inner, re.S)
        if not mm:
            break
        e = mm.group(1).strip()
        if e.startswith('{') and e.endswith('}'):
            e = e[1:-1].strip()
        body = body[:m.start()] + '.ok_or(%s)' % e + body[cl + 1:]
        n += 1
    return sig, body, n


def r17_inclusive_range(sig, body):
    """R17: `for x in A..=B` -> `for x in A..(B + 1)` (same iteration space; the `+ 1` becomes an overflow obligation)"""
    n = 0
    while True:
        hit = None
        for kind, kw, ob, cb in rsx.find_loops(body):
            if kind != 'for':
                continue
            hdr = body[kw:ob]
            m = re.match(r'(for\s+\w+\s+in\s+)(.+?)\.\.=(.+?)\s*$', hdr, re.S)
            if m:
                hit = (m, kw, ob)
                break
        if not hit:
            break
        m, kw, ob = hit
        body = body[:kw] + '%s%s..(%s + 1) ' % (m.group(1), m.group(2), m.group(3).strip()) + body[ob:]
        n += 1
    return sig, body, n


def r18_cmp_minmax(sig, body):
    """R18: `cmp::max(a, b)` / `cmp::min(a, b)` -> `verif_max(a, b)` / `verif_min(a, b)` (std by contract, on the unit's integer type)"""
    body, n = re.subn(r'\b(?:std::|core::)?cmp::(max|min)\s*\(', r'verif_\1(', body)
    return sig, body, n


def r19_closure_contract(sig, body):
    """R19: a one-parameter comparison closure `|v| EXPR` (addresses compared) -> `|v: usize| -> (r__: bool) ensures r__ == (EXPR) { EXPR }`
    (Verus knows nothing about an unannotated closure's result; the contract is the closure's own body, copied)"""
    n = 0
    pos = 0
    while True:
        mask = rsx.code_mask(body)
        m = None
        for mm in re.finditer(r'\|\s*(\w+)\s*\|(?!\|)', body[pos:]):
            st = pos + mm.start()
            if not mask[st]:
                continue
            k = st - 1
            while k >= 0 and body[k].isspace():
                k -= 1
            if k >= 0 and body[k] in '=(,':
                m = (st, pos + mm.end(), mm.group(1))
                break
        if not m:
            break
        st, en, var = m
        depth = 0
        k = en
        while k < len(body):
            if mask[k]:
                c = body[k]
                if c in '([{':
                    depth += 1
                elif c in ')]}':
                    if depth == 0:
                        break
                    depth -= 1
                elif c in ';,' and depth == 0:
                    break
            k += 1
        expr = body[en:k].strip()
        if expr.startswith('{') or not expr:
            pos = en
            continue
        new = '|%s: usize| -> (r__: bool) ensures r__ == (%s) { %s }' % (var, expr, expr)
        body = body[:st] + new + body[k:]
        pos = st + len(new)
        n += 1
    return sig, body, n


def r20_ptr_offset(sig, body):
    """R20: `unsafe { P.offset(E as isize) }` -> `ip_offset(P, E)`, `unsafe { P.offset(-(E as isize)) }` -> `ip_offset_back(P, E)` (code addresses are modelled by offsets; the unit's stubs are P + E / P - E and demand no overflow / underflow)"""
    n = 0
    pos = 0
    while True:
        m = re.search(r'unsafe\s*\{\s*([\w.]+)\.offset\s*\(', body[pos:])
        if not m:
            break
        op = pos + m.end() - 1
        cl = _match_paren(body, op)
        arg = body[op + 1:cl].strip()
        m2 = re.match(r'\s*\}', body[cl + 1:])
        fn_name = 'ip_offset'
        mneg = re.match(r'^-\s*\((.*)\)$', arg, re.S)
        if mneg and _match_paren(arg, arg.index('(')) == len(arg) - 1:
            # `p.offset(-(E as isize))`: backwards
            arg = mneg.group(1).strip()
            fn_name = 'ip_offset_back'
        ma = re.match(r'^(.*)\bas\s+isize$', arg, re.S)
        if not m2 or not ma:
            pos = pos + m.end()
            continue
        e = ma.group(1).strip()
        if e.startswith('(') and _match_paren(e, 0) == len(e) - 1:
            e = e[1:-1].strip()
        new = '%s(%s, %s)' % (fn_name, m.group(1), e)
        body = body[:pos + m.start()] + new + body[cl + 1 + m2.end():]
        pos = pos + m.start() + len(new)
        n += 1
    return sig, body, n


def r21_opcode_cast(sig, body):
    """R21: `OpCode::X as u8` -> `opcode_u8(OpCode::X)` (the cast of the #[repr(u8)] enum, by contract `== opcode_byte(X)`)"""
    body, n = re.subn(r'\bOpCode::(\w+)\s+as\s+u8\b', r'opcode_u8(OpCode::\1)', body)
    return sig, body, n


def r26_precedence_cast(sig, body):
    """R26: `Precedence::X as usize` -> `prec_usize(Precedence::X)` (the cast of the fieldless enum, by contract
    `== prec_index(X)`, the discriminant function generated from the declaration order)"""
    body, n = re.subn(r'\bPrecedence::(\w+)\s+as\s+usize\b', r'prec_usize(Precedence::\1)', body)
    return sig, body, n


def r22_write_macro(sig, body):
    """R22: `write!(BUF, "fmt", args…)` with its trailing `.unwrap()` / `.expect("…")` -> `verif_write(&mut BUF)`
    (text formatting into a String buffer is outside Verus; the arguments are dropped, the buffer is havocked)"""
    n = 0
    pos = 0
    while True:
        m = re.search(r'\bwrite!\s*\(', body[pos:])
        if not m:
            break
        op = pos + m.end() - 1
        cl = _match_paren(body, op)
        args = _split_top(body[op + 1:cl])
        buf = args[0].strip()
        end = cl + 1
        m2 = re.match(r'\s*\.\s*(unwrap\s*\(\s*\)|expect\s*\()', body[end:])
        if m2:
            if m2.group(1).startswith('expect'):
                ep = end + m2.end() - 1
                end = _match_paren(body, ep) + 1
            else:
                end = end + m2.end()
        new = 'verif_write(&mut %s)' % buf
        body = body[:pos + m.start()] + new + body[end:]
        pos = pos + m.start() + len(new)
        n += 1
    return sig, body, n


def r23_debug_assert(sig, body):
    """R23: `debug_assert!(E)` -> `debug_assert_checked(E)` (stub with `requires E`: in the checked build configuration a
    false E is a panic, so E becomes an obligation of every caller; the optimised build does not evaluate it)"""
    body, n = re.subn(r'\bdebug_assert!\s*\(', 'debug_assert_checked(', body)
    return sig, body, n


def r24_entry_or_insert(sig, body):
    """R24: `M.entry(K).or_insert(V)` -> `M.entry_or_insert(K, V)` (std HashMap entry API by contract: inserts only when the key is absent)"""
    n = 0
    while True:
        m = re.search(r'\.entry\s*\(', body)
        if not m:
            break
        op = m.end() - 1
        cl = _match_paren(body, op)
        m2 = re.match(r'\s*\.\s*or_insert\s*\(', body[cl + 1:])
        if not m2:
            break
        op2 = cl + 1 + m2.end() - 1
        cl2 = _match_paren(body, op2)
        body = body[:m.start()] + '.entry_or_insert(%s, %s)' % (body[op + 1:cl].strip(), body[op2 + 1:cl2].strip()) + body[cl2 + 1:]
        n += 1
    return sig, body, n


def r25_stack_index(sig, body):
    """R25: `self.active_fiber().stack[E]` -> `self.stack_at(E)` (reading slot E of the active fiber's value stack, by contract)"""
    n = 0
    while True:
        m = re.search(r'self\s*\.\s*active_fiber\(\)\s*\.\s*stack\s*\[', body)
        if not m:
            break
        op = m.end() - 1
        cl = _match_paren(body, op, '[', ']')
        body = body[:m.start()] + 'self.stack_at(%s)' % body[op + 1:cl].strip() + body[cl + 1:]
        n += 1
    return sig, body, n


RULES = {
    'R1': r1_error_macro,
    'R3': r3_continue_guard,
    'R5': r5_enumerate,
    'R6': r6_ne_bytes,
    'R8': r8_str_slice,
    'R9': r9_borrow,
    'R10': r10_cfg,
    'R11': r11_common_prefix,
    'R12': r12_std_paths,
    'R13': r13_format,
    'R15': r15_ref_pattern,
    'R16': r16_ok_or_else,
    'R17': r17_inclusive_range,
    'R18': r18_cmp_minmax,
    'R14': r14_intern,
    'R19': r19_closure_contract,
    'R20': r20_ptr_offset,
    'R21': r21_opcode_cast,
    'R22': r22_write_macro,
    'R23': r23_debug_assert,
    'R24': r24_entry_or_insert,
    'R25': r25_stack_index,
    'R26': r26_precedence_cast,
}

DESCRIPTIONS = {k: (v.__doc__ or '').strip() for k, v in RULES.items()}


def apply(rule, sig, body):
    if rule not in RULES:
        raise rsx.ExtractError("unknown rewrite rule %s" % rule)
    return RULES[rule](sig, body)
