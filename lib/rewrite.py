#!/usr/bin/env python3
"""The fixed syntactic rewrite rules applied to extracted function text before it is given to Verus.
Each rule is semantics-preserving under the condition stated in DESIGN.md §3; every application is
logged (rule, function, number of sites) into the evidence. A rule named by a contract that matches
nothing is an extraction failure (undecided), never a pass.
"""
import re
import rsx


def _match_paren(s, i, o='(', c=')'):
    mask = rsx.code_mask(s)
    return rsx.match_close(s, mask, i, o, c)


def _split_top(s):
    """split on top-level commas"""
    mask = rsx.code_mask(s)
    parts, depth, cur = [], 0, ''
    for k, ch in enumerate(s):
        if mask[k]:
            if ch in '([{':
                depth += 1
            elif ch in ')]}':
                depth -= 1
            elif ch == ',' and depth == 0:
                parts.append(cur)
                cur = ''
                continue
        cur += ch
    parts.append(cur)
    return parts


def r1_error_macro(sig, body):
    """R1: error!(Kind, "fmt", args…)  ->  verif_error(Kind)   (message text dropped)"""
    n = 0
    while True:
        m = re.search(r'\berror!\s*\(', body)
        if not m:
            break
        op = m.end() - 1
        cl = _match_paren(body, op)
        args = _split_top(body[op + 1:cl])
        kind = ' '.join(args[0].split())
        body = body[:m.start()] + 'verif_error(%s)' % kind + body[cl + 1:]
        n += 1
    return sig, body, n


def r3_continue_guard(sig, body):
    """R3: `for … { if C { continue; } REST }` -> `for … { if !(C) { REST } }` (first statement of a for body only)."""
    n = 0
    pos = 0
    while True:
        loops = [l for l in rsx.find_loops(body) if l[0] == 'for' and l[2] >= pos]
        done = True
        for kind, kw, ob, cb in loops:
            inner = body[ob + 1:cb]
            m = re.match(r'(\s*)if\s+(.+?)\s*\{\s*continue\s*;\s*\}', inner, re.S)
            if m and '{' not in m.group(2):
                cond = m.group(2)
                rest = inner[m.end():]
                new_inner = '%sif !(%s) {%s}\n' % (m.group(1), cond, rest.rstrip() + '\n' + m.group(1).lstrip('\n'))
                body = body[:ob + 1] + new_inner + body[cb:]
                n += 1
                pos = ob + 1
                done = False
                break
        if done:
            break
    return sig, body, n


def r5_enumerate(sig, body):
    """R5: for (i, x) in V.iter().enumerate().rev() B  ->  index-based while loop, same visiting order.
           for (i, x) in V.iter().enumerate() B        ->  forward index-based while loop.
           for x in V.iter().rev() B                   ->  backward index-based while loop.
       The iterator protocol of slice::Iter/Enumerate/Rev is trusted to mean indexing."""
    n = 0
    while True:
        hit = None
        for kind, kw, ob, cb in rsx.find_loops(body):
            if kind != 'for':
                continue
            hdr = body[kw:ob]
            m = re.match(r'for\s+\(\s*(\w+)\s*,\s*(\w+)\s*\)\s+in\s+(.+?)\.iter\(\)\s*\.enumerate\(\)(\s*\.rev\(\))?\s*$', hdr, re.S)
            if m:
                hit = ('enum', m.group(1), m.group(2), ' '.join(m.group(3).split()), bool(m.group(4)), kw, ob, cb)
                break
            m = re.match(r'for\s+(\w+)\s+in\s+(.+?)\.iter\(\)\s*\.rev\(\)\s*$', hdr, re.S)
            if m:
                hit = ('rev', None, m.group(1), ' '.join(m.group(2).split()), True, kw, ob, cb)
                break
            m = re.match(r'for\s+(\w+)\s+in\s+\(\s*(.+?)\.\.(.+?)\)\s*\.rev\(\)\s*$', hdr, re.S)
            if m:
                hit = ('rangerev', m.group(1), ' '.join(m.group(2).split()), ' '.join(m.group(3).split()), True, kw, ob, cb)
                break
        if not hit:
            break
        mode, iv, xv, vec, rev, kw, ob, cb = hit
        k = '__k%d' % n
        inner = body[ob + 1:cb]
        if mode == 'rangerev':
            # for X in (A..B).rev() { BODY }  ->  let mut k = B; while k > A { k -= 1; let X = k; BODY }
            lo, hi = xv, vec
            newtxt = ('let mut {k}: usize = {hi}; while {k} > {lo} {{ {k} -= 1; let {x} = {k};{inner}}}'
                      .format(k=k, hi=hi, lo=lo, x=iv, inner=inner))
            body = body[:kw] + newtxt + body[cb + 1:]
            n += 1
            continue
        ibind = ('let %s = %s; ' % (iv, k)) if iv else ''
        if rev:
            new = ('let mut {k}: usize = {v}.len(); while {k} > 0 {{ {k} -= 1; {ib}let {x} = &{v}[{k}];{inner}}}'
                   .format(k=k, v=vec, ib=ibind, x=xv, inner=inner))
        else:
            # forward: increment at loop end would be skipped by `continue`; refuse if body contains one
            if re.search(r'\bcontinue\b', inner):
                break
            new = ('let mut {k}: usize = 0; while {k} < {v}.len() {{ {ib}let {x} = &{v}[{k}];{inner} {k} += 1; }}'
                   .format(k=k, v=vec, ib=ibind, x=xv, inner=inner))
        body = body[:kw] + new + body[cb + 1:]
        n += 1
    return sig, body, n


def r6_ne_bytes(sig, body):
    """R6: (E as u16).to_ne_bytes() / X.to_ne_bytes() -> u16_to_ne_bytes(..) stub related to u16_of by a round-trip axiom."""
    n = 0
    body, k = re.subn(r'\(([^()]+?) as u16\)\.to_ne_bytes\(\)', r'u16_to_ne_bytes(\1 as u16)', body)
    n += k
    body, k = re.subn(r'\b(\w+)\.to_ne_bytes\(\)', r'u16_to_ne_bytes(\1)', body)
    n += k
    return sig, body, n


def r9_borrow(sig, body):
    """R9: `.borrow()` / `.borrow_mut()` on stand-in RefCell -> plain access (dynamic borrow flags not modelled)."""
    body, n = re.subn(r'\.borrow(_mut)?\(\)', '', body)
    return sig, body, n


def r10_cfg(sig, body):
    """R10: cfg!(any(debug_assertions, feature = "…")) -> universally quantified bool parameter `cfg_checked`;
       `if cfg!(feature = "debug_trace_gc") { … }` blocks (tracing output only) are deleted."""
    n = 0
    while True:
        m = re.search(r'if\s+cfg!\(\s*feature\s*=\s*"debug_trace_gc"\s*\)\s*\{', body)
        if not m:
            break
        ob = m.end() - 1
        cb = _match_paren(body, ob, '{', '}')
        body = body[:m.start()] + body[cb + 1:]
        n += 1
    body, k = re.subn(r'cfg!\(\s*any\(\s*debug_assertions\s*,\s*feature\s*=\s*"[a-z_]+"\s*\)\s*\)', 'cfg_checked', body)
    if k:
        m = re.search(r'\(\s*&(mut\s+)?self\s*,?', sig)
        if m:
            sig = sig[:m.end()] + (' ' if sig[m.end() - 1] == ',' else ', ') + 'cfg_checked: bool, ' + sig[m.end():]
            sig = re.sub(r',\s*,', ',', sig)
            sig = re.sub(r',\s*\)', ')', sig)
        else:
            sig = re.sub(r'\(', '(cfg_checked: bool, ', sig, count=1)
            sig = re.sub(r',\s*\)', ')', sig)
    n += k
    return sig, body, n


def r11_common_prefix(sig, body):
    """R11: `common::NAME` -> `NAME` (constants are extracted into the unit by //@const)."""
    body, n = re.subn(r'\bcommon::', '', body)
    return sig, body, n


def r12_std_paths(sig, body):
    """R12: `mem::take`/`mem::size_of` paths -> unit-local stubs with the same name (std function trusted by contract)."""
    body, n = re.subn(r'\bmem::(take|size_of_val|size_of|replace)\b', r'mem_\1', body)
    return sig, body, n


def r13_format(sig, body):
    """R13: format!(…) -> verif_format()  (message text dropped; only used for diagnostics)"""
    n = 0
    while True:
        m = re.search(r'\bformat!\s*\(', body)
        if not m:
            break
        op = m.end() - 1
        cl = _match_paren(body, op)
        body = body[:m.start()] + 'verif_format()' + body[cl + 1:]
        n += 1
    return sig, body, n


def r14_intern(sig, body):
    """R14: X.vm.new_gc_obj_string(ARG) -> verif_intern(ARG)  (string interning is C11's contract; here only 'some string value')"""
    n = 0
    while True:
        m = re.search(r'\b\w+\.vm\.new_gc_obj_string\s*\(', body)
        if not m:
            break
        op = m.end() - 1
        cl = _match_paren(body, op)
        arg = body[op + 1:cl]
        body = body[:m.start()] + 'verif_intern(%s)' % arg + body[cl + 1:]
        n += 1
    return sig, body, n


def r15_ref_pattern(sig, body):
    """R15: `for &x in E { B }` -> `for __rN in E { let x = *__rN; B }` (Verus has no ref patterns; x is Copy)"""
    n = 0
    while True:
        hit = None
        for kind, kw, ob, cb in rsx.find_loops(body):
            if kind != 'for':
                continue
            m = re.match(r'for\s+&(\w+)\s+in\s+', body[kw:ob])
            if m:
                hit = (m, kw, ob)
                break
        if not hit:
            break
        m, kw, ob = hit
        r = '__r%d' % n
        hdr = body[kw:ob]
        new_hdr = 'for %s in ' % r + hdr[m.end():]
        body = body[:kw] + new_hdr + '{ let %s = *%s;' % (m.group(1), r) + body[ob + 1:]
        n += 1
    # `if let Some(&x) = E {`  ->  `if let Some(__rN) = E { let x = *__rN;`
    while True:
        m = re.search(r'if\s+let\s+Some\(\s*&(\w+)\s*\)\s*=\s*([^{]+)\{', body)
        if not m:
            break
        r = '__r%d' % n
        body = body[:m.start()] + 'if let Some(%s) = %s{ let %s = *%s;' % (r, m.group(2), m.group(1), r) + body[m.end():]
        n += 1
    return sig, body, n


def r8_str_slice(sig, body):
    """R8: `&E[a..b]` (on str) -> `str_slice(E, a, b)`; the stub's precondition a <= b <= len && boundaries IS the no-panic obligation"""
    n = 0
    while True:
        m = re.search(r'&([A-Za-z_][\w.()]*?)\[([^\[\]]+?)\.\.([^\[\]]+?)\]', body)
        if not m:
            break
        body = body[:m.start()] + 'str_slice(%s, %s, %s)' % (m.group(1), m.group(2).strip(), m.group(3).strip()) + body[m.end():]
        n += 1
    return sig, body, n


def r16_ok_or_else(sig, body):
    """R16: `.ok_or_else(|| E)` / `.ok_or_else(|| { E })` -> `.ok_or(E)` (E is a pure error constructor after R1; laziness is unobservable)"""
    n = 0
    while True:
        m = re.search(r'\.ok_or_else\s*\(', body)
        if not m:
            break
        op = m.end() - 1
        cl = _match_paren(body, op)
        inner = body[op + 1:cl].strip()
        mm = re.match(r'\|\|\s*(.*)$', inner, re.S)
        if not mm:
            break
        e = mm.group(1).strip()
        if e.startswith('{') and e.endswith('}'):
            e = e[1:-1].strip()
        body = body[:m.start()] + '.ok_or(%s)' % e + body[cl + 1:]
        n += 1
    return sig, body, n


def r17_inclusive_range(sig, body):
    """R17: `for x in A..=B` -> `for x in A..(B + 1)` (same iteration space; the `+ 1` becomes an overflow obligation)"""
    n = 0
    while True:
        hit = None
        for kind, kw, ob, cb in rsx.find_loops(body):
            if kind != 'for':
                continue
            hdr = body[kw:ob]
            m = re.match(r'(for\s+\w+\s+in\s+)(.+?)\.\.=(.+?)\s*$', hdr, re.S)
            if m:
                hit = (m, kw, ob)
                break
        if not hit:
            break
        m, kw, ob = hit
        body = body[:kw] + '%s%s..(%s + 1) ' % (m.group(1), m.group(2), m.group(3).strip()) + body[ob:]
        n += 1
    return sig, body, n


def r18_cmp_minmax(sig, body):
    """R18: `cmp::max(a, b)` / `cmp::min(a, b)` -> `verif_max(a, b)` / `verif_min(a, b)` (std by contract, on the unit's integer type)"""
    body, n = re.subn(r'\b(?:std::|core::)?cmp::(max|min)\s*\(', r'verif_\1(', body)
    return sig, body, n


def r31_loop_break_to_while(sig, body):
    """R31: `loop { if !C { break; } REST }` -> `while C { REST }` (the definition of `while`; applied to every extracted body)"""
    n = 0
    guard = 0
    while guard < 50:
        guard += 1
        hit = None
        for kind, kw, ob, cb in rsx.find_loops(body):
            if kind != 'loop':
                continue
            inner = body[ob + 1:cb]
            m = re.match(r'(\s*)if\s+!\s*(.+?)\s*\{\s*break\s*;\s*\}', inner, re.S)
            if not m or '{' in m.group(2):
                continue
            cond = m.group(2).strip()
            if cond.startswith('(') and _match_paren(cond, 0) == len(cond) - 1:
                cond = cond[1:-1].strip()
            elif not re.fullmatch(r'[\w.:]+(\(.*\))?', cond, re.S):
                # `!a && b` would negate only `a`: only a single call / path / parenthesised expression is safe
                continue
            hit = (kw, ob, cb, cond, inner[m.end():])
            break
        if not hit:
            break
        kw, ob, cb, cond, rest = hit
        body = body[:kw] + 'while %s {%s}' % (cond, rest) + body[cb + 1:]
        n += 1
    return sig, body, n


def r30_method_minmax(sig, body):
    """R30: `X.min(Y)` / `X.max(Y)` (integers) -> `verif_min(X, Y)` / `verif_max(X, Y)` (std Ord::min/max by contract)"""
    n = 0
    guard = 0
    while guard < 100:
        guard += 1
        mask = rsx.code_mask(body)
        hit = None
        for m in re.finditer(r'\.\s*(min|max)\s*\(', body):
            if not mask[m.start()]:
                continue
            ls, le = _operand_back(body, mask, m.start())
            if ls >= le:
                continue
            op = m.end() - 1
            cl = rsx.match_close(body, mask, op, '(', ')')
            hit = (ls, le, m.group(1), op, cl)
            break
        if not hit:
            break
        ls, le, which, op, cl = hit
        body = body[:ls] + 'verif_%s(%s, %s)' % (which, body[ls:le].strip(), body[op + 1:cl].strip()) + body[cl + 1:]
        n += 1
    return sig, body, n


def r19_closure_contract(sig, body):
    """R19: a one-parameter comparison closure `|v| EXPR` (addresses compared) -> `|v: usize| -> (r__: bool) ensures r__ == (EXPR) { EXPR }`
    (Verus knows nothing about an unannotated closure's result; the contract is the closure's own body, copied)"""
    n = 0
    pos = 0
    while True:
        mask = rsx.code_mask(body)
        m = None
        for mm in re.finditer(r'\|\s*(\w+)\s*\|(?!\|)', body[pos:]):
            st = pos + mm.start()
            if not mask[st]:
                continue
            k = st - 1
            while k >= 0 and body[k].isspace():
                k -= 1
            if k >= 0 and body[k] in '=(,':
                m = (st, pos + mm.end(), mm.group(1))
                break
        if not m:
            break
        st, en, var = m
        depth = 0
        k = en
        while k < len(body):
            if mask[k]:
                c = body[k]
                if c in '([{':
                    depth += 1
                elif c in ')]}':
                    if depth == 0:
                        break
                    depth -= 1
                elif c in ';,' and depth == 0:
                    break
            k += 1
        expr = body[en:k].strip()
        if expr.startswith('{') or not expr:
            pos = en
            continue
        new = '|%s: usize| -> (r__: bool) ensures r__ == (%s) { %s }' % (var, expr, expr)
        body = body[:st] + new + body[k:]
        pos = st + len(new)
        n += 1
    return sig, body, n


def r20_ptr_offset(sig, body):
    """R20: `unsafe { P.offset(E as isize) }` -> `ip_offset(P, E)`, `unsafe { P.offset(-(E as isize)) }` -> `ip_offset_back(P, E)` (code addresses are modelled by offsets; the unit's stubs are P + E / P - E and demand no overflow / underflow)"""
    n = 0
    pos = 0
    while True:
        m = re.search(r'unsafe\s*\{\s*([\w.]+)\.offset\s*\(', body[pos:])
        if not m:
            break
        op = pos + m.end() - 1
        cl = _match_paren(body, op)
        arg = body[op + 1:cl].strip()
        m2 = re.match(r'\s*\}', body[cl + 1:])
        fn_name = 'ip_offset'
        mneg = re.match(r'^-\s*\((.*)\)$', arg, re.S)
        if mneg and _match_paren(arg, arg.index('(')) == len(arg) - 1:
            # `p.offset(-(E as isize))`: backwards
            arg = mneg.group(1).strip()
            fn_name = 'ip_offset_back'
        ma = re.match(r'^(.*)\bas\s+isize$', arg, re.S)
        if not m2 or not ma:
            pos = pos + m.end()
            continue
        e = ma.group(1).strip()
        if e.startswith('(') and _match_paren(e, 0) == len(e) - 1:
            e = e[1:-1].strip()
        # the distance is widened like the original cast widens it (`E as isize`): whatever integer type E has, the stub
        # takes a usize, and an overflow INSIDE E (e.g. a sum of two u16 operands) stays an obligation of E's own type
        new = '%s(%s, (%s) as usize)' % (fn_name, m.group(1), e)
        body = body[:pos + m.start()] + new + body[cl + 1 + m2.end():]
        pos = pos + m.start() + len(new)
        n += 1
    return sig, body, n


def r21_opcode_cast(sig, body):
    """R21: `OpCode::X as u8` -> `opcode_u8(OpCode::X)` (the cast of the #[repr(u8)] enum, by contract `== opcode_byte(X)`)"""
    body, n = re.subn(r'\bOpCode::(\w+)\s+as\s+u8\b', r'opcode_u8(OpCode::\1)', body)
    # ... and `v as u8` where v is a parameter of type OpCode or a local initialised from OpCode variants
    names = set(re.findall(r'\b(\w+)\s*:\s*&?\s*OpCode\b', sig))
    for m in re.finditer(r'\blet\s+(?:mut\s+)?(\w+)\s*(?::\s*OpCode\s*)?=', body):
        k, depth = m.end(), 0
        while k < len(body):
            c = body[k]
            if c in '([{':
                depth += 1
            elif c in ')]}':
                depth -= 1
                if depth < 0:
                    break
            elif c == ';' and depth == 0:
                break
            k += 1
        init = body[m.end():k]
        if 'OpCode::' in init and ' as ' not in init:
            names.add(m.group(1))
    for v in sorted(names):
        body, k = re.subn(r'\b%s\s+as\s+u8\b' % re.escape(v), 'opcode_u8(%s)' % v, body)
        n += k
    return sig, body, n


def r26_precedence_cast(sig, body):
    """R26: `Precedence::X as usize` -> `prec_usize(Precedence::X)` (the cast of the fieldless enum, by contract
    `== prec_index(X)`, the discriminant function generated from the declaration order)"""
    body, n = re.subn(r'\bPrecedence::(\w+)\s+as\s+usize\b', r'prec_usize(Precedence::\1)', body)
    return sig, body, n


def r22_write_macro(sig, body):
    """R22: `write!(BUF, "fmt", args…)` with its trailing `.unwrap()` / `.expect("…")` -> `verif_write(&mut BUF)`
    (text formatting into a String buffer is outside Verus; the arguments are dropped, the buffer is havocked)"""
    n = 0
    pos = 0
    while True:
        m = re.search(r'\bwrite!\s*\(', body[pos:])
        if not m:
            break
        op = pos + m.end() - 1
        cl = _match_paren(body, op)
        args = _split_top(body[op + 1:cl])
        buf = args[0].strip()
        end = cl + 1
        m2 = re.match(r'\s*\.\s*(unwrap\s*\(\s*\)|expect\s*\()', body[end:])
        if m2:
            if m2.group(1).startswith('expect'):
                ep = end + m2.end() - 1
                end = _match_paren(body, ep) + 1
            else:
                end = end + m2.end()
        new = 'verif_write(&mut %s)' % buf
        body = body[:pos + m.start()] + new + body[end:]
        pos = pos + m.start() + len(new)
        n += 1
    return sig, body, n


def r23_debug_assert(sig, body):
    """R23: `debug_assert!(E)` -> `debug_assert_checked(E)` (stub with `requires E`: in the checked build configuration a
    false E is a panic, so E becomes an obligation of every caller; the optimised build does not evaluate it)"""
    body, n = re.subn(r'\bdebug_assert!\s*\(', 'debug_assert_checked(', body)
    return sig, body, n


def r24_entry_or_insert(sig, body):
    """R24: `M.entry(K).or_insert(V)` -> `M.entry_or_insert(K, V)` (std HashMap entry API by contract: inserts only when the key is absent)"""
    n = 0
    while True:
        m = re.search(r'\.entry\s*\(', body)
        if not m:
            break
        op = m.end() - 1
        cl = _match_paren(body, op)
        m2 = re.match(r'\s*\.\s*or_insert\s*\(', body[cl + 1:])
        if not m2:
            break
        op2 = cl + 1 + m2.end() - 1
        cl2 = _match_paren(body, op2)
        body = body[:m.start()] + '.entry_or_insert(%s, %s)' % (body[op + 1:cl].strip(), body[op2 + 1:cl2].strip()) + body[cl2 + 1:]
        n += 1
    return sig, body, n


def r25_stack_index(sig, body):
    """R25: `self.active_fiber().stack[E]` -> `self.stack_at(E)` (reading slot E of the active fiber's value stack, by contract)"""
    n = 0
    while True:
        m = re.search(r'self\s*\.\s*active_fiber\(\)\s*\.\s*stack\s*\[', body)
        if not m:
            break
        op = m.end() - 1
        cl = _match_paren(body, op, '[', ']')
        body = body[:m.start()] + 'self.stack_at(%s)' % body[op + 1:cl].strip() + body[cl + 1:]
        n += 1
    return sig, body, n


def r32_stack_assign(sig, body):
    """R32: `self.active_fiber_mut().stack[E] = V;` -> `{ let verif_v = V; self.stack_set(E, verif_v); }` (writing slot E of the active fiber's value stack, by contract; Rust evaluates the assigned value before the place)"""
    n = 0
    while True:
        m = re.search(r'self\s*\.\s*active_fiber_mut\(\)\s*\.\s*stack\s*\[', body)
        if not m:
            break
        op = m.end() - 1
        cl = _match_paren(body, op, '[', ']')
        m2 = re.match(r'\s*=(?!=)', body[cl + 1:])
        if not m2:
            break
        vs = cl + 1 + m2.end()
        semi = _stmt_end(body, vs)
        if semi < 0:
            break
        body = body[:m.start()] + '{ let verif_v = %s; self.stack_set(%s, verif_v); }' % (body[vs:semi].strip(), body[op + 1:cl].strip()) + body[semi + 1:]
        n += 1
    return sig, body, n


def r33_code_deref(sig, body):
    """R33: `*self.ip` / `*self.ip.offset(E)` -> `self.code_at(self.ip)` / `self.code_at(self.ip.offset(E))` (reading the code byte at an address, by contract: outside the code is the obligation)"""
    n = 0
    pos = 0
    while True:
        m = re.compile(r'\*\s*self\s*\.\s*ip\b').search(body, pos)
        if not m:
            break
        end = m.end()
        m2 = re.match(r'\s*\.\s*offset\s*\(', body[end:])
        if m2:
            op = end + m2.end() - 1
            end = _match_paren(body, op) + 1
        inner = body[m.start() + 1:end].strip()
        rep = 'self.code_at(%s)' % inner
        body = body[:m.start()] + rep + body[end:]
        pos = m.start() + len(rep)
        n += 1
    return sig, body, n


def r34_unwrap_or_else(sig, body):
    """R34: `X.unwrap_or_else(|| E)` (X an identifier) -> `(match X { Some(verif_some) => verif_some, None => E })` (std's definition of Option::unwrap_or_else: E is evaluated only for None)"""
    n = 0
    while True:
        m = re.search(r'\b(\w+)\s*\.\s*unwrap_or_else\s*\(\s*\|\s*\|', body)
        if not m:
            break
        op = body.index('(', m.start(1) + len(m.group(1)))
        cl = _match_paren(body, op)
        expr = body[m.end():cl].strip()
        body = body[:m.start()] + '(match %s { Some(verif_some) => verif_some, None => %s })' % (m.group(1), expr) + body[cl + 1:]
        n += 1
    return sig, body, n


def r35_write_line(sig, body):
    """R35: a `write!(BUF, "fmt", …, X.line, …)[.unwrap()]` whose arguments include a `.line` field -> `verif_write_line(&mut BUF, X.line)` (the formatted text is dropped, the LINE NUMBER the message names is kept; apply before R22)"""
    n = 0
    pos = 0
    while True:
        m = re.search(r'\bwrite!\s*\(', body[pos:])
        if not m:
            break
        op = pos + m.end() - 1
        cl = _match_paren(body, op)
        args = [a.strip() for a in _split_top(body[op + 1:cl])]
        linearg = [a for a in args[2:] if re.search(r'\.\s*line$', a)]
        if not linearg:
            pos = cl + 1
            continue
        end = cl + 1
        m2 = re.match(r'\s*\.\s*(unwrap\s*\(\s*\)|expect\s*\()', body[end:])
        if m2:
            if m2.group(1).startswith('expect'):
                ep = end + m2.end() - 1
                end = _match_paren(body, ep) + 1
            else:
                end = end + m2.end()
        new = 'verif_write_line(&mut %s, %s)' % (args[0], linearg[0])
        body = body[:pos + m.start()] + new + body[end:]
        pos = pos + m.start() + len(new)
        n += 1
    return sig, body, n


def _stmt_end(body, start):
    """position of the `;` that ends the statement starting at `start` (depth 0 w.r.t. brackets), or -1"""
    mask = rsx.code_mask(body)
    depth = 0
    for i in range(start, len(body)):
        if not mask[i]:
            continue
        c = body[i]
        if c in '([{':
            depth += 1
        elif c in ')]}':
            depth -= 1
            if depth < 0:
                return -1
        elif c == ';' and depth == 0:
            return i
    return -1


# ----------------------------------------------------------------------------------------------------------------------
# &str handling for the scanner (unit `scan`): Verus has no `match` on string literals and no `==` on str.

def _str_lits(body):
    """[(start, end)] of the plain string literals "..." in code (not b"..."), using the comment/string mask"""
    mask = rsx.code_mask(body)
    out = []
    i = 0
    n = len(body)
    while i < n:
        if body[i] == '"' and not mask[i] and (i == 0 or mask[i - 1] or body[i - 1] != '\\'):
            # start of a literal region (mask 0 run beginning with a quote)
            if i > 0 and not mask[i - 1]:
                i += 1
                continue
            j = i + 1
            while j < n and not mask[j]:
                j += 1
            # region [i, j) is the literal including both quotes
            if i > 0 and body[i - 1] == 'b' and (i < 2 or not (body[i - 2].isalnum() or body[i - 2] == '_')):
                i = j
                continue
            out.append((i, j))
            i = j
        else:
            i += 1
    return out


def _unescape_rust(lit):
    """bytes of the Rust string literal `lit` (including its quotes)"""
    t = lit[1:-1]
    out = bytearray()
    i = 0
    simple = {'n': 10, 'r': 13, 't': 9, '\\': 92, '0': 0, '"': 34, "'": 39}
    while i < len(t):
        c = t[i]
        if c != '\\':
            out += c.encode('utf-8')
            i += 1
            continue
        e = t[i + 1]
        if e in simple:
            out.append(simple[e])
            i += 2
        elif e == 'x':
            out.append(int(t[i + 2:i + 4], 16))
            i += 4
        elif e == 'u':
            k = t.index('}', i)
            out += chr(int(t[i + 3:k].replace('_', ''), 16)).encode('utf-8')
            i = k + 1
        elif e == '\n':
            i += 2
            while i < len(t) and t[i] in ' \t\r\n':
                i += 1
        else:
            raise rsx.ExtractError("string literal with an escape the rewriter does not know: %s" % lit)
    return bytes(out)


def _split_arms(body, mask, ob, cb):
    """arms of the match block body[ob..cb] ('{' at ob, '}' at cb): [(arm_start, arm_end, pattern, expr)]"""
    arms = []
    a = ob + 1
    while a < cb:
        while a < cb and body[a].isspace():
            a += 1
        if a >= cb:
            break
        j = a
        depth = 0
        while j < cb:
            if mask[j]:
                if body[j] in '([{':
                    depth += 1
                elif body[j] in ')]}':
                    depth -= 1
                elif depth == 0 and body.startswith('=>', j):
                    break
            j += 1
        if j >= cb:
            break
        e = j + 2
        while e < cb and body[e].isspace():
            e += 1
        xs = e
        if e < cb and body[e] == '{':
            ce = rsx.match_close(body, mask, e, '{', '}')
            xe = ce + 1
            e = xe
            t = e
            while t < cb and body[t].isspace():
                t += 1
            if t < cb and body[t] == ',':
                e = t + 1
        else:
            depth = 0
            while e < cb:
                if mask[e]:
                    if body[e] in '([{':
                        depth += 1
                    elif body[e] in ')]}':
                        depth -= 1
                    elif body[e] == ',' and depth == 0:
                        break
                e += 1
            xe = e
            if e < cb and body[e] == ',':
                e += 1
        arms.append((a, e, body[a:j].strip(), body[xs:xe].strip()))
        a = e
    return arms


def r27_match_on_str(sig, body):
    """R27: `match S { "a" => A, "b" => B, x => C }` (every pattern a string literal, `_` or a plain binding) ->
    `{ let verif_m = S; if str_eq(&verif_m, "a") { A } else if str_eq(&verif_m, "b") { B } else { let x = verif_m; C } }`
    (Rust's match on string literals IS byte-wise comparison in arm order)"""
    n = 0
    guard = 0
    while guard < 200:
        guard += 1
        mask = rsx.code_mask(body)
        hit = None
        for m in reversed(list(re.finditer(r'\bmatch\b', body))):
            if not mask[m.start()]:
                continue
            k = m.end()
            depth = 0
            while k < len(body):
                if mask[k]:
                    if body[k] in '([':
                        depth += 1
                    elif body[k] in ')]':
                        depth -= 1
                    elif body[k] == '{' and depth == 0:
                        break
                k += 1
            if k >= len(body):
                continue
            cb = rsx.match_close(body, mask, k, '{', '}')
            arms = _split_arms(body, mask, k, cb)
            if not arms:
                continue
            pats = [a[2] for a in arms]
            if not any(p.startswith('"') for p in pats):
                continue
            if not all(p.startswith('"') or re.fullmatch(r'[A-Za-z_]\w*', p) for p in pats):
                continue
            hit = (m.start(), m.end(), k, cb, arms)
            break
        if not hit:
            break
        ms, me, k, cb, arms = hit
        scrut = body[me:k].strip()
        parts = []
        els = None
        for (_a, _e, pat, ex) in arms:
            blk = ex if ex.startswith('{') else '{ %s }' % ex
            if pat.startswith('"'):
                parts.append('if str_eq(&verif_m, %s) %s' % (pat, blk))
            elif pat == '_':
                els = blk
                break
            else:
                els = '{ let %s = verif_m; %s }' % (pat, ex)
                break
        txt = '{ let verif_m = %s; %s%s }' % (scrut, ' else '.join(parts), (' else ' + els) if els else '')
        body = body[:ms] + txt + body[cb + 1:]
        n += 1
    return sig, body, n


def _operand_back(body, mask, pos):
    """start of the postfix expression that ends right before pos (exclusive), skipping spaces"""
    i = pos - 1
    while i >= 0 and body[i].isspace():
        i -= 1
    end = i + 1
    while i >= 0:
        c = body[i]
        if c in ')]' and mask[i]:
            # find matching open
            depth = 0
            while i >= 0:
                if mask[i]:
                    if body[i] in ')]':
                        depth += 1
                    elif body[i] in '([':
                        depth -= 1
                        if depth == 0:
                            break
                i -= 1
            i -= 1
            continue
        if c.isalnum() or c == '_':
            while i >= 0 and (body[i].isalnum() or body[i] == '_'):
                i -= 1
            if i >= 0 and body[i] == '.':
                i -= 1
                continue
            break
        if c == '"' and not mask[i]:
            i -= 1
            while i >= 0 and not mask[i]:
                i -= 1
            break
        break
    start = i + 1
    while start > 0 and body[start - 1] in '&*':
        start -= 1
    return start, end


def _operand_fwd(body, mask, pos):
    i = pos
    n = len(body)
    while i < n and body[i].isspace():
        i += 1
    start = i
    if i < n and body[i] == '"' and not mask[i]:
        i += 1
        while i < n and not mask[i]:
            i += 1
        return start, i
    while i < n and body[i] in '&*':
        i += 1
    while i < n:
        if body[i].isalnum() or body[i] == '_':
            while i < n and (body[i].isalnum() or body[i] == '_'):
                i += 1
            if i < n and body[i] in '([' and mask[i]:
                i = rsx.match_close(body, mask, i, body[i], ')' if body[i] == '(' else ']') + 1
            if i < n and body[i] == '.' and i + 1 < n and body[i + 1] != '.':
                i += 1
                continue
            break
        break
    return start, i


def r29_str_compare(sig, body):
    """R29: `L == R` / `L != R` where one side is a string literal or L is a `str_slice(..)` -> `str_eq(&L, R)` / `!str_eq(&L, R)`
    (std's `==` on str is byte-wise comparison)"""
    n = 0
    guard = 0
    while guard < 500:
        guard += 1
        mask = rsx.code_mask(body)
        hit = None
        for m in re.finditer(r'(==|!=)', body):
            if not mask[m.start()]:
                continue
            if m.start() > 0 and body[m.start() - 1] in '<>=!':
                continue
            if m.end() < len(body) and body[m.end()] == '=':
                continue
            ls, le = _operand_back(body, mask, m.start())
            rs, re_ = _operand_fwd(body, mask, m.end())
            L = body[ls:le].strip()
            R = body[rs:re_].strip()
            if not L or not R:
                continue
            if R.startswith('"') or L.startswith('"') or L.lstrip('&').startswith('str_slice('):
                hit = (ls, re_, L, R, m.group(1))
                break
        if not hit:
            break
        ls, re_, L, R, op = hit
        if L.startswith('"'):
            L, R = R, L
        L = L.lstrip('&')
        body = body[:ls] + ('!' if op == '!=' else '') + 'str_eq(&%s, %s)' % (L, R) + body[re_:]
        n += 1
    return sig, body, n


def r28_str_literals(sig, body):
    """R28: a string literal "…" -> `verif_lit("…", [b0, b1, …])`, the byte array being the literal's UTF-8 bytes computed by
    the rewriter (Rust's escape rules); the stub returns a value whose spec bytes are exactly that array"""
    n = 0
    lits = _str_lits(body)
    for (a, b) in reversed(lits):
        lit = body[a:b]
        # not inside an existing verif_lit( … ) and not a macro format string we do not touch
        if body[:a].rstrip().endswith('verif_lit('):
            continue
        bs = _unescape_rust(lit)
        arr = '[' + ', '.join('0x%02xu8' % x for x in bs) + ']'
        body = body[:a] + 'verif_lit(%s, %s)' % (lit, arr) + body[b:]
        n += 1
    return sig, body, n


RULES = {
    'R1': r1_error_macro,
    'R3': r3_continue_guard,
    'R5': r5_enumerate,
    'R6': r6_ne_bytes,
    'R8': r8_str_slice,
    'R9': r9_borrow,
    'R10': r10_cfg,
    'R11': r11_common_prefix,
    'R12': r12_std_paths,
    'R13': r13_format,
    'R15': r15_ref_pattern,
    'R16': r16_ok_or_else,
    'R17': r17_inclusive_range,
    'R18': r18_cmp_minmax,
    'R14': r14_intern,
    'R19': r19_closure_contract,
    'R20': r20_ptr_offset,
    'R21': r21_opcode_cast,
    'R22': r22_write_macro,
    'R23': r23_debug_assert,
    'R24': r24_entry_or_insert,
    'R25': r25_stack_index,
    'R26': r26_precedence_cast,
    'R27': r27_match_on_str,
    'R28': r28_str_literals,
    'R29': r29_str_compare,
    'R30': r30_method_minmax,
    'R31': r31_loop_break_to_while,
    'R32': r32_stack_assign,
    'R33': r33_code_deref,
    'R34': r34_unwrap_or_else,
    'R35': r35_write_line,
}

DESCRIPTIONS = {k: (v.__doc__ or '').strip() for k, v in RULES.items()}


def apply(rule, sig, body):
    if rule not in RULES:
        raise rsx.ExtractError("unknown rewrite rule %s" % rule)
    return RULES[rule](sig, body)
