#!/bin/bash
# usage: run_harmless.sh <patch> ; prints per-property exit codes (1 = false alarm, 2 = undecided)
# VERIF_ROOT (default: the directory above this script) and REPO_SRC (default /repo) let a snapshot run use its own copies.
HERE=$(cd "$(dirname "$0")/.." && pwd)
VR=${VERIF_ROOT:-$HERE}; SRC=${REPO_SRC:-/repo}
P=$1; name=$(basename $(dirname $P))_$(basename $P .diff)
R=/var/tmp/harmless/$name; rm -rf $R; mkdir -p $R; rsync -a --exclude target --exclude .git $SRC/ $R/
( cd $R && patch -p1 -s < $P ) || { echo "$name PATCH-FAILED"; rm -rf $R; exit 0; }
out=""
for p in C01 C02 C03 C04 C05 C06 C07 C08 C09 C10 C11 C12 C13 C14 C15 C16 C17 C18 C19; do
  VERIF_REPO=$R python3 $VR/bin/check $p --no-kani --no-evidence > $R.$p.log 2>&1; rc=$?
  [ $rc -ne 0 ] && out="$out $p=$rc"
done
echo "$name:${out:- all-0}"
rm -rf $R; rm -rf $VR/work/*-$(python3 -c "import hashlib,sys;print(hashlib.sha1(sys.argv[1].encode()).hexdigest()[:8])" $R)
