#!/usr/bin/env python3
"""Maintainer tool for seeded changes (not part of any check).

  seedtool.py archive <worktree> <name> <property>     copy <worktree>/SEED into /verif/seeded/<name>/
  seedtool.py verify  <worktree> <name>                confirm: tests unchanged with the patch, demo fails with / passes without
  seedtool.py run     <name> [<property> ...]          apply the patch to /repo, run the checks, undo it; record what they say
"""
import json
import os
import re
import shutil
import subprocess
import sys
import time

ROOT = os.path.dirname(os.path.dirname(os.path.abspath(__file__)))
SEEDED = os.path.join(ROOT, 'seeded')


def sh(cmd, cwd=None, timeout=3600):
    p = subprocess.run(cmd, shell=True, cwd=cwd, stdout=subprocess.PIPE, stderr=subprocess.STDOUT, text=True, timeout=timeout)
    return p.returncode, p.stdout


def load_meta(name):
    p = os.path.join(SEEDED, name, 'meta.json')
    return json.load(open(p)) if os.path.exists(p) else {}


def save_meta(name, m):
    json.dump(m, open(os.path.join(SEEDED, name, 'meta.json'), 'w'), indent=1)


def archive(wt, name, prop):
    d = os.path.join(SEEDED, name)
    os.makedirs(d, exist_ok=True)
    for f in os.listdir(os.path.join(wt, 'SEED')):
        if f.endswith('.log'):
            continue
        sp = os.path.join(wt, 'SEED', f)
        if os.path.isdir(sp):
            shutil.copytree(sp, os.path.join(d, f), dirs_exist_ok=True)
        else:
            shutil.copy(sp, os.path.join(d, f))
    m = load_meta(name)
    m.update({'name': name, 'property': prop, 'origin': 'sub-agent given only the property text and a scratch worktree',
              'base_commit': sh('git rev-parse HEAD', cwd=wt)[1].strip()})
    files = re.findall(r'^\+\+\+ b/(\S+)', open(os.path.join(d, 'patch.diff')).read(), re.M)
    m['files_changed'] = files
    save_meta(name, m)
    print('archived', name, files)


def test_summary(wt):
    rc, out = sh('cargo test --workspace --no-fail-fast --offline 2>&1', cwd=wt)
    passed = sum(int(x) for x in re.findall(r'test result: \w+\. (\d+) passed', out))
    failed = re.findall(r'^test (\S+) \.\.\. FAILED', out, re.M)
    return passed, sorted(set(failed))


def verify(wt, name):
    d = os.path.join(SEEDED, name)
    m = load_meta(name)
    # state: patch applied in worktree?
    rc, out = sh('git apply --check -R %s' % os.path.join(d, 'patch.diff'), cwd=wt)
    if rc != 0:
        rc2, out2 = sh('git apply %s' % os.path.join(d, 'patch.diff'), cwd=wt)
        if rc2 != 0:
            print('cannot apply patch', out2)
            return 1
    passed, failed = test_summary(wt)
    m['tests_with_patch'] = {'passed': passed, 'failed': failed}
    demo = 'demo.sh' if os.path.exists(os.path.join(wt, 'SEED', 'demo.sh')) else None
    res = {}
    if demo:
        rc_with, out_with = sh('bash SEED/demo.sh', cwd=wt, timeout=1800)
        sh('git apply -R %s' % os.path.join(d, 'patch.diff'), cwd=wt)
        rc_without, out_without = sh('bash SEED/demo.sh', cwd=wt, timeout=1800)
        sh('git apply %s' % os.path.join(d, 'patch.diff'), cwd=wt)
        res = {'with_patch_exit': rc_with, 'without_patch_exit': rc_without,
               'with_patch_tail': out_with[-600:], 'without_patch_tail': out_without[-300:]}
    m['demo'] = res
    m['confirmed'] = bool(passed == 546 and failed == ['number_long_decimal'] and res and res['with_patch_exit'] != 0 and res['without_patch_exit'] == 0)
    m['verified_at'] = time.strftime('%Y-%m-%d %H:%M')
    m['ran'] = ['cargo test --workspace --no-fail-fast --offline (in the scratch worktree, patch applied)', 'bash SEED/demo.sh with and without the patch']
    save_meta(name, m)
    print(name, 'tests', passed, failed, 'demo with/without', res.get('with_patch_exit'), res.get('without_patch_exit'), 'CONFIRMED' if m['confirmed'] else 'NOT CONFIRMED')
    return 0


def run(name, props, inplace=False):
    """inplace: apply to /repo itself (git apply … git checkout -- .), as the brief describes. Default: a scratch copy of
    /repo under /var/tmp (VERIF_REPO), which gives the same verdicts without disturbing anything else that reads /repo."""
    d = os.path.join(SEEDED, name)
    m = load_meta(name)
    props = props or [m['property']]
    if inplace:
        repo = '/repo'
        rc, out = sh('git -C /repo status --porcelain')
        if out.strip():
            print('/repo is not clean:', out)
            return 1
        rc, out = sh('git -C /repo apply %s' % os.path.join(d, 'patch.diff'))
    else:
        repo = '/var/tmp/seedrun/%s' % name
        shutil.rmtree(repo, ignore_errors=True)
        os.makedirs(repo)
        sh('rsync -a --exclude target --exclude .git /repo/ %s/' % repo)
        rc, out = sh('patch -p1 -s < %s' % os.path.join(d, 'patch.diff'), cwd=repo)
    if rc != 0:
        print('patch does not apply', out)
        return 1
    results = m.get('checks', {})
    try:
        for p in props:
            t0 = time.time()
            rc, out = sh('VERIF_REPO=%s python3 bin/check %s --tier quick --no-evidence' % (repo, p), cwd=ROOT, timeout=7200)
            lines = [l for l in out.split('\n') if re.match(r'(VIOLATION|UNDECIDED|KNOWN-FINDING|INFO|C\d\d tier)', l)]
            results[p] = {'exit': rc, 'lines': [l[:400] for l in lines][:12], 'wall_s': round(time.time() - t0),
                          'repo_head': sh('git -C /repo rev-parse --short HEAD')[1].strip()}
            print(name, p, 'exit', rc)
            for l in lines[:8]:
                print('   ', l[:300])
    finally:
        if inplace:
            sh('git -C /repo checkout -- .')
        else:
            shutil.rmtree(repo, ignore_errors=True)
    m['checks'] = results
    m['detected_by'] = [p for p, r in results.items() if r['exit'] == 1]
    save_meta(name, m)
    return 0


if __name__ == '__main__':
    cmd = sys.argv[1]
    if cmd == 'archive':
        archive(sys.argv[2], sys.argv[3], sys.argv[4])
    elif cmd == 'verify':
        sys.exit(verify(sys.argv[2], sys.argv[3]))
    elif cmd == 'run':
        args = [a for a in sys.argv[3:] if a != '--inplace']
        sys.exit(run(sys.argv[2], args, inplace='--inplace' in sys.argv))
