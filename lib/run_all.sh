#!/bin/bash
# maintainer helper: run every check of one tier and print the summary lines
HERE=$(cd "$(dirname "$0")/.." && pwd)
tier=${1:-quick}
for p in C01 C02 C03 C04 C05 C06 C07 C08 C09 C10 C11 C12 C13 C14 C15 C16 C17 C18 C19; do
  python3 $HERE/bin/check $p --tier $tier --no-evidence 2>&1 | grep -E "^(VIOLATION|UNDECIDED|KNOWN|C[0-9][0-9] tier)" | cut -c1-300
done
