#!/usr/bin/env python3
"""Run Kani harness units against a scratch copy of the real crate (rebuilt from /repo on every run).

Harness unit = contracts/kani/<unit>.rs, a module body whose header comments say where it is attached:

    //@attach yarel/src/utils.rs [vis=pub(crate)]
    //@harness name=hash_number_coherent props=C12 obligation=hash/number_coherent kind=complete
    //@harness name=stack_contract props=C02,C10 obligation=… kind=bounded bound="Stack<u32,4>, unwind 6" configs=on,off

The file is copied next to the module it is attached to and declared there as
`#[cfg(kani)] mod verif_kani_<unit>;` — cfg(kani) is set only by the Kani compiler, so nothing of it
exists in a normal build. A FAILED harness is re-run with --concrete-playback=print, the generated
unit test is compiled against the real crate and executed natively (cargo kani playback); a refutation
is reported only if the native run fails as well.
"""
import fcntl
import os
import re
import shutil
import subprocess
import time
import hashlib
import sys
sys.path.insert(0, os.path.dirname(os.path.abspath(__file__)))

HERE = os.path.dirname(os.path.abspath(__file__))
ROOT = os.path.dirname(HERE)
REPO = os.environ.get('VERIF_REPO', '/repo')
CACHE = os.path.join(ROOT, '.cache', 'kani-target')
SCRATCH_BASE = os.environ.get('VERIF_SCRATCH', '/var/tmp/yarel-verif')

CONFIGS = {
    # name -> (RUSTFLAGS, description)
    'on': ('', 'debug assertions on (checked configuration: cfg!(debug_assertions) is true)'),
    'off': ('-C debug-assertions=off', 'debug assertions off (optimised configuration: cfg!(debug_assertions) is false, no safe_* feature)'),
}


def parse_unit(unit):
    p = os.path.join(ROOT, 'contracts', 'kani', unit + '.rs')
    txt = open(p).read()
    attach = None
    vis = ''
    inside = None
    harnesses = []
    for l in txt.split('\n'):
        s = l.strip()
        if s.startswith('//@attach '):
            kv = dict(re.findall(r'(\w+)=(\S+)', s))
            attach = s.split()[1]
            vis = kv.get('vis', '')
            inside = kv.get('inside')
        elif s.startswith('//@harness '):
            kv = {}
            for m in re.finditer(r'(\w+)=("([^"]*)"|\S+)', s[11:]):
                kv[m.group(1)] = m.group(3) if m.group(3) is not None else m.group(2)
            kv['props'] = kv.get('props', '').split(',')
            kv['configs'] = kv.get('configs', 'on').split(',')
            kv['unit'] = unit
            harnesses.append(kv)
    if not attach:
        raise RuntimeError('kani unit %s has no //@attach line' % unit)
    return {'unit': unit, 'path': p, 'attach': attach, 'vis': vis, 'inside': inside, 'harnesses': harnesses, 'text': txt}


def _sh(cmd, cwd, env, timeout):
    import signal
    t0 = time.time()
    p = subprocess.Popen(cmd, cwd=cwd, env=env, stdout=subprocess.PIPE, stderr=subprocess.STDOUT, text=True,
                         start_new_session=True)
    try:
        out, _ = p.communicate(timeout=timeout)
        return p.returncode, out, time.time() - t0
    except subprocess.TimeoutExpired:
        # kill the whole process group so that no solver is left behind
        try:
            os.killpg(p.pid, signal.SIGKILL)
        except Exception:
            pass
        out, _ = p.communicate()
        return -9, (out or '') + '\nTIMEOUT after %ds' % timeout, time.time() - t0


def parse_kani_output(out):
    """-> {harness_full_name: {'status': 'SUCCESSFUL'|'FAILED'|None, 'block': text}}"""
    res = {}
    cur = {}    # thread -> name
    blocks = {}
    thread = '0'
    for line in out.split('\n'):
        m = re.match(r'(?:Thread (\d+): )?Checking harness (\S+?)\.\.\.', line)
        if m:
            thread = m.group(1) or '0'
            cur[thread] = m.group(2)
            blocks.setdefault(m.group(2), [])
            continue
        m = re.match(r'Thread (\d+):\s*$', line)
        if m:
            thread = m.group(1)
            continue
        if thread in cur:
            blocks[cur[thread]].append(line)
    for name, ls in blocks.items():
        b = '\n'.join(ls)
        st = None
        m = re.search(r'VERIFICATION:- (SUCCESSFUL|FAILED)', b)
        if m:
            st = m.group(1)
        res[name] = {'status': st, 'block': b}
    return res


def setup_scratch(tag):
    os.makedirs(SCRATCH_BASE, exist_ok=True)
    ws = os.path.join(SCRATCH_BASE, tag, 'ws')
    shutil.rmtree(os.path.join(SCRATCH_BASE, tag), ignore_errors=True)
    os.makedirs(ws)
    subprocess.run(['rsync', '-a', '--exclude', 'target', '--exclude', '.git', REPO + '/', ws + '/'], check=True)
    return ws


def attach_units(ws, units):
    for u in units:
        modname = 'verif_kani_' + re.sub(r'\W', '_', u['unit'])
        target = os.path.join(ws, u['attach'])
        if not os.path.exists(target):
            raise RuntimeError('anchor lost: %s does not exist' % u['attach'])
        dst = os.path.join(os.path.dirname(target), modname + '.rs')
        shutil.copy(u['path'], dst)
        decl = '\n#[cfg(kani)]\n#[path = "%s"]\n%s mod %s;\n' % (dst, u['vis'], modname)
        if u.get('inside'):
            # declare the harness module inside an inline module (to see its private items)
            import rsx
            src = rsx.Source(target)
            it = src.find(u['inside'], kind='mod')
            txt = src.text[:it.body_close] + decl + src.text[it.body_close:]
            open(target, 'w').write(txt)
        else:
            with open(target, 'a') as f:
                f.write(decl)
        u['modname'] = modname
        u['dst'] = dst


def kani_env(cfgname):
    env = dict(os.environ)
    env['CARGO_NET_OFFLINE'] = 'true'
    flags = CONFIGS[cfgname][0]
    if flags:
        env['RUSTFLAGS'] = flags
    else:
        env.pop('RUSTFLAGS', None)
    return env


def run_units(unit_names, prop, tier, outdir, only_harness=None):
    t0 = time.time()
    result = {'harnesses': [], 'functions': [], 'assumptions': [], 'cmds': [], 'hard': None, 'wall_s': 0.0}
    units = [parse_unit(u) for u in unit_names]
    sel = []
    for u in units:
        for h in u['harnesses']:
            if prop in h['props'] and (only_harness is None or (h["name"] == only_harness or (only_harness.endswith("*") and h["name"].startswith(only_harness[:-1])))):
                if h.get('tier') == 'thorough' and tier != 'thorough':
                    continue
                sel.append(h)
    if not sel:
        return result
    os.makedirs(CACHE, exist_ok=True)
    lock = open(os.path.join(CACHE, '.lock'), 'w')
    fcntl.flock(lock, fcntl.LOCK_EX)   # one Kani build at a time over the shared dependency cache
    tag = '%s-%d' % (prop, os.getpid())
    try:
        try:
            ws = setup_scratch(tag)
            attach_units(ws, units)
        except Exception as e:
            result['hard'] = 'scratch/attach: %s' % e
            return result
        for u in units:
            result['assumptions'] += ['kani unit %s: %s' % (u['unit'], l.strip()[3:].strip()) for l in u['text'].split('\n')
                                      if l.strip().startswith('//@assume')]
            for l in u['text'].split('\n'):
                if 'kani::stub(' in l or 'kani::assume(' in l:
                    result['assumptions'].append('kani unit %s: %s' % (u['unit'], ' '.join(l.split())[:160]))
        configs = sorted(set(c for h in sel for c in h['configs']))
        for cfgname in configs:
            hs = [h for h in sel if cfgname in h['configs']]
            env = kani_env(cfgname)
            tdir = os.path.join(CACHE, cfgname)
            base = ['cargo', 'kani', '-p', 'yarel', '--target-dir', tdir, '-Z', 'stubbing', '-Z', 'function-contracts',
                    '--output-format=terse']
            cmd = base + ['-j', str(min(12, max(1, len(hs))))]
            for h in hs:
                cmd += ['--harness', h['name'], '--exact'] if False else ['--harness', h['name']]
            timeout = 900 if tier == 'quick' else 5400
            rc, out, dt = _sh(cmd, ws, env, timeout)
            result['cmds'].append(('RUSTFLAGS="%s" ' % CONFIGS[cfgname][0] if CONFIGS[cfgname][0] else '') + ' '.join(base) + ' --harness <each>')
            open(os.path.join(outdir, 'kani-%s.log' % cfgname), 'w').write(out)
            parsed = parse_kani_output(out)
            if not parsed:
                result['hard'] = (result['hard'] or '') + 'kani[%s] produced no harness results (rc=%s): %s' % (cfgname, rc, out[-1500:])
            for h in hs:
                full = [k for k in parsed if k.endswith('::' + h['name'])]
                oname = '%s/%s%s' % (h['unit'], h['obligation'], '' if len(h['configs']) == 1 and cfgname == 'on' else '[cfg=%s]' % cfgname)
                ob = {'name': oname, 'kind': 'harness', 'backend': 'kani', 'clause': h.get('doc', h['name']),
                      'bounded': h.get('kind') == 'bounded', 'bound': h.get('bound'), 'unit': h['unit'], 'fn': h['name'],
                      'assembled': os.path.join(ROOT, 'contracts', 'kani', h['unit'] + '.rs'), 'detail': '', 'config': CONFIGS[cfgname][1]}
                if len(full) != 1:
                    ob['status'] = 'undecided'
                    ob['detail'] = 'harness not found in Kani output (build failure?)\n' + out[-1200:]
                    result['harnesses'].append(ob)
                    continue
                pr = parsed[full[0]]
                block = pr['block']
                ob['detail'] = block[-2500:]
                if pr['status'] == 'SUCCESSFUL':
                    # vacuity: a harness with a cover must have it satisfied
                    if re.search(r'cover.*UNSATISFIABLE|\d+ of \d+ cover properties satisfied', block) and \
                            re.search(r' 0 of \d+ cover properties satisfied|UNSATISFIABLE', block):
                        ob['status'] = 'undecided'
                        ob['detail'] += '\nvacuity guard: cover property not satisfied'
                    else:
                        ob['status'] = 'discharged'
                elif pr['status'] == 'FAILED':
                    if re.search(r'unwinding assertion|UNDETERMINED|unsupported|not currently supported', block, re.I):
                        ob['status'] = 'undecided'
                        ob['detail'] += '\nundecided: unwinding assertion / unsupported construct, not a refutation'
                    else:
                        ok, txt = playback(ws, env, tdir, h, full[0], base, units)
                        ob['replay_text'] = txt[-6000:]
                        if ok:
                            ob['status'] = 'refuted'
                            ob['replay_kind'] = 'kani-concrete-playback (native run of the real crate fails on the counterexample)'
                        else:
                            ob['status'] = 'undecided'
                            ob['detail'] += '\nundecided: CBMC refutation was not confirmed by native playback on the real crate'
                else:
                    ob['status'] = 'undecided'
                    ob['detail'] += '\nno verdict (timeout/crash)'
                result['harnesses'].append(ob)
        for u in units:
            result['functions'].append({'name': 'kani unit %s attached to %s (real crate compiled as is)' % (u['unit'], u['attach']),
                                        'file': u['attach'], 'line': 0,
                                        'sha256': hashlib.sha256(open(os.path.join(REPO, u['attach'])).read().encode()).hexdigest(), 'props': [prop]})
    finally:
        shutil.rmtree(os.path.join(SCRATCH_BASE, tag), ignore_errors=True)
        fcntl.flock(lock, fcntl.LOCK_UN)
        result['wall_s'] = time.time() - t0
    return result


def playback(ws, env, tdir, h, fullname, base, units):
    """Re-run one failing harness with --concrete-playback=print, compile the test into the scratch crate, run natively."""
    cmd = base + ['-Z', 'concrete-playback', '--concrete-playback=print', '--harness', h['name']]
    rc, out, dt = _sh(cmd, ws, env, 1500)
    tests = re.findall(r'```\n(.*?)```', out, re.S)
    if not tests:
        return False, 'no concrete playback test was produced\n' + out[-1500:]
    unit = [u for u in units if u['unit'] == h['unit']][0]
    names = []
    with open(unit['dst'], 'a') as f:
        for t in tests:
            m = re.search(r'fn (kani_concrete_playback_\w+)', t)
            if m and m.group(1) not in names:
                names.append(m.group(1))
                f.write('\n' + t + '\n')
    log = 'counterexample test(s) generated by Kani:\n' + '\n'.join(tests) + '\n'
    failed_any = False
    for n in names[:3]:
        cmd = ['cargo', 'kani', 'playback', '-p', 'yarel', '-Z', 'concrete-playback', '--', n]
        env2 = dict(env)
        env2['CARGO_TARGET_DIR'] = tdir + '-playback'
        rc, o, dt = _sh(cmd, ws, env2, 1500)
        log += '\n$ %s\n%s\n' % (' '.join(cmd), o[-2500:])
        if re.search(r'test result: FAILED|panicked at', o):
            failed_any = True
    return failed_any, log
