#!/bin/bash
# runs every behaviour-preserving patch of the given groups (default H4 H5 H6) through all checks (Verus side)
HERE=$(cd "$(dirname "$0")/.." && pwd)
for h in ${@:-H4 H5 H6}; do
  for p in $HERE/seeded-harmless/$h/harmless_*.diff; do
    VERIF_ROOT=$HERE REPO_SRC=${VP_RUN_REPO:-/repo} bash $HERE/lib/run_harmless.sh $p
  done
done
